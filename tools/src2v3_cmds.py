#!/usr/bin/env python3
"""Tie A, level 1 for the COMMANDS of `mlar` other than `extract` (work package cmdsT): regenerate coq/gen/Src3m.v.

Translated statement by statement from /repo/mlar/src/main.rs (parser: tools/rustmini.py):
  open_ecc_private_keys, open_ecc_public_keys, readerconfig_from_matches, config_from_matches,
  destination_from_output_argument, writer_from_matches, open_mla_file, open_failsafe_mla_file,
  add_file_to_tar, add_dir, add_file_or_dir (fuelled: the recursion over the directory tree), add_from_stdin,
  create, list, cat (both forms), to_tar, repair, convert, keygen, apply_derive, keyderive, const DERIVE_PATH_SALT.
theories/SrcTie3Cmds.v / SrcTie3Keycmds.v instantiate the library primitives with the model's functions and prove the
translated commands equal to Cli.cli_open, cmd_list, cmd_list_verbose, cmd_cat, cmd_to_tar, cmd_convert,
CliRepair.cmd_repair, Cli.cmd_create, Derive.keygen_seed_files, Derive.keyderive_files.

Every translated function is  f args.. w : (World [* &mut parameters]) * res T  — World = the output files and stdout.

Trusted mapping of primitives (section Variables of Src3m.v unless said otherwise):
  matches.get_one::<T>("x").unwrap() / get_many / contains_id / get_flag / get_count   -> the Variables arg_* (clap = parameters)
  eprintln!                                   -> nothing;   println!(fmt, ..) -> print_line: the pieces ++ [10] appended to w_stdout
  File::open(input path)                      -> fs_open arg_input : res File;  file.rewind() -> file_rewind;  ArchiveHeader::from(&mut file) -> header_from
  header.config.layers_enabled.contains(L)    -> hdr_contains;  ArchiveReaderConfig builder calls -> the record ReaderConfig (preamble)
  ArchiveReader::from_config / ArchiveFailSafeReader::from_config / ArchiveWriter::from_config -> reader_from_config / failsafe_from_config / writer_from_config
  mla.list_files()?.cloned().collect() -> ar_list_files;  mla.get_file(n) -> ar_get_file;  mla.get_hash(n) -> ar_get_hash;  v.sort() -> sort
  an ArchiveFile borrows the reader: once its data was read (io::copy, add_file, append_data) the reader is af_release of it
  io::copy(&mut f.data, &mut destination)     -> io_copy f (reader afterwards, bytes delivered, how it ended), the bytes through dest_write
  File::create(output path)                   -> sys_create (truncates: OWritten []);  `impl Write for OutputTypes` -> dest_write (text checked)
  w.add_file(name, size, data) / finalize / convert_to_archive -> aw_add_archive_file / aw_add_fs_file / aw_finalize / fsr_convert_to_archive
  Header::new_gnu / set_size / set_mode / set_cksum -> the record TarHeader;  Builder::new(io::sink()).append_data(&mut h.clone(), p, io::empty()) -> tar_dry_run
  tar_file.append_data(&mut h, p, f.data)     -> tar_append_data (the tar crate: Tar.v);  Drop of the Builder at every exit after its creation -> tar_finish
  Path::new(n).is_absolute()                  -> path_is_absolute (first byte '/');  format!("./{}", n) -> the bytes
  path.is_dir / File::open / file.metadata()?.len() / read_dir / path.to_string_lossy -> fs_is_dir / fs_open_file / cfile_metadata_len / fs_read_dir / cpath_name
  Sha512::digest -> sha512_digest; x[a..b] -> Base.slice (panic site); copy_from_slice -> copy_from_slice (length test); [0u8; n] -> zeros_n
  ChaChaRng::from_seed / from_os_rng -> rng_from_seed / rng_from_os;  generate_keypair(&mut rng) -> generate_keypair
  Hkdf::<Sha512>::new(salt, ikm) / expand(info, &mut okm) -> hkdf_sha512_new / hkdf_expand (length of okm);  src.to_bytes() -> secret_to_bytes
  parse_openssl_25519_privkey / _pubkey -> parse_privkey / parse_pubkey;  key_pair.public_as_pem().as_bytes() / .private_der -> kp_public_as_pem / kp_private_der
  .expect(..) / .unwrap() / panic! / assert!   -> Crash (site_<fn> k), k = ordinal of the site in the function
  io / Mlar errors -> Err EIo;  PrivateKeyProvidedButNotUsed -> Err EKey;  InvalidECCKeyFormat -> Err EInval
  `info` (work package cmdsT2): ArchiveInfoReader::from_config -> info_from_config;  get_files_size -> ir_get_files_size;  .compressed_size -> ir_compressed_size;
      header.format_version / header.config.encrypt / .multi_recipient.count_keys() -> hdr_format_version / hdr_encrypt / enc_count_keys;
      println! of a u32 / usize `{}` -> fmt_dec, of a bool -> fmt_bool;  `a as f64 / b as f64` printed with `{:.2}` -> fmt_rate a b;  get_flag("verbose") -> arg_verbose
FAILS CLOSED per item: anything not recognised -> `Definition <name>_untranslatable : unit := tt.`
"""
import os
import re
import sys

sys.path.insert(0, os.path.dirname(os.path.abspath(__file__)))
import rustmini as R  # noqa: E402
from rustmini import ParseError, strip_paren, show  # noqa: E402

REPO = os.environ.get("VERIF_REPO", "/repo")
OUT = os.environ.get("VERIF_SRC3M_OUT") or os.path.join(os.path.dirname(os.path.abspath(__file__)), "..", "coq", "gen", "Src3m.v")
PRINTS = ("eprintln", "eprint")

KT = {"bytes": "bytes", "names": "list bytes", "secrets": "list StaticSecret", "pubkeys": "list PublicKey", "rcfg": "ReaderConfig",
      "wcfg": "WriterConfig", "mla": "ArchiveReader", "aw": "ArchiveWriter", "fsr": "FailSafeReader", "tar": "TarBuilder",
      "tarhdr": "TarHeader", "file": "File", "afile": "ArchiveFile", "rng": "Rng", "optkeypair": "option KeyPair", "keypair": "KeyPair",
      "secret": "StaticSecret", "bool": "bool", "N": "N", "dest": "OutputTypes", "opath": "OPath", "ofile": "OPath", "ipath": "IPath",
      "kpath": "KPath", "cpath": "CPath", "cfile": "CFile", "kfile": "bytes", "header": "Header", "hkdf": "Hkdf", "unit": "unit",
      "status": "Status", "dirent": "res CPath", "resline": "res CPath", "pat": "Pat",
      "infor": "InfoReader", "enccfg": "EncCfg"}
MUT = {"bytes", "names", "secrets", "pubkeys", "rcfg", "wcfg", "mla", "aw", "fsr", "tar", "tarhdr", "file", "afile", "rng", "optkeypair", "secret"}
LISTELEM = {"names": "bytes", "optnames": "bytes", "kpaths": "kpath", "cpaths": "cpath", "dirents": "dirent", "reslines": "resline"}
VEC_KINDS = {"private_keys": "secrets", "public_keys": "pubkeys", "layers": "names", "buf": "bytes"}

# clap accessors: (method, name) -> (Gallina, kind); per item overrides in ITEM_CLAP
CLAP = {("get_one::<PathBuf>.unwrap", "input"): ("arg_input", "ipath"), ("get_one::<PathBuf>.unwrap", "output"): ("arg_output", "opath"),
        ("get_one::<String>", "seed"): ("arg_seed", "optbytes"), ("get_one::<u32>", "compression_level"): ("arg_compression_level", "optN"),
        ("get_many::<PathBuf>", "private_keys"): ("arg_private_keys", "optkpaths"), ("get_many::<PathBuf>", "public_keys"): ("arg_public_keys", "optkpaths"),
        ("get_many::<String>", "layers"): ("arg_layers", "optnames"), ("get_many::<PathBuf>", "files"): ("arg_files_paths", "optcpaths"),
        ("get_many::<String>", "files"): ("arg_files_names", "optnames"), ("get_many::<String>", "path"): ("arg_path", "optnames"),
        ("contains_id", "private_keys"): ("(is_some arg_private_keys)", "bool"), ("contains_id", "public_keys"): ("(is_some arg_public_keys)", "bool"),
        ("contains_id", "layers"): ("(is_some arg_layers)", "bool"), ("contains_id", "compression_level"): ("(is_some arg_compression_level)", "bool"),
        ("get_flag", "allow_unauthenticated_data"): ("arg_allow_unauthenticated_data", "bool"), ("get_flag", "glob"): ("arg_glob", "bool"),
        ("get_count", "verbose"): ("arg_verbose_count", "N")}
ITEM_CLAP = {"keyderive": {("get_one::<PathBuf>.unwrap", "input"): ("arg_key_input", "kpath")},
             "info": {("get_flag", "verbose"): ("arg_verbose", "bool")}}
OPTELEM = {"optkpaths": "kpaths", "optnames": "names", "optcpaths": "cpaths"}

# translated functions: name -> (params [(name, kind, mut?)], result kind, result is Result<..>?)
FNS = {}


def read_file(rel):
    with open(os.path.join(REPO, rel), encoding="utf-8") as f:
        return f.read()


def norm(e):
    return re.sub(r"\s", "", show(e))


def unref(e):
    e = strip_paren(e)
    while True:
        if e[0] == "un" and e[1] in ("&", "&mut", "*"):
            e = strip_paren(e[2])
        elif e[0] == "mcall" and e[2] in ("as_ref", "clone", "to_path_buf", "as_path", "to_string", "as_str", "as_bytes", "as_os_str") and not e[3]:
            e = strip_paren(e[1])
        elif e[0] == "call" and e[1] == ("path", "Path::new") and len(e[2]) == 1:
            e = strip_paren(e[2][0])
        else:
            return e


def is_print(st):
    if st[0] in ("semi", "expr"):
        e = strip_paren(st[1])
        return e[0] == "macro" and e[1] in PRINTS
    return False


def only_prints(b):
    b = strip_paren(b)
    if b[0] == "macro" and b[1] in PRINTS:
        return True
    return b[0] == "block" and b[2] is None and all(is_print(s) for s in b[1])


def blit(s):
    return "[%s]" % "; ".join(str(b) for b in s.encode())


def str_lit(e):
    e = strip_paren(e)
    if e[0] == "str" and e[1].startswith('"'):
        body = e[1][1:-1]
        if "\\" in body:
            raise ParseError("escape in string literal")
        return blit(body)
    return None


def diverges(block):
    """a block that ends with continue / return / panic!"""
    b = strip_paren(block)
    if b[0] != "block":
        return b[0] in ("continue", "return") or (b[0] == "macro" and b[1] == "panic")
    last = b[2] if b[2] is not None else (b[1][-1][1] if b[1] else None)
    if last is None:
        return False
    last = strip_paren(last)
    return last[0] in ("continue", "return") or (last[0] == "macro" and last[1] == "panic")


class V:
    def __init__(self, text, kind, extra=None):
        self.text, self.kind, self.extra = text, kind, extra


class Ctx:
    def __init__(self):
        self.locals, self.w, self.exit, self.loop, self.ret = {}, "w", None, None, None

    def copy(self):
        c = Ctx()
        c.locals, c.w, c.exit, c.loop, c.ret = dict(self.locals), self.w, self.exit, self.loop, self.ret
        return c


class Tr:
    def __init__(self, item):
        self.item, self.n, self.nsite, self.nloops, self.extra = item, 0, 0, 0, []
        self.clap = dict(CLAP)
        self.clap.update(ITEM_CLAP.get(item, {}))

    def fresh(self, base):
        self.n += 1
        return "%s%d" % (re.sub(r"\W", "", base) or "v", self.n)

    def site(self):
        self.nsite += 1
        return "(site_%s %d)" % (self.item, self.nsite)

    # ---------------------------------------------------------------- pure expressions
    def clap_get(self, u):
        """matches.<accessor>("name")[.unwrap()]"""
        if u[0] == "mcall" and u[2] == "unwrap" and not u[3]:
            i = strip_paren(u[1])
            if i[0] == "mcall" and strip_paren(i[1]) == ("path", "matches") and len(i[3]) == 1 and i[3][0][0] == "str":
                key = (i[2] + ".unwrap", i[3][0][1][1:-1])
                if key in self.clap:
                    return V(*self.clap[key])
        if u[0] == "mcall" and strip_paren(u[1]) == ("path", "matches") and len(u[3]) == 1 and u[3][0][0] == "str":
            key = (u[2], u[3][0][1][1:-1])
            if key in self.clap:
                return V(*self.clap[key])
            raise ParseError("clap accessor %s(%s)" % key)
        return None

    def layer(self, e):
        t = norm(e)
        if t in ("Layers::ENCRYPT", "Layers::COMPRESS"):
            return t.split("::")[1]
        raise ParseError("layer " + t)

    def pe(self, e, c):
        e0 = strip_paren(e)
        if e0[0] == "mcall" and e0[2] == "to_string_lossy" and not e0[3]:
            r = self.pe(e0[1], c)
            if r.kind == "cpath":
                return V("(cpath_name %s)" % r.text, "bytes")
        cg = self.clap_get(strip_paren(e0[2]) if e0[0] == "un" and e0[1] == "*" else e0)
        if cg is not None:
            return cg
        u = unref(e)
        cg = self.clap_get(u)
        if cg is not None:
            return cg
        k = u[0]
        if k == "path":
            if u[1] in c.locals:
                return c.locals[u[1]]
            if u[1] in ("true", "false"):
                return V(u[1], "bool")
            if u[1] == "None":
                return V("None", "optinfor" if self.item == "info" else "optkeypair")
            if u[1] == "OutputTypes::Stdout":
                return V("Stdout", "dest")
            if u[1] == "DERIVE_PATH_SALT":
                return V("DERIVE_PATH_SALT", "bytes")
            if u[1] == "ChaChaRng::from_os_rng":
                return V("rng_from_os", "rng")
            raise ParseError("unknown name " + u[1])
        if k == "int":
            return V(str(int(re.sub(r"[a-z_].*$", "", u[1].replace("_", "")) if isinstance(u[1], str) else u[1])), "N")
        if k == "str":
            return V(str_lit(u), "bytes")
        if k == "repeat" and norm(u[1]) in ("0", "0u8"):
            return V("(zeros_n %s)" % self.pe(u[2], c).text, "bytes")
        if k == "un" and u[1] == "!":
            v = self.pe(u[2], c)
            if v.kind != "bool":
                raise ParseError("! on a " + v.kind)
            return V("(negb %s)" % v.text, "bool")
        if k == "bin":
            op = u[1]
            if op in ("&&", "||"):
                a, b = self.pe(u[2], c), self.pe(u[3], c)
                if a.kind != "bool" or b.kind != "bool":
                    raise ParseError("boolean operator on " + a.kind)
                return V("(%s %s %s)" % (a.text, op, b.text), "bool")
            if op in ("==", "<=", ">="):
                a, b = self.pe(u[2], c), self.pe(u[3], c)
                if a.kind == "N" and b.kind == "N":
                    return V({"==": "(%s =? %s)", "<=": "(%s <=? %s)", ">=": "(%s <=? %s)"}[op] % ((b.text, a.text) if op == ">=" else (a.text, b.text)), "bool")
                if op == "==" and b.kind == "bytes" and a.kind == "bytes":
                    return V("(bytes_eqb %s %s)" % (a.text, b.text), "bool")
                if op == "==" and a.kind in ("opath", "cpath") and b.text == blit("-"):
                    return V("(%s_is_dash %s)" % (a.kind, a.text), "bool")
        if k == "bin" and u[1] == "/" and strip_paren(u[2])[0] == "cast" and strip_paren(u[3])[0] == "cast" \
                and strip_paren(u[2])[2] == "f64" and strip_paren(u[3])[2] == "f64":
            a, b = self.pe(strip_paren(u[2])[1], c), self.pe(strip_paren(u[3])[1], c)
            if a.kind == "N" and b.kind == "N":
                return V("(%s, %s)" % (a.text, b.text), "rate")
        if k == "field":
            b = self.pe(u[1], c) if norm(u[1]) in c.locals else None
            if b is not None and b.kind == "afile" and u[2] in ("filename", "size"):
                return V("(af_%s %s)" % (u[2], b.text), "bytes" if u[2] == "filename" else "N")
            if b is not None and b.kind == "keypair" and u[2] == "private_der":
                return V("(kp_private_der %s)" % b.text, "bytes")
            if b is not None and b.kind == "header" and u[2] == "format_version":
                return V("(hdr_format_version %s)" % b.text, "N")
            if b is not None and b.kind == "infor" and u[2] == "compressed_size":
                return V("(ir_compressed_size %s)" % b.text, "optN")
            mm = re.fullmatch(r"(\w+)\.config\.encrypt", norm(u))
            if mm and mm.group(1) in c.locals and c.locals[mm.group(1)].kind == "header":
                return V("(hdr_encrypt %s)" % c.locals[mm.group(1)].text, "optenccfg")
        if k == "mcall":
            recv, m, args = strip_paren(u[1]), u[2], u[3]
            t = norm(u)
            mm = re.fullmatch(r"(\w+)\.layers_enabled\.contains\((Layers::\w+)\)", t)
            if mm and mm.group(1) in c.locals and c.locals[mm.group(1)].kind == "rcfg":
                return V("(rc_contains %s %s)" % (c.locals[mm.group(1)].text, mm.group(2).split("::")[1]), "bool")
            mm = re.fullmatch(r"(\w+)\.config\.layers_enabled\.contains\((Layers::\w+)\)", t)
            if mm and mm.group(1) in c.locals and c.locals[mm.group(1)].kind == "header":
                return V("(hdr_contains %s %s)" % (c.locals[mm.group(1)].text, mm.group(2).split("::")[1]), "bool")
            mm = re.fullmatch(r"(\w+)\.multi_recipient\.count_keys\(\)", t)
            if mm and mm.group(1) in c.locals and c.locals[mm.group(1)].kind == "enccfg":
                return V("(enc_count_keys %s)" % c.locals[mm.group(1)].text, "N")
            if m == "is_layers_enabled" and len(args) == 1:
                r = self.pe(recv, c)
                if r.kind == "wcfg":
                    return V("(wc_is_enabled %s %s)" % (r.text, self.layer(args[0])), "bool")
            if m == "format_size" and norm(args[0]) == "DECIMAL":
                r = self.pe(recv, c)
                if r.kind == "N":
                    return V("(format_size_decimal %s)" % r.text, "bytes")
            if m == "is_absolute" and not args:
                r = self.pe(recv, c)
                if r.kind == "bytes":
                    return V("(path_is_absolute %s)" % r.text, "bool")
            if m == "with_extension" and len(args) == 1:
                r, a = self.pe(recv, c), self.pe(args[0], c)
                if r.kind == "opath" and a.kind == "bytes":
                    return V("(opath_with_extension %s %s)" % (r.text, a.text), "opath")
            if m == "is_dir" and not args:
                r = self.pe(recv, c)
                if r.kind == "cpath":
                    return V("(fs_is_dir %s)" % r.text, "bool")
            if m == "public_as_pem" and not args:
                r = self.pe(recv, c)
                if r.kind == "keypair":
                    return V("(kp_public_as_pem %s)" % r.text, "bytes")
            if m == "to_bytes" and not args:
                r = self.pe(recv, c)
                if r.kind == "secret":
                    return V("(secret_to_bytes %s)" % r.text, "bytes")
            if m == "matches" and len(args) == 1:
                r, a = self.pe(recv, c), self.pe(args[0], c)
                if r.kind == "pat" and a.kind == "bytes":
                    return V("(glob_matches %s %s)" % (r.text, a.text), "bool")
            if m == "path" and not args:
                r = self.pe(recv, c)
                if r.kind == "direntry":
                    return V("(dirent_path %s)" % r.text, "cpath")
            if m == "len" and not args:
                r = self.pe(recv, c)
                if r.kind == "meta":
                    return V("(meta_len %s)" % r.text, "N")
        if k == "call" and u[1][0] == "path":
            fn, args = u[1][1], u[2]
            if fn == "hex::encode" and len(args) == 1:
                return V("(hex_encode %s)" % self.pe(args[0], c).text, "bytes")
            if fn == "Sha512::digest" and len(args) == 1:
                a = self.pe(args[0], c)
                if a.kind == "bytes":
                    return V("(sha512_digest %s)" % a.text, "bytes")
            if fn == "ChaChaRng::from_seed" and len(args) == 1:
                a = self.pe(args[0], c)
                if a.kind == "bytes":
                    return V("(rng_from_seed %s)" % a.text, "rng")
            if fn == "Some" and len(args) == 1:
                a = self.pe(args[0], c)
                if a.kind == "keypair":
                    return V("(Some %s)" % a.text, "optkeypair")
                if a.kind == "bytes":
                    return V("(Some %s)" % a.text, "optbytes")
                if a.kind == "infor":
                    return V("(Some %s)" % a.text, "optinfor")
            if fn == "Hkdf::new" and len(args) == 2:
                a, b = self.pe(args[0], c), self.pe(args[1], c)
                if a.kind == "optbytes" and b.kind == "bytes":
                    return V("(hkdf_sha512_new %s %s)" % (a.text, b.text), "hkdf?")
            if fn == "Header::new_gnu" and not args:
                return V("tar_header_new_gnu", "tarhdr")
            if fn == "Builder::new" and len(args) == 1:
                a = self.pe(args[0], c)
                if a.kind == "dest":
                    return V("(tar_builder_new %s)" % a.text, "tar")
            if fn == "ArchiveReaderConfig::new" and not args:
                return V("rc_new", "rcfg")
            if fn == "ArchiveWriterConfig::new" and not args:
                return V("wc_new", "wcfg")
        if k == "macro" and u[1] == "format" and u[3]:
            return V(self.fmt(u[3], c, False), "bytes")
        raise ParseError("expression " + show(e)[:80])

    def display(self, v):
        if v.kind == "bytes":
            return v.text
        if v.kind == "N" and self.item == "info":
            return "(fmt_dec %s)" % v.text
        if v.kind == "bool" and self.item == "info":
            return "(fmt_bool %s)" % v.text
        raise ParseError("format argument of kind " + v.kind)

    def fmt(self, args, c, newline):
        s = strip_paren(args[0])
        if s[0] != "str" or "\\" in s[1]:
            raise ParseError("format string")
        body, rest, out = s[1][1:-1], list(args[1:]), []
        for i, piece in enumerate(re.split(r"(\{[^}]*\})", body)):
            if i % 2 == 0:
                if piece:
                    out.append(blit(piece))
            elif piece == "{}":
                if not rest:
                    raise ParseError("format arguments")
                v = self.pe(rest.pop(0), c)
                out.append(self.display(v))
            elif re.fullmatch(r"\{\w+\}", piece):
                v = self.pe(("path", piece[1:-1]), c)
                out.append(self.display(v))
            elif re.fullmatch(r"\{\w+:\.2\}", piece):
                v = self.pe(("path", piece[1:-4]), c)
                if v.kind != "rate":
                    raise ParseError("{:.2} of a " + v.kind)
                out.append("(fmt_rate (fst %s) (snd %s))" % (v.text, v.text))
            else:
                raise ParseError("format spec " + piece)
        if rest:
            raise ParseError("format arguments")
        if newline:
            out.append("[10]")
        return "(%s)" % " ++ ".join(out or ["[]"])

    # ---------------------------------------------------------------- result-valued calls
    def rv(self, x, c):
        """x: an expression of type Result / io::Result (or a call of a translated fn) -> (term, statevars, kind)
        statevars: names of locals ('w' = the world) the term returns updated, in tuple order"""
        x = strip_paren(x)
        if x[0] == "mcall" and x[2] == "map_err" and len(x[3]) == 1:
            cl = strip_paren(x[3][0])
            b = strip_paren(cl[2]) if cl[0] == "closure" else None
            if b is None or not re.fullmatch(r"\w+", cl[1]) or b[0] != "block" or not all(is_print(s) for s in b[1]) or b[2] is None \
                    or strip_paren(b[2]) != ("path", cl[1]):
                raise ParseError("map_err closure changes the error")
            return self.rv(x[1], c)
        L = lambda e: unref(e)[1] if unref(e)[0] == "path" and unref(e)[1] in c.locals else None
        if x[0] == "call" and x[1][0] == "path":
            fn, args = x[1][1], x[2]
            if fn == "File::open" and len(args) == 1:
                p = self.pe(args[0], c)
                if p.kind == "ipath":
                    return "fs_open %s" % p.text, [], "file"
                if p.kind == "kpath":
                    return "fs_open_key %s %s" % (p.text, c.w), [], "kfile"
                if p.kind == "cpath":
                    return "fs_open_file %s" % p.text, [], "cfile"
            if fn == "File::create" and len(args) == 1:
                p = self.pe(args[0], c)
                if p.kind == "opath":
                    return "sys_create %s %s" % (p.text, c.w), ["w"], "ofile"
            if fn == "ArchiveHeader::from" and len(args) == 1 and L(args[0]) and c.locals[L(args[0])].kind == "file":
                return "header_from %s" % c.locals[L(args[0])].text, [L(args[0])], "header"
            if fn in ("ArchiveReader::from_config", "ArchiveFailSafeReader::from_config") and len(args) == 2:
                a, b = self.pe(args[0], c), self.pe(args[1], c)
                if a.kind == "file" and b.kind == "rcfg":
                    return "%s %s %s" % ("reader_from_config" if fn.startswith("ArchiveReader") else "failsafe_from_config", a.text, b.text), [], \
                        "mla" if fn.startswith("ArchiveReader") else "fsr"
            if fn == "ArchiveInfoReader::from_config" and len(args) == 2:
                a, b = self.pe(args[0], c), self.pe(args[1], c)
                if a.kind == "file" and b.kind == "rcfg":
                    return "info_from_config %s %s" % (a.text, b.text), [], "infor"
            if fn == "ArchiveWriter::from_config" and len(args) == 2:
                a, b = self.pe(args[0], c), self.pe(args[1], c)
                if a.kind == "dest" and b.kind == "wcfg":
                    return "writer_from_config %s %s %s" % (a.text, b.text, c.w), ["w"], "aw"
            if fn in ("parse_openssl_25519_privkey", "parse_openssl_25519_pubkey") and len(args) == 1:
                a = self.val_pure_or_unwrap(args[0], c)
                if a is not None and a.kind == "bytes":
                    return "%s %s" % ("parse_privkey" if "priv" in fn else "parse_pubkey", a.text), [], "secret" if "priv" in fn else "pubkey"
            if fn == "generate_keypair" and len(args) == 1 and L(args[0]) and c.locals[L(args[0])].kind == "rng":
                return "generate_keypair %s" % c.locals[L(args[0])].text, [L(args[0])], "keypair"
            if fn == "Pattern::new" and len(args) == 1:
                a = self.pe(args[0], c)
                if a.kind == "bytes":
                    return "glob_new %s" % a.text, [], "pat"
            if fn == "read_dir" and len(args) == 1:
                p = self.pe(args[0], c)
                if p.kind == "cpath":
                    return "fs_read_dir %s" % p.text, [], "dirents"
            if fn in ("io::copy", "std::io::copy") and len(args) == 2:
                s, d = unref(args[0]), self.pe(args[1], c)
                if s[0] == "field" and s[2] == "data" and L(s[1]) and c.locals[L(s[1])].kind == "afile" and d.kind == "dest":
                    return "copy_to_dest %s %s %s" % (c.locals[L(s[1])].text, d.text, c.w), ["w", L(s[1])], "N"
            if fn in FNS:
                ps, rk, _ = FNS[fn]
                real = [a for a in args if norm(a) != "matches"]
                if len(real) != len([p for p in ps if p[1] not in ("fuel", "recfn")]):
                    raise ParseError("arguments of " + fn)
                texts, sv = [], ["w"]
                it = iter(real)
                for pn, pk, pm in ps:
                    if pk in ("fuel", "recfn"):
                        texts.append(pn)
                        continue
                    a = next(it)
                    v = self.pe(a, c)
                    if v.kind != pk:
                        raise ParseError("argument %s of %s: %s for %s" % (pn, fn, v.kind, pk))
                    texts.append(v.text)
                    if pm:
                        if not L(a):
                            raise ParseError("&mut argument is not a local")
                        sv.append(L(a))
                call = fn if fn != self.item and fn not in getattr(self, "rec", ()) else fn + "_rec"
                return "%s %s %s" % (call, " ".join(texts), c.w), sv, rk
        if x[0] == "mcall":
            recv, m, args = strip_paren(x[1]), x[2], x[3]
            t = norm(x)
            if re.fullmatch(r"Builder::new\(io::sink\(\)\)\.append_data\(&mut\w+\.clone\(\),&\w+,io::empty\(\)\)", t):
                h, p = self.pe(strip_paren(args[0]), c), self.pe(args[1], c)
                if h.kind == "tarhdr" and p.kind == "bytes":
                    return "tar_dry_run %s %s" % (h.text, p.text), [], "unit"
            rl = L(recv)
            rk = c.locals[rl].kind if rl else None
            if m == "rewind" and not args and rk == "file":
                return "file_rewind %s" % c.locals[rl].text, [rl], "unit"
            if m == "read_to_end" and len(args) == 1 and rk == "kfile" and L(args[0]) and c.locals[L(args[0])].kind == "bytes":
                return "read_to_end %s %s" % (c.locals[rl].text, c.locals[L(args[0])].text), [L(args[0])], "N"
            if m == "list_files" and not args and rk == "mla":
                return "ar_list_files %s" % c.locals[rl].text, [rl], "names"
            if m in ("get_file", "get_hash") and len(args) == 1 and rk == "mla":
                a = self.pe(args[0], c)
                if a.kind == "bytes":
                    return "ar_%s %s %s" % (m, c.locals[rl].text, a.text), [rl], "optafile" if m == "get_file" else "optbytes", rl
            if m == "add_file" and len(args) == 3 and rk == "aw":
                d = unref(args[2])
                if d[0] == "field" and d[2] == "data" and L(d[1]) and c.locals[L(d[1])].kind == "afile":
                    n, s = self.pe(args[0], c), self.pe(args[1], c)
                    if n.kind == "bytes" and s.kind == "N":
                        return "aw_add_archive_file %s %s %s %s %s" % (c.locals[rl].text, n.text, s.text, c.locals[L(d[1])].text, c.w), ["w", rl, L(d[1])], "unit"
                n, s, f = self.pe(args[0], c), self.pe(args[1], c), self.pe(args[2], c)
                if (n.kind, s.kind, f.kind) == ("bytes", "N", "cfile"):
                    return "aw_add_fs_file %s %s %s %s %s" % (c.locals[rl].text, n.text, s.text, f.text, c.w), ["w", rl], "unit"
            if m == "finalize" and not args and rk == "aw":
                return "aw_finalize %s %s" % (c.locals[rl].text, c.w), ["w", rl], "unit"
            if m == "convert_to_archive" and len(args) == 1 and rk == "fsr" and L(args[0]) and c.locals[L(args[0])].kind == "aw":
                return "fsr_convert_to_archive %s %s %s" % (c.locals[rl].text, c.locals[L(args[0])].text, c.w), ["w", rl, L(args[0])], "status"
            if m == "append_data" and len(args) == 3 and rk == "tar":
                h, p, d = unref(args[0]), self.pe(args[1], c), unref(args[2])
                if h[0] == "path" and h[1] in c.locals and c.locals[h[1]].kind == "tarhdr" and p.kind == "bytes" and d[0] == "field" and d[2] == "data" \
                        and L(d[1]) and c.locals[L(d[1])].kind == "afile" and norm(args[0]).startswith("&mut"):
                    return "tar_append_data %s %s %s %s %s" % (c.locals[rl].text, c.locals[h[1]].text, p.text, c.locals[L(d[1])].text, c.w), ["w", rl, L(d[1])], "unit"
            if m == "write_all" and len(args) == 1 and rk == "ofile":
                b = self.pe(args[0], c)
                if b.kind == "bytes":
                    return "file_write_all %s %s %s" % (c.locals[rl].text, b.text, c.w), ["w"], "unit"
            if m == "expand" and len(args) == 2 and rk == "hkdf" and L(args[1]) and norm(args[1]).startswith("&mut"):
                i = self.pe(args[0], c)
                if i.kind == "bytes" and c.locals[L(args[1])].kind == "bytes":
                    return "hkdf_expand %s %s %s" % (c.locals[rl].text, i.text, c.locals[L(args[1])].text), [L(args[1])], "unit"
            if m == "with_compression_level" and len(args) == 1 and rk == "wcfg":
                a = self.pe(args[0], c)
                if a.kind == "N":
                    return "wc_with_compression_level %s %s" % (c.locals[rl].text, a.text), [rl], "unit"
            if m == "get_files_size" and not args and rk == "infor":
                return "ir_get_files_size %s" % c.locals[rl].text, [], "N"
            if m == "metadata" and not args and rk == "cfile":
                return "cfile_metadata %s" % c.locals[rl].text, [], "meta"
        if x[0] == "path" and x[1] in c.locals and c.locals[x[1]].kind in ("dirent", "resline"):
            return c.locals[x[1]].text, [], "direntry" if c.locals[x[1]].kind == "dirent" else "cpath"
        raise ParseError("result-valued expression " + show(x)[:80])

    def val_pure_or_unwrap(self, e, c):
        try:
            return self.pe(e, c)
        except ParseError:
            return None

    def bind(self, x, c, onerr, k):
        """evaluate the result-valued x; Ok v -> k(V, ctx);  onerr: 'try' | ('crash', site) | ('ignore',)"""
        x0 = strip_paren(x)
        if x0[0] == "call":
            for i, a in enumerate(x0[2]):
                ua = unref(a)
                if norm(a) == "matches" or (ua[0] == "field" and ua[2] == "data"):
                    continue
                if self.val_pure_or_unwrap(a, c) is None:
                    nm = self.fresh("__a")
                    args2 = list(x0[2])
                    args2[i] = ("path", nm)
                    return self.val(ua, c, lambda v, c2: self.bind(("call", x0[1], args2), self.with_local(c2, nm, v), onerr, k))
        r = self.rv(x, c)
        term, sv, kind = r[0], r[1], r[2]
        c2 = c.copy()
        pats = []
        for name in sv:
            if name == "w":
                g = self.fresh("w")
                c2.w = g
            else:
                g = self.fresh(name)
                old = c2.locals[name]
                c2.locals[name] = V(g, old.kind, old.extra)
                if old.kind == "afile" and old.extra and term.split(" ")[0] in ("copy_to_dest", "aw_add_archive_file", "tar_append_data"):
                    c2.locals[old.extra] = V("(af_release %s)" % g, "mla")
                if old.kind == "afile" and old.extra and term.split(" ")[0] in FNS:
                    c2.locals[old.extra] = V("(af_release %s)" % g, "mla")
            pats.append(g)
        v = self.fresh("v")
        vv = V(v, kind)
        if kind == "optafile":
            vv.extra = r[3]
        st = ("(%s)" % ", ".join(pats)) if len(pats) > 1 else (pats[0] if pats else None)
        pat = (lambda r_: "(%s, %s)" % (st, r_)) if st else (lambda r_: r_)
        okb = k(vv, c2.copy())
        if onerr == "try":
            eb = c2.exit(c2, "Err e")
        elif onerr[0] == "crash":
            eb = c2.exit(c2, "Crash %s" % onerr[1])
        else:
            eb = onerr[1](c2.copy())
        return "match %s with\n    | %s =>\n    %s\n    | %s => %s\n    | %s => %s\n    end" % (
            term, pat("Ok %s" % v), okb, pat("Err e"), eb, pat("Crash x"), c2.exit(c2, "Crash x"))

    # ---------------------------------------------------------------- values (CPS)
    def val(self, e, c, k):
        e0 = strip_paren(e)
        if e0[0] == "un" and e0[1] in ("&", "*", "&mut"):
            return self.val(e0[2], c, k)
        if e0[0] == "try":
            inner = strip_paren(e0[1])
            return self.bind(inner, c, "try", k)
        if e0[0] == "mcall" and e0[2] in ("cloned", "collect", "as_ref") and not e0[3] and strip_paren(e0[1])[0] in ("try", "mcall"):
            try:
                return k(self.pe(e0, c), c)
            except ParseError:
                return self.val(e0[1], c, k)
        if e0[0] == "mcall" and e0[2] in ("expect", "unwrap"):
            if self.clap_get(e0) is not None:
                return k(self.clap_get(e0), c)
            inner = strip_paren(e0[1])
            return self.unwrap(inner, c, k)
        if e0[0] == "mcall" and e0[2] == "map_or_else" and len(e0[3]) == 2:
            return self.map_or_else(e0, c, k)
        if e0[0] == "mcall" and e0[2] in ("path", "len") and not e0[3] and strip_paren(e0[1])[0] == "try":
            return self.val(e0[1], c, lambda v, c2: k(self.pe(("mcall", ("path", "__v"), e0[2], []), self.with_local(c2, "__v", v)), c2))
        if e0[0] == "field" and self.val_pure_or_unwrap(e0, c) is None:
            return self.val(e0[1], c, lambda v, c2: k(self.pe(("field", ("path", "__v"), e0[2]), self.with_local(c2, "__v", v)), c2))
        if e0[0] == "match":
            return self.match_val(e0, c, k)
        if e0[0] == "block":
            if e0[2] is None:
                raise ParseError("block value")
            return self.stmts(list(e0[1]), None, c, lambda c2: self.val(e0[2], c2, k))
        if e0[0] == "if" and e0[3] is not None and e0[1][0] != "letcond":
            cv = self.pe(e0[1], c)
            if cv.kind != "bool":
                raise ParseError("condition")
            return "if %s then\n    %s\n    else\n    %s" % (cv.text, self.val(e0[2], c.copy(), k), self.val(e0[3], c.copy(), k))
        if e0[0] == "struct" and e0[1] == "OutputTypes::File" and [f for f, _ in e0[2]] == ["file"]:
            return self.val(e0[2][0][1], c, lambda v, c2: k(V("(OFile %s)" % v.text, "dest"), c2) if v.kind == "ofile" else self.bad("file of OutputTypes::File"))
        if e0[0] == "call" and e0[1] == ("path", "ChaChaRng::from_seed") and len(e0[2]) == 1:
            return self.val(e0[2][0], c, lambda v, c2: k(self.pe(("call", e0[1], [("path", "__v")]), self.with_local(c2, "__v", v)), c2))
        if e0[0] == "call" and e0[1] == ("path", "Some") and len(e0[2]) == 1:
            return self.val(e0[2][0], c, lambda v, c2: k(self.pe(("call", e0[1], [("path", "__v")]), self.with_local(c2, "__v", v)), c2))
        if e0[0] == "call" and e0[1][0] == "path" and e0[1][1] in FNS and not FNS[e0[1][1]][2]:
            return self.bind(e0, c, "try", k)     # a translated fn that returns a plain value: only Crash can come out
        return k(self.pe(e, c), c)

    def bad(self, msg):
        raise ParseError(msg)

    def with_local(self, c, n, v):
        c2 = c.copy()
        c2.locals[n] = v
        return c2

    def unwrap(self, inner, c, k):
        """inner.expect(..) / inner.unwrap()"""
        site = self.site()
        # option-valued: a local / a clap accessor / X? of an option result
        ov = None
        try:
            ov = self.pe(inner, c)
        except ParseError:
            pass
        if ov is not None and (ov.kind.startswith("opt")):
            return self.opt_unwrap(ov, c, site, k)
        if inner[0] == "try":
            return self.bind(strip_paren(inner[1]), c, "try", lambda v, c2: self.opt_unwrap(v, c2, site, k))
        return self.bind(inner, c, ("crash", site), k)

    def opt_unwrap(self, ov, c, site, k):
        inner_kind = {"optafile": "afile", "optbytes": "bytes", "optkeypair": "keypair", "optN": "N", "optinfor": "infor", "optenccfg": "enccfg"}.get(ov.kind) or OPTELEM.get(ov.kind)
        if inner_kind is None:
            raise ParseError("unwrap of a " + ov.kind)
        g = self.fresh("x")
        vv = V(g, inner_kind, ov.extra if inner_kind == "afile" else None)
        return "match %s with\n    | Some %s =>\n    %s\n    | None => %s\n    end" % (ov.text, g, k(vv, c.copy()), c.exit(c, "Crash %s" % site))

    def map_or_else(self, e0, c, k):
        recv = strip_paren(e0[1])
        a, b = strip_paren(e0[3][0]), strip_paren(e0[3][1])
        if b[0] != "closure" or not re.fullmatch(r"\w+", b[1]):
            raise ParseError("map_or_else closure")
        # Result.map_or_else(|_| panic!(..), |iter| iter.cloned().collect())
        if a[0] == "closure" and strip_paren(a[2])[0] == "macro" and strip_paren(a[2])[1] == "panic":
            if norm(b[2]) != "%s.cloned().collect()" % b[1]:
                raise ParseError("map_or_else Ok closure")
            return self.bind(recv, c, ("crash", self.site()), k)
        ov = self.pe(recv, c)
        if ov.kind != "optbytes":
            raise ParseError("map_or_else on a " + ov.kind)
        g = self.fresh(b[1])
        c1 = c.copy()
        c1.locals[b[1]] = V(g, "bytes")
        none_v = self.pe(a, c)
        return "match %s with\n    | None =>\n    %s\n    | Some %s =>\n    %s\n    end" % (ov.text, k(none_v, c.copy()), g, self.val(b[2], c1, k))

    def match_val(self, e0, c, k):
        """match CALL { Ok(v) => v, Err(error) => { panic!(..) } }   and the get_file form with two diverging arms"""
        arms = [(re.sub(r"\bmut ", "", p), g, strip_paren(b)) for p, g, b in e0[2]]
        if any(g is not None for _, g, _ in arms):
            raise ParseError("guard")
        pats = sorted(p for p, _, _ in arms)
        d = {("Some" if p.startswith("Ok(Some") else "None" if p == "Ok(None)" else "Err" if p.startswith("Err(") else "Ok" if p.startswith("Ok(") else p): (p, b) for p, _, b in arms}
        if len(d) != len(arms):
            raise ParseError("match arms " + str(pats))
        if sorted(d) == ["Err", "Ok"]:
            m = re.fullmatch(r"Ok\((\w+)\)", d["Ok"][0])
            if not m or d["Ok"][1] != ("path", m.group(1)):
                raise ParseError("Ok arm")
            eb = d["Err"][1]
            if not re.fullmatch(r"Err\(\w+\)", d["Err"][0]):
                raise ParseError("Err arm")
            if diverges(eb) and strip_paren(eb[2] if eb[0] == "block" and eb[2] is not None else (eb[1][-1][1] if eb[0] == "block" else eb))[0] == "macro":
                return self.bind(e0[1], c, ("crash", self.site()), k)
            if eb[0] == "block" and diverges(eb):
                return self.bind(e0[1], c, ("other", lambda c2: self.stmts(list(eb[1]), eb[2], c2, None)), k)
            raise ParseError("Err arm does not diverge")
        if sorted(d) == ["Err", "None", "Some"]:
            m = re.fullmatch(r"Ok\(Some\((\w+)\)\)", d["Some"][0])
            if not m or d["Some"][1] != ("path", m.group(1)) or not re.fullmatch(r"Err\(\w+\)", d["Err"][0]):
                raise ParseError("get_file arms")
            for key in ("Err", "None"):
                if not (d[key][1][0] == "block" and diverges(d[key][1])):
                    raise ParseError("get_file arm does not diverge")
            def ok(v, c2):
                if v.kind != "optafile":
                    raise ParseError("three-arm match on a " + v.kind)
                g = self.fresh(m.group(1))
                nb = d["None"][1]
                return "match %s with\n    | Some %s =>\n    %s\n    | None =>\n    %s\n    end" % (
                    v.text, g, k(V(g, "afile", v.extra), c2.copy()), self.stmts(list(nb[1]), nb[2], c2.copy(), None))
            eb = d["Err"][1]
            return self.bind(e0[1], c, ("other", lambda c2: self.stmts(list(eb[1]), eb[2], c2, None)), ok)
        raise ParseError("match arms " + str(pats))

    # ---------------------------------------------------------------- statements
    def stmts(self, items, tail, c, k):
        items = [s for s in items if not is_print(s)]
        if not items:
            if tail is None:
                if k is None:
                    raise ParseError("block without value at an exit")
                return k(c)
            return self.tail(strip_paren(tail), c, k)
        st, rest = items[0], items[1:]
        cont = lambda c2: self.stmts(rest, tail, c2, k)
        if st[0] == "let":
            return self.let(st, c, cont)
        return self.effect(strip_paren(st[1]), c, cont)

    def tail(self, t, c, k):
        if t[0] in ("continue", "return") or (t[0] == "macro" and t[1] in ("panic",) + PRINTS + ("println",)):
            return self.effect(t, c, k)
        if k is not None:
            return self.effect(t, c, k)
        return self.ret(t, c)

    def ret(self, t, c):
        t = strip_paren(t)
        if c.ret is None:
            raise ParseError("value at an exit")
        rk, is_res = c.ret
        if is_res:
            if t[0] == "call" and t[1] == ("path", "Ok") and len(t[2]) == 1:
                a = strip_paren(t[2][0])
                if a == ("unit",):
                    return c.exit(c, "Ok tt") if rk == "unit" else self.bad("Ok(()) in a fn returning " + rk)
                return self.val(a, c, lambda v, c2: c2.exit(c2, "Ok %s" % v.text) if v.kind == rk else self.bad("result of kind %s, expected %s" % (v.kind, rk)))
            if t[0] == "call" and t[1] == ("path", "Err") and len(t[2]) == 1:
                en = {"MlarError::PrivateKeyProvidedButNotUsed": "EKey", "Error::InvalidECCKeyFormat": "EInval"}.get(norm(t[2][0]))
                if en is None:
                    raise ParseError("error value " + norm(t[2][0]))
                return c.exit(c, "Err %s" % en)
            if t[0] in ("mcall", "call"):   # a Result handed on as it is
                return self.bind(t, c, "try", lambda v, c2: c2.exit(c2, "Ok %s" % ("tt" if rk == "unit" else v.text)))
            raise ParseError("result expression " + show(t)[:60])
        return self.val(t, c, lambda v, c2: c2.exit(c2, "Ok %s" % v.text) if v.kind == rk else self.bad("result of kind %s, expected %s" % (v.kind, rk)))

    def let(self, st, c, cont):
        _, pat, ty, e, els = st
        if e is None or els is not None:
            raise ParseError("let form")
        pat = re.sub(r"^mut ", "", pat)
        if not re.fullmatch(r"\w+", pat):
            raise ParseError("let pattern " + pat)
        e0 = strip_paren(e)
        if e0 == ("call", ("path", "Vec::new"), []):
            if pat not in VEC_KINDS:
                raise ParseError("Vec::new for " + pat)
            c.locals[pat] = V("[]", VEC_KINDS[pat])
            return cont(c)
        def k(v, c2):
            kind = v.kind
            if kind == "hkdf?":
                if ty is None or re.sub(r"\s", "", ty) != "Hkdf<Sha512>":
                    raise ParseError("type of the Hkdf")
                kind = "hkdf"
            if kind in OPTELEM and False:
                pass
            if re.fullmatch(r"\w+", v.text) or kind == "unit":
                c2.locals[pat] = V(v.text, kind, v.extra)
                return cont(c2)
            g = self.fresh(pat)
            c2.locals[pat] = V(g, kind, v.extra)
            if kind == "tar":     # Drop of the Builder (finish) at every exit from here on
                old = c2.exit
                def wrapped(cc, r, old=old, pat=pat):
                    c3 = cc.copy()
                    c3.w = "(tar_finish %s %s)" % (cc.locals[pat].text, cc.w)
                    return old(c3, r)
                c2.exit = wrapped
            return "let %s := %s in\n    %s" % (g, v.text, cont(c2))
        return self.val(e, c, k)

    def rebind(self, c, name, text, cont):
        g = self.fresh(name)
        old = c.locals[name]
        c.locals[name] = V(g, old.kind, old.extra)
        return "let %s := %s in\n    %s" % (g, text, cont(c))

    def effect(self, e, c, cont):
        k = e[0]
        if k == "macro":
            if e[1] in PRINTS:
                return cont(c)
            if e[1] == "println" and e[3]:
                g = self.fresh("w")
                txt = "let %s := print_line %s %s in\n    " % (g, c.w, self.fmt(e[3], c, True))
                c.w = g
                return txt + cont(c)
            if e[1] == "panic":
                return c.exit(c, "Crash %s" % self.site())
            if e[1] == "assert" and e[3]:
                cv = self.pe(e[3][0], c)
                if cv.kind != "bool":
                    raise ParseError("assert condition")
                return "if %s then\n    %s\n    else %s" % (cv.text, cont(c.copy()), c.exit(c, "Crash %s" % self.site()))
        if k == "block":
            return self.stmts(list(e[1]), e[2], c, cont)
        if k == "try":
            return self.bind(strip_paren(e[1]), c, "try", lambda v, c2: cont(c2))
        if k == "return":
            if e[1] is None:
                raise ParseError("bare return")
            t = strip_paren(e[1])
            if not (t[0] == "call" and t[1] == ("path", "Err")) and c.loop is not None:
                raise ParseError("return of a value inside a loop")
            if not (t[0] == "call" and t[1] == ("path", "Err")) and getattr(c, "in_region", False):
                raise ParseError("return of a value inside a branch")
            en = {"MlarError::PrivateKeyProvidedButNotUsed": "EKey", "Error::InvalidECCKeyFormat": "EInval"}.get(norm(t[2][0])) if t[0] == "call" and t[1] == ("path", "Err") else None
            if en is not None:
                return c.exit(c, "Err %s" % en)
            return self.ret(t, c)
        if k == "continue":
            if c.loop is None or e[1] is not None:
                raise ParseError("continue")
            return c.loop(c)
        if k == "if":
            return self.if_(e, c, cont)
        if k == "for":
            return self.for_(e, c, cont)
        if k == "match":
            return self.match_stmt(e, c, cont)
        if k == "assign" and e[1] == "=":
            lhs = strip_paren(e[2])
            if lhs[0] != "path" or lhs[1] not in c.locals:
                raise ParseError("assignment target")
            def ka(v, c2):
                if v.kind != c2.locals[lhs[1]].kind:
                    raise ParseError("assignment of a %s to a %s" % (v.kind, c2.locals[lhs[1]].kind))
                return self.rebind(c2, lhs[1], v.text, cont)
            return self.val(e[3], c, ka)
        if k == "mcall" and e[2] in ("expect", "unwrap"):
            return self.unwrap(strip_paren(e[1]), c, lambda v, c2: cont(c2))
        if k == "mcall":
            recv, m, args = strip_paren(e[1]), e[2], e[3]
            t = norm(e)
            mm = re.fullmatch(r"(\w+)\.layers_enabled\.insert\((Layers::\w+)\)", t)
            if mm and mm.group(1) in c.locals and c.locals[mm.group(1)].kind == "rcfg":
                return self.rebind(c, mm.group(1), "rc_insert_layer %s %s" % (c.locals[mm.group(1)].text, mm.group(2).split("::")[1]), cont)
            if recv[0] == "path" and recv[1] in c.locals:
                r = c.locals[recv[1]]
                one = self.val_pure_or_unwrap(args[0], c) if len(args) == 1 else None
                table = {("names", "sort", 0): "sort %s", ("rcfg", "failsafe_return_data_even_unauthenticated", 0): "rc_failsafe_unauthenticated %s",
                         ("tarhdr", "set_cksum", 0): "th_set_cksum %s", ("secret", "zeroize", 0): "secret_zeroize %s"}
                if (r.kind, m, len(args)) in table:
                    return self.rebind(c, recv[1], table[(r.kind, m, 0)] % r.text, cont)
                t1 = {("rcfg", "add_private_keys", "secrets"): "rc_add_private_keys %s %s", ("wcfg", "add_public_keys", "pubkeys"): "wc_add_public_keys %s %s",
                      ("tarhdr", "set_size", "N"): "th_set_size %s %s", ("tarhdr", "set_mode", "N"): "th_set_mode %s %s"}
                if one is not None and (r.kind, m, one.kind) in t1:
                    return self.rebind(c, recv[1], t1[(r.kind, m, one.kind)] % (r.text, one.text), cont)
                if len(args) == 1 and r.kind == "wcfg" and m == "enable_layer":
                    return self.rebind(c, recv[1], "wc_enable_layer %s %s" % (r.text, self.layer(args[0])), cont)
                if one is not None and m == "push" and {"secrets": "secret", "pubkeys": "pubkey", "names": "bytes"}.get(r.kind) == one.kind:
                    return self.rebind(c, recv[1], "%s ++ [%s]" % (r.text, one.text), cont)
                if m == "copy_from_slice" and len(args) == 1 and r.kind == "bytes":
                    a = unref(args[0])
                    if a[0] == "index" and strip_paren(a[2])[0] == "range" and strip_paren(a[2])[1] is not None and strip_paren(a[2])[2] is not None:
                        src, lo, hi = self.pe(a[1], c), self.pe(strip_paren(a[2])[1], c), self.pe(strip_paren(a[2])[2], c)
                        s1, s2, g = self.site(), self.site(), self.fresh("s")
                        c2 = c.copy()
                        body = self.rebind(c2, recv[1], g, cont)
                        return ("match slice %s %s %s %s with\n    | Ok %s =>\n    if (len %s =? len %s) then\n    %s\n    else %s\n    | Err e => %s\n    | Crash x => %s\n    end"
                                % (s1, src.text, lo.text, hi.text, g, r.text, g, body, c.exit(c, "Crash %s" % s2), c.exit(c, "Err e"), c.exit(c, "Crash x")))
        if k == "call" and e[1] == ("path", "drop"):
            return cont(c)
        raise ParseError("statement " + show(e)[:80])

    def carried(self, c, text):
        return [(n, v) for n, v in c.locals.items() if v.kind in MUT and re.search(r"\b%s\b" % re.escape(n), text)]

    def region(self, c, text, gen, cont):
        """a statement with several continuing branches: evaluate it to (state, res unit), then go on"""
        car = self.carried(c, text)
        ci = c.copy()
        ci.loop = None
        ci.in_region = True
        ci.ret = None
        tup = lambda cc: "(%s)" % ", ".join([cc.w] + [cc.locals[n].text for n, _ in car]) if car else cc.w
        ci.exit = lambda cc, r: "(%s, %s)" % (tup(cc), r)
        inner = gen(ci, lambda cc: ci.exit(cc, "Ok tt"))
        c2 = c.copy()
        c2.w = self.fresh("w")
        names = [c2.w]
        for n, v in car:
            g = self.fresh(n)
            c2.locals[n] = V(g, v.kind, v.extra)
            names.append(g)
        t2 = "(%s)" % ", ".join(names) if car else names[0]
        return "match (%s) with\n    | (%s, Ok _) =>\n    %s\n    | (%s, Err e) => %s\n    | (%s, Crash x) => %s\n    end" % (
            inner, t2, cont(c2.copy()), t2, c2.exit(c2, "Err e"), t2, c2.exit(c2, "Crash x"))

    def if_(self, e, c, cont):
        _, cond, th, el = e
        if cond[0] == "letcond":
            pat = re.sub(r"\bmut ", "", cond[1])
            # if let Err(err) = CALL { prints }
            if re.fullmatch(r"Err\(\w+\)", pat) and el is None and only_prints(th):
                return self.bind(strip_paren(cond[2]), c, ("other", lambda c2: cont(c2)), lambda v, c2: cont(c2))
            m = re.fullmatch(r"Some\((\w+)\)", pat)
            if m and el is None:
                ov = self.pe(cond[2], c)
                if ov.kind not in OPTELEM:
                    raise ParseError("if let Some on a " + ov.kind)
                def gen(ci, kend):
                    g = self.fresh(m.group(1))
                    c1 = ci.copy()
                    c1.locals[m.group(1)] = V(g, OPTELEM[ov.kind])
                    return "match %s with\n    | Some %s =>\n    %s\n    | None => %s\n    end" % (ov.text, g, self.stmts(list(th[1]), th[2], c1, kend), kend(ci.copy()))
                return self.region(c, show(th), gen, cont)
            raise ParseError("if let " + pat)
        cv = self.pe(cond, c)
        if cv.kind != "bool":
            raise ParseError("condition " + show(cond)[:60])
        if only_prints(th) and (el is None or only_prints(el)):
            return cont(c)
        if el is None and diverges(th):
            return "if %s then\n    %s\n    else\n    %s" % (cv.text, self.stmts(list(th[1]), th[2], c.copy(), None), cont(c.copy()))
        if cont is None:
            a = self.stmts(list(th[1]), th[2], c.copy(), None)
            b = self.if_(el, c.copy(), None) if el[0] == "if" else self.stmts(list(el[1]), el[2], c.copy(), None)
            return "if %s then\n    %s\n    else\n    %s" % (cv.text, a, b)
        def gen(ci, kend):
            a = self.stmts(list(th[1]), th[2], ci.copy(), kend)
            if el is None:
                b = kend(ci.copy())
            elif el[0] == "if":
                b = self.if_in(el, ci.copy(), kend)
            else:
                b = self.stmts(list(el[1]), el[2], ci.copy(), kend)
            return "if %s then\n    %s\n    else\n    %s" % (cv.text, a, b)
        return self.region(c, show(e), gen, cont)

    def if_in(self, e, ci, kend):
        """else-if chain inside a region"""
        _, cond, th, el = e
        cv = self.pe(cond, ci)
        if cv.kind != "bool":
            raise ParseError("condition")
        a = self.stmts(list(th[1]), th[2], ci.copy(), kend)
        b = kend(ci.copy()) if el is None else self.if_in(el, ci.copy(), kend) if el[0] == "if" else self.stmts(list(el[1]), el[2], ci.copy(), kend)
        return "if %s then\n    %s\n    else\n    %s" % (cv.text, a, b)

    def match_stmt(self, e, c, cont):
        sc = strip_paren(e[1])
        # match status { .. prints only .. }
        if sc[0] == "path" and sc[1] in c.locals and c.locals[sc[1]].kind == "status":
            for p, g, b in e[2]:
                bb = strip_paren(b)
                if g is not None or not (only_prints(bb) or (bb[0] == "block" and not bb[1] and bb[2] is None)):
                    raise ParseError("status arm does something")
            return cont(c)
        if len(e[2]) == 2:
            # match RESULT { Err(_) => <diverges>, Ok(v) => <statement> }
            d = {}
            for p, g, b in e[2]:
                m2 = re.fullmatch(r"(Ok|Err)\((\w+)\)", re.sub(r"\bmut ", "", p))
                if not m2 or g is not None or m2.group(1) in d:
                    raise ParseError("match arm " + p)
                d[m2.group(1)] = (m2.group(2), strip_paren(b))
            if sorted(d) != ["Err", "Ok"] or not diverges(d["Err"][1]):
                raise ParseError("match statement arms")
            def okb(v, c2):
                c2.locals[d["Ok"][0]] = v
                return self.effect(d["Ok"][1], c2, cont)
            return self.bind(sc, c, ("other", lambda c2: self.effect(d["Err"][1], c2, None)), okb)
        # match mla.get_file(..) { Err(err) => {prints} Ok(None) => {prints} Ok(Some(mut f)) => { .. } }
        arms = {}
        for p, g, b in e[2]:
            p = re.sub(r"\bmut ", "", p)
            key = "Err" if re.fullmatch(r"Err\(\w+\)", p) else "None" if p == "Ok(None)" else "Some" if re.fullmatch(r"Ok\(Some\(\w+\)\)", p) else None
            if key is None or key in arms or g is not None:
                raise ParseError("match arm " + p)
            arms[key] = (p, strip_paren(b))
        if sorted(arms) != ["Err", "None", "Some"]:
            raise ParseError("match statement on " + show(sc)[:40])
        var = re.fullmatch(r"Ok\(Some\((\w+)\)\)", arms["Some"][0]).group(1)
        def blk(b, cc, kend):
            if b[0] != "block":
                raise ParseError("arm body")
            return self.stmts(list(b[1]), b[2], cc, kend)
        def gen(ci, kend):
            def ok(v, c2):
                if v.kind != "optafile":
                    raise ParseError("three-arm match on a " + v.kind)
                g = self.fresh(var)
                c1 = c2.copy()
                c1.locals[var] = V(g, "afile", v.extra)
                # the ArchiveFile's own name must be visible to `carried`: it lives only in this arm
                return "match %s with\n    | Some %s =>\n    %s\n    | None =>\n    %s\n    end" % (v.text, g, blk(arms["Some"][1], c1, kend), blk(arms["None"][1], c2.copy(), kend))
            return self.bind(sc, ci, ("other", lambda c2: blk(arms["Err"][1], c2, kend)), ok)
        return self.region(c, show(e), gen, cont)

    def for_(self, e, c, cont):
        _, lab, pat, it, body = e
        pat = re.sub(r"^&", "", pat)
        if lab is not None or not re.fullmatch(r"\w+", pat):
            raise ParseError("for loop head")
        it0 = strip_paren(it)
        if norm(it0) == "io::stdin().lock().lines()":
            return self.for_list(V("stdin_lines", "reslines"), pat, body, c, cont)
        if it0[0] == "try" or (it0[0] == "mcall" and it0[2] in ("expect", "unwrap")):
            return self.val(it0, c, lambda v, c2: self.for_list(v, pat, body, c2, cont))
        return self.for_list(self.pe(it, c), pat, body, c, cont)

    def for_list(self, lst, pat, body, c, cont):
        if lst.kind not in LISTELEM:
            raise ParseError("for over a " + lst.kind)
        ek = LISTELEM[lst.kind]
        text = show(body)
        car = self.carried(c, text)
        consts = [(n, v) for n, v in c.locals.items() if v.kind in KT and v.kind not in MUT and n != pat and re.search(r"\b%s\b" % re.escape(n), text)
                  and not re.fullmatch(r"arg_\w+", v.text)]
        self.nloops += 1
        name = "%s_for%d" % (self.item, self.nloops)
        ci = Ctx()
        ci.locals = {n: V(n, v.kind, v.extra) for n, v in car + consts}
        for n, v in c.locals.items():
            if re.fullmatch(r"arg_\w+", v.text):
                ci.locals[n] = v
        ci.locals[pat] = V(pat, ek)
        ci.w = "w"
        tup = lambda cc: "(%s)" % ", ".join([cc.w] + [cc.locals[n].text for n, _ in car]) if car else cc.w
        args = lambda cc: " ".join([cc.locals[n].text for n, _ in consts] + [cc.locals[n].text for n, _ in car] + [cc.w])
        ci.exit = lambda cc, r: "(%s, %s)" % (tup(cc), r)
        ci.loop = lambda cc: "%s %s rest" % (name, args(cc))
        inner = self.stmts(list(body[1]), body[2], ci, ci.loop)
        ty = " * ".join(["World"] + [KT[v.kind] for _, v in car])
        binders = " ".join(["(%s : %s)" % (n, KT[v.kind]) for n, v in consts + car] + ["(w : World)"])
        ci0 = Ctx()
        ci0.locals, ci0.w = {n: V(n, v.kind) for n, v in car}, "w"
        self.extra.append("Fixpoint %s %s (l : list (%s)) {struct l} : (%s) * res unit :=\n    match l with\n    | [] => (%s, Ok tt)\n    | %s :: rest =>\n    %s\n    end."
                          % (name, binders, KT[ek], ty, tup(ci0), pat, inner))
        c2 = c.copy()
        c2.w = self.fresh("w")
        names2 = [c2.w]
        for n, v in car:
            g = self.fresh(n)
            c2.locals[n] = V(g, v.kind, v.extra)
            names2.append(g)
        t2 = "(%s)" % ", ".join(names2) if car else names2[0]
        return "match %s %s %s with\n    | (%s, Ok _) =>\n    %s\n    | (%s, Err e) => %s\n    | (%s, Crash x) => %s\n    end" % (
            name, args(c), lst.text, t2, cont(c2.copy()), t2, c2.exit(c2, "Err e"), t2, c2.exit(c2, "Crash x"))


# ------------------------------------------------------------------ fixed text

PREAMBLE = r"""
(* ---- trusted vocabulary: the values the command glue handles (concrete) ---- *)
Inductive Layer := ENCRYPT | COMPRESS.
Definition layer_eqb (a b : Layer) : bool := match a, b with ENCRYPT, ENCRYPT | COMPRESS, COMPRESS => true | _, _ => false end.
Definition is_some {A} (o : option A) : bool := match o with Some _ => true | None => false end.
Definition StaticSecret := bytes.
Definition PublicKey := bytes.
(* ArchiveReaderConfig: layers_enabled, the candidate keys, the fail-safe mode switch *)
Record ReaderConfig := mkRC { rc_layers : list Layer; rc_keys : list StaticSecret; rc_unauth : bool }.
Definition rc_new : ReaderConfig := mkRC [] [] false.
Definition rc_contains (c : ReaderConfig) (l : Layer) : bool := existsb (layer_eqb l) (rc_layers c).
Definition rc_insert_layer (c : ReaderConfig) (l : Layer) : ReaderConfig := mkRC (l :: rc_layers c) (rc_keys c) (rc_unauth c).
Definition rc_add_private_keys (c : ReaderConfig) (k : list StaticSecret) : ReaderConfig := mkRC (rc_layers c) (rc_keys c ++ k) (rc_unauth c).
Definition rc_failsafe_unauthenticated (c : ReaderConfig) : ReaderConfig := mkRC (rc_layers c) (rc_keys c) true.
(* ArchiveWriterConfig *)
Record WriterConfig := mkWC { wl_layers : list Layer; wl_pubkeys : list PublicKey; wl_level : option N }.
Definition wc_new : WriterConfig := mkWC [] [] None.
Definition wc_is_enabled (c : WriterConfig) (l : Layer) : bool := existsb (layer_eqb l) (wl_layers c).
Definition wc_enable_layer (c : WriterConfig) (l : Layer) : WriterConfig := mkWC (l :: wl_layers c) (wl_pubkeys c) (wl_level c).
Definition wc_add_public_keys (c : WriterConfig) (k : list PublicKey) : WriterConfig := mkWC (wl_layers c) (wl_pubkeys c ++ k) (wl_level c).
Definition wc_with_compression_level (c : WriterConfig) (q : N) : WriterConfig * res unit :=
  if q <=? 11 then (mkWC (wl_layers c) (wl_pubkeys c) (Some q), Ok tt) else (c, Err EInval).
(* the output side: <output>, <output>.pub (keygen / keyderive) and standard output *)
Inductive OPath := PMain | PPub.
Record World := mkW { w_out : outeff; w_pub : outeff; w_stdout : bytes }.
Definition out_append (o : outeff) (b : bytes) : outeff := match o with OWritten x => OWritten (x ++ b) | OUntouched => OWritten b end.
Definition w_set (p : OPath) (f : outeff -> outeff) (w : World) : World :=
  match p with PMain => mkW (f (w_out w)) (w_pub w) (w_stdout w) | PPub => mkW (w_out w) (f (w_pub w)) (w_stdout w) end.
(* File::create: create / truncate; the handle is the path (a failing creation is not modelled) *)
Definition sys_create (p : OPath) (w : World) : World * res OPath := (w_set p (fun _ => OWritten []) w, Ok p).
Definition file_write_all (p : OPath) (b : bytes) (w : World) : World * res unit := (w_set p (fun o => out_append o b) w, Ok tt).
Definition opath_with_extension (p : OPath) (ext : bytes) : OPath := PPub.
Definition print_line (w : World) (b : bytes) : World := mkW (w_out w) (w_pub w) (w_stdout w ++ b).
Definition read_to_end (f buf : bytes) : bytes * res N := (buf ++ f, Ok (len f)).
Definition zeros_n (n : N) : bytes := repeat 0 (N.to_nat n).
Definition path_is_absolute (n : bytes) : bool := match n with c :: _ => c =? 47 | [] => false end.
Definition secret_to_bytes (s : StaticSecret) : bytes := s.
Definition secret_zeroize (s : StaticSecret) : StaticSecret := repeat 0 (length s).
Definition meta_len (n : N) : N := n.
(* tar::Header as add_file_to_tar fills it *)
Record TarHeader := mkTH { th_size : N; th_mode : N; th_cksum : bool }.
Definition tar_header_new_gnu : TarHeader := mkTH 0 0 false.
Definition th_set_size (h : TarHeader) (n : N) : TarHeader := mkTH n (th_mode h) (th_cksum h).
Definition th_set_mode (h : TarHeader) (n : N) : TarHeader := mkTH (th_size h) n (th_cksum h).
Definition th_set_cksum (h : TarHeader) : TarHeader := mkTH (th_size h) (th_mode h) true.
"""

OUTPUT_TYPES_ENUM = "Stdout,File{file:File},"
OUTPUT_TYPES_WRITE = "matchself{Self::Stdout=>io::stdout().write(buf),Self::File{file}=>file.write(buf),}"

SECTION_HEAD = r"""
Section CmdSrc.
  Variables IPath KPath CPath CFile File Header ArchiveReader ArchiveFile FailSafeReader ArchiveWriter Rng KeyPair Status Pat : Type.
  (* clap: the parsed arguments *)
  Variable arg_input : IPath.
  Variable arg_key_input : KPath.
  Definition arg_output : OPath := PMain.
  Variable output_is_dash : bool.                      (* -o - *)
  Definition opath_is_dash (p : OPath) : bool := match p with PMain => output_is_dash | PPub => false end.
  Variable arg_seed : option bytes.
  Variable arg_compression_level : option N.
  Variables arg_private_keys arg_public_keys : option (list KPath).
  Variables arg_layers arg_files_names arg_path : option (list bytes).
  Variable arg_files_paths : option (list CPath).
  Variables arg_allow_unauthenticated_data arg_glob : bool.
  Variable arg_verbose_count : N.
  (* the input archive *)
  Variable fs_open : IPath -> res File.
  Variable file_rewind : File -> File * res unit.
  Variable header_from : File -> File * res Header.
  Variable hdr_contains : Header -> Layer -> bool.
  Variable reader_from_config : File -> ReaderConfig -> res ArchiveReader.
  Variable failsafe_from_config : File -> ReaderConfig -> res FailSafeReader.
  Variable ar_list_files : ArchiveReader -> ArchiveReader * res (list bytes).
  Variable ar_get_file : ArchiveReader -> bytes -> ArchiveReader * res (option ArchiveFile).
  Variable ar_get_hash : ArchiveReader -> bytes -> ArchiveReader * res (option bytes).
  Variable af_filename : ArchiveFile -> bytes.
  Variable af_size : ArchiveFile -> N.
  Variable af_release : ArchiveFile -> ArchiveReader.     (* the borrow of the reader ends *)
  Variable io_copy : ArchiveFile -> ArchiveFile * bytes * res unit.
  Variable sort : list bytes -> list bytes.
  Variable format_size_decimal : N -> bytes.
  Variable hex_encode : bytes -> bytes.
  Variable glob_new : bytes -> res Pat.
  Variable glob_matches : Pat -> bytes -> bool.
  (* keys *)
  Variable fs_open_key : KPath -> World -> res bytes.
  Variables parse_privkey parse_pubkey : bytes -> res bytes.
  Variable sha512_digest : bytes -> bytes.
  Variable hkdf_sha512 : option bytes -> bytes -> bytes -> N -> bytes.
  Variable rng_from_seed : bytes -> Rng.
  Variable rng_from_os : Rng.
  Variable generate_keypair : Rng -> Rng * res KeyPair.
  Variables kp_public_as_pem kp_private_der : KeyPair -> bytes.
  Definition Hkdf : Type := option bytes * bytes.
  Definition hkdf_sha512_new (salt : option bytes) (ikm : bytes) : Hkdf := (salt, ikm).
  Definition hkdf_expand (h : Hkdf) (info okm : bytes) : bytes * res unit :=
    if len okm <=? 255 * 64 then (hkdf_sha512 (fst h) (snd h) info (len okm), Ok tt) else (okm, Err EInval).
  (* the output archive *)
  Inductive OutputTypes := Stdout | OFile (file : OPath).
  Definition dest_write (d : OutputTypes) (b : bytes) (w : World) : World :=
    match d with Stdout => print_line w b | OFile p => w_set p (fun o => out_append o b) w end.
  Variable writer_from_config : OutputTypes -> WriterConfig -> World -> World * res ArchiveWriter.
  Variable aw_add_archive_file : ArchiveWriter -> bytes -> N -> ArchiveFile -> World -> (World * ArchiveWriter * ArchiveFile) * res unit.
  Variable aw_add_fs_file : ArchiveWriter -> bytes -> N -> CFile -> World -> (World * ArchiveWriter) * res unit.
  Variable aw_finalize : ArchiveWriter -> World -> (World * ArchiveWriter) * res unit.
  Variable fsr_convert_to_archive : FailSafeReader -> ArchiveWriter -> World -> (World * FailSafeReader * ArchiveWriter) * res Status.
  Definition copy_to_dest (f : ArchiveFile) (d : OutputTypes) (w : World) : (World * ArchiveFile) * res N :=
    let '(f1, b, r) := io_copy f in
    ((dest_write d b w, f1), match r with Ok _ => Ok (len b) | Err e => Err e | Crash x => Crash x end).
  (* the tar crate: what append_data writes for (header, path, data, did the copy complete) and whether it returned Ok *)
  Variable tar_entry : TarHeader -> bytes -> bytes -> bool -> bytes * bool.
  Variable tar_trailer : bytes.
  Definition TarBuilder : Type := OutputTypes.
  Definition tar_builder_new (d : OutputTypes) : TarBuilder := d.
  Definition tar_finish (t : TarBuilder) (w : World) : World := dest_write t tar_trailer w.
  Definition tar_dry_run (h : TarHeader) (p : bytes) : res unit := if snd (tar_entry h p [] true) then Ok tt else Err EIo.
  Definition tar_append_data (t : TarBuilder) (h : TarHeader) (p : bytes) (f : ArchiveFile) (w : World)
      : (World * TarBuilder * ArchiveFile) * res unit :=
    let '(f1, d, r) := io_copy f in
    let '(b, ok) := tar_entry h p d (is_ok r) in
    ((dest_write t b w, t, f1), match r with Crash x => Crash x | _ => if ok then Ok tt else Err EIo end).
  (* the files `create` reads *)
  Variable fs_is_dir : CPath -> bool.
  Variable fs_open_file : CPath -> res CFile.
  Variable cfile_metadata : CFile -> res N.
  Variable fs_read_dir : CPath -> res (list (res CPath)).
  Definition dirent_path (p : CPath) : CPath := p.
  Variable cpath_name : CPath -> bytes.
  Variable cpath_is_dash : CPath -> bool.
  Variable stdin_lines : list (res CPath).
  Variable fuel : nat.                                  (* depth bound of the directory walk *)
  (* `info` *)
  Variable arg_verbose : bool.                          (* info -v: a flag *)
  Variables InfoReader EncCfg : Type.
  Variable hdr_format_version : Header -> N.
  Variable hdr_encrypt : Header -> option EncCfg.
  Variable enc_count_keys : EncCfg -> N.
  Variable info_from_config : File -> ReaderConfig -> res InfoReader.
  Variable ir_get_files_size : InfoReader -> res N.
  Variable ir_compressed_size : InfoReader -> option N.
  Variable fmt_dec : N -> bytes.                        (* Display of an unsigned integer *)
  Variable fmt_bool : bool -> bytes.                    (* Display of a bool *)
  Variable fmt_rate : N -> N -> bytes.                  (* format!("{:.2}", a as f64 / b as f64) *)
"""

ITEMS = [
    # name, expected header (whitespace removed), params, result kind, Result?
    ("open_ecc_private_keys", "fnopen_ecc_private_keys(matches:&ArgMatches)->Result<Vec<x25519_dalek::StaticSecret>,Error>", [], "secrets", True),
    ("open_ecc_public_keys", "fnopen_ecc_public_keys(matches:&ArgMatches)->Result<Vec<x25519_dalek::PublicKey>,Error>", [], "pubkeys", True),
    ("config_from_matches", "fnconfig_from_matches(matches:&ArgMatches)->ArchiveWriterConfig", [], "wcfg", False),
    ("destination_from_output_argument", "fndestination_from_output_argument(output_argument:&PathBuf)->Result<OutputTypes,MlarError>",
     [("output_argument", "opath", False)], "dest", True),
    ("writer_from_matches", "fnwriter_from_matches<'a>(matches:&ArgMatches,)->Result<ArchiveWriter<'a,OutputTypes>,MlarError>", [], "aw", True),
    ("readerconfig_from_matches", "fnreaderconfig_from_matches(matches:&ArgMatches)->ArchiveReaderConfig", [], "rcfg", False),
    ("open_mla_file", "fnopen_mla_file<'a>(matches:&ArgMatches)->Result<ArchiveReader<'a,File>,MlarError>", [], "mla", True),
    ("open_failsafe_mla_file", "fnopen_failsafe_mla_file<'a>(matches:&ArgMatches,)->Result<ArchiveFailSafeReader<'a,File>,MlarError>", [], "fsr", True),
    ("add_file_to_tar", "fnadd_file_to_tar<R:Read,W:Write>(tar_file:&mutBuilder<W>,sub_file:ArchiveFile<R>,)->io::Result<()>",
     [("tar_file", "tar", True), ("sub_file", "afile", True)], "unit", True),
    ("add_dir", "fnadd_dir(mla:&mutArchiveWriter<OutputTypes>,dir:&Path)->Result<(),MlarError>", [("mla", "aw", True), ("dir", "cpath", False)], "unit", True),
    ("add_file_or_dir", "fnadd_file_or_dir(mla:&mutArchiveWriter<OutputTypes>,path:&Path)->Result<(),MlarError>",
     [("mla", "aw", True), ("path", "cpath", False)], "unit", True),
    ("add_from_stdin", "fnadd_from_stdin(mla:&mutArchiveWriter<OutputTypes>)->Result<(),MlarError>", [("mla", "aw", True)], "unit", True),
    ("create", "fncreate(matches:&ArgMatches)->Result<(),MlarError>", [], "unit", True),
    ("list", "fnlist(matches:&ArgMatches)->Result<(),MlarError>", [], "unit", True),
    ("cat", "fncat(matches:&ArgMatches)->Result<(),MlarError>", [], "unit", True),
    ("to_tar", "fnto_tar(matches:&ArgMatches)->Result<(),MlarError>", [], "unit", True),
    ("repair", "fnrepair(matches:&ArgMatches)->Result<(),MlarError>", [], "unit", True),
    ("convert", "fnconvert(matches:&ArgMatches)->Result<(),MlarError>", [], "unit", True),
    ("keygen", "fnkeygen(matches:&ArgMatches)->Result<(),MlarError>", [], "unit", True),
    ("apply_derive", "fnapply_derive(path:&str,mutsrc:StaticSecret)->[u8;32]", [("path", "bytes", False), ("src", "secret", False)], "bytes", False),
    ("keyderive", "fnkeyderive(matches:&ArgMatches)->Result<(),MlarError>", [], "unit", True),
    ("info", "fninfo(matches:&ArgMatches)->Result<(),MlarError>", [], "unit", True),
]
RESKIND = {"unit": "unit", "secret": "StaticSecret", "pubkey": "PublicKey"}


def fn_source(src, name):
    """(body text, line, header) of the only `fn name`"""
    ms = list(re.finditer(r"\bfn\s+%s\b" % re.escape(name), src))
    if len(ms) != 1:
        raise ParseError("fn %s: %d definitions" % (name, len(ms)))
    m = ms[0]
    k = src.index("(", m.end())
    depth, j = 0, k
    while True:
        if src[j] == "(":
            depth += 1
        elif src[j] == ")":
            depth -= 1
            if depth == 0:
                break
        j += 1
    i = src.index("{", j)
    e = R.match_brace(src, i)
    return src[i + 1:e], src[:m.start()].count("\n") + 1, src[m.start():i]


def translate_fn(src, name, header, params, rk, is_res):
    body_text, line, hdr = fn_source(src, name)
    if re.sub(r"\s", "", R.strip_comments(hdr)) != header:
        raise ParseError("signature of %s changed: %s" % (name, re.sub(r"\s", "", hdr)))
    body_text = re.sub(r"\b0o([0-7]+)\b", lambda m: str(int(m.group(1), 8)), body_text)
    body = R.parse_body(body_text)
    tr = Tr(name)
    c = Ctx()
    muts = [p for p in params if p[2]]
    for pn, pk, _ in params:
        c.locals[pn] = V(pn, pk, "__caller" if pk == "afile" else None)
    c.ret = (rk, is_res)
    def exit_(cc, r):
        st = "(%s)" % ", ".join([cc.w] + [cc.locals[p[0]].text for p in muts]) if muts else cc.w
        return "(%s, %s)" % (st, r)
    c.exit = exit_
    if name == "add_dir":
        tr.rec = ("add_file_or_dir",)
        FNS["add_file_or_dir"] = ([("mla", "aw", True), ("path", "cpath", False)], "unit", True)
    try:
        g = tr.stmts(list(body[1]), body[2], c, None)
    finally:
        if name == "add_dir":
            FNS.pop("add_file_or_dir", None)
    g = g.replace("(af_release __caller)", "__caller")
    if "__caller" in g:
        raise ParseError("the reader of a by-value ArchiveFile is used")
    sty = " * ".join(["World"] + [KT[p[1]] for p in muts])
    rty = RESKIND.get(rk) or KT[rk]
    binders = " ".join("(%s : %s)" % (pn, KT[pk]) for pn, pk, _ in params)
    sites = "Variable site_%s : N -> N.\n  " % name if tr.nsite else ""
    head = "(* mlar/src/main.rs:%d fn %s *)\n  " % (line, name)
    ty = "(%s) * res %s" % (sty, "(%s)" % rty if " " in rty else rty)
    if name == "add_dir":
        rect = "ArchiveWriter -> CPath -> World -> (World * ArchiveWriter) * res unit"
        text = ("Section AddDir.\n  Variable add_file_or_dir_rec : %s.\n  %s\n  Definition add_dir %s (w : World) : %s :=\n    %s.\n  End AddDir."
                % (rect, "\n  ".join(tr.extra), binders, ty, g))
        FNS[name] = ([("(add_file_or_dir fuel')", "recfn", False)] + params, rk, is_res)
    elif name == "add_file_or_dir":
        text = ("%sFixpoint add_file_or_dir (fuel : nat) %s (w : World) {struct fuel} : %s :=\n    match fuel with\n    | O => ((w, mla), Err EFuel)\n    | S fuel' =>\n    %s\n    end."
                % ("\n  ".join(tr.extra + [""]), binders, ty, g))
        FNS["add_dir"] = ([("add_file_or_dir_rec", "recfn", False)] + FNS["add_dir"][0][1:], "unit", True)
        FNS[name] = ([("fuel", "fuel", False)] + params, rk, is_res)
    else:
        text = "\n  ".join(tr.extra + ["Definition %s %s (w : World) : %s :=\n    %s." % ("list_cmd" if name == "list" else name, binders, ty, g)])
        FNS[name] = (params, rk, is_res)
    return sites + head + text


def item_const(src):
    m = re.search(r"\bconst\s+DERIVE_PATH_SALT\s*:\s*&\[u8;\s*(\d+)\]\s*=\s*b\"([^\"\\]*)\"\s*;", src)
    if not m or int(m.group(1)) != len(m.group(2)):
        raise ParseError("const DERIVE_PATH_SALT")
    return "Definition DERIVE_PATH_SALT : bytes := %s. (* %s *)" % (blit(m.group(2)), m.group(2))


def item_output_types(src):
    m = re.search(r"\benum OutputTypes \{", src)
    if not m:
        raise ParseError("enum OutputTypes")
    j = R.match_brace(src, m.end() - 1)
    if re.sub(r"\s+", "", R.strip_comments(src[m.end():j])) != OUTPUT_TYPES_ENUM:
        raise ParseError("variants of OutputTypes changed")
    r = R.fn_text(src, "write", 0, r"impl Write for OutputTypes \{")
    if r is None or re.sub(r"\s+", "", R.strip_comments(r[0])) != OUTPUT_TYPES_WRITE:
        raise ParseError("OutputTypes::write changed")
    return "Definition OutputTypes_write_checked : unit := tt.   (* enum OutputTypes and its `impl Write` are the known ones: dest_write *)"


def generate():
    FNS.clear()
    out = ["(* GENERATED by tools/src2v3_cmds.py from %s — do not edit. *)" % REPO,
           "From MLA Require Import Base Cli Keys.", "Open Scope N_scope.", PREAMBLE]
    src = read_file("mlar/src/main.rs")
    def emit(name, fn):
        try:
            out.append("  " + fn())
        except Exception as e:   # fail closed, per item
            out.append("  (* %s: %s *)" % (name, str(e).replace("*)", "* )").replace("(*", "( *").replace('"', "'")))
            out.append("  Definition %s_untranslatable : unit := tt." % name)
    emit("DERIVE_PATH_SALT", lambda: item_const(src))
    out.append(SECTION_HEAD)
    emit("OutputTypes", lambda: item_output_types(src))
    for name, header, params, rk, is_res in ITEMS:
        emit(name, lambda: translate_fn(src, name, header, params, rk, is_res))
    out.append("End CmdSrc.")
    return "\n".join(out) + "\n"


def main():
    try:
        text = generate()
    except Exception as e:  # fail closed as a whole
        text = "(* GENERATED: tools/src2v3_cmds.py failed: %s *)\nDefinition src3m_untranslatable : unit := tt.\n" % str(e).replace("*)", "* )")
    outp = os.path.normpath(OUT)
    old = None
    if os.path.exists(outp):
        with open(outp) as f:
            old = f.read()
    if old != text:
        with open(outp, "w") as f:
            f.write(text)
        print("src2v3_cmds: wrote", outp)
    else:
        print("src2v3_cmds: unchanged", outp)


if __name__ == "__main__":
    main()
