#!/usr/bin/env python3
"""Tie A, level 1 for the WRITER side of mla/src/layers/encrypt.rs (work package encW): regenerate coq/gen/Src3w.v.

Translated statement by statement (parser: tools/rustmini.py; continuation-passing over the AST):

  consts  NONCE_SIZE, CHUNK_SIZE / CIPHER_BUF_SIZE (both `cfg(feature = "mla_verif")` flavours)
  struct  EncryptionLayerWriter (the record is generated from the declaration, fields in source order)
  fn      build_nonce
  impl    EncryptionLayerWriter::{new, renew_cipher}, LayerWriter::finalize, Write::{write, flush}
  std     Write::write_all, the default method of std, written ONCE over the translated `write` (see below)

The cipher is the TRANSLATED AesGcm256 of gen/Src3g.v (tools/src2v3_crypto.py): `AesGcm256::new`, `encrypt`,
`into_tag` are calls of Src3g.AesGcm256_new / AesGcm256_encrypt / AesGcm256_into_tag over the same section
variables (E = AES-256 block function, gmul = GF(2^128) product).  theories/SrcTie3EncW.v proves the generated
functions simulated by the model's encryption writer (EncLayer.ew_write / ew_renew / ew_finalize / ew_write_all)
with the cipher parameters ks / tagc DEFINED from Gcm.v at the nonce `prefix || be32(counter)`, for every state in
the representation invariant and every buffer; theories/SrcTie3EncWCarry.v / SrcTie3EncWMasked.v carry the
property theorems of the writer (C01 / C06 / C07 / C03) onto the translated code.

TRUSTED PRIMITIVE TABLE (what the translator maps without looking inside; everything else is translated or refused)
  AesGcm256::new(k, n, aad)?            Src3g.AesGcm256_new E gmul site_index site_len k n aad     (translated, gen/Src3g.v)
  self.cipher.encrypt(&mut v)           Src3g.AesGcm256_encrypt ... (cipher, v) := result           (translated; a panic is Crash)
  c.into_tag()                          Src3g.AesGcm256_into_tag ...                                (translated; a panic is Crash)
  Nonce::default()                      zeros NONCE_AES_SIZE      (`pub type Nonce = [u8; NONCE_AES_SIZE]` is checked in aesgcm.rs)
  d[a..b].copy_from_slice(s)            Src3g.copy_range: Crash site_index unless a <= b <= len d, Crash site_len unless len s = b - a
  n.to_be_bytes()                       be_bytes 4 n for a u32 (be_bytes 8 for a u64): reduces mod 2^32 — the u32 range of
                                        `current_ctr` is enforced where it is incremented (below)
  b""                                   []
  std::mem::replace(&mut self.f, v)     the old value of the field; the field is set to v
  x.inner.write_all(b)? / .flush() / .finalize()
                                        section variables w_write_all / w_flush / w_finalize over an abstract inner writer W:
                                        W -> .. -> W * res unit (the inner writer's state after the call is kept on every exit)
  Vec::with_capacity(n)                 []  (the capacity is evaluated, it has no other effect)
  usize::try_from(x: u64).map_err(..)   x   (64-bit target: never fails)
  BufReader::new(buf).take(n) ; io::copy(&mut that, &mut v)?
                                        v := v ++ takeN n buf   (a slice reader limited to n bytes copied into a Vec: all of the
                                        min(n, len buf) bytes, no error)
  std::cmp::min                         N.min;   buf.len() -> len buf;   `as u64` of a usize / u32 / u64 -> identity
  u32 `+=`                              checked: Crash site_add_u32 when the sum reaches 2^32 (the debug profile's overflow panic;
                                        a release build WRAPS instead — see the report of work package encW)
  u64 / usize `+`, `+=`                 unbounded N (the model's convention: these sums stay <= CHUNK_SIZE under the guards)
  unsigned `-`                          checked: Crash site_sub when it would underflow
  Error::WrongWriterState(..).into()    EState;  io::ErrorKind::InvalidInput -> EInval
  std::io::Write::write_all             (library/std/src/io/mod.rs, default method) `while !buf.is_empty() { match self.write(buf) {
                                        Ok(0) => return Err(WriteZero), Ok(n) => buf = &buf[n..], Err(e) if e.is_interrupted() => {},
                                        Err(e) => return Err(e) } } Ok(())` as a Fixpoint on a fuel over the TRANSLATED write
                                        (`&buf[n..]` checked: Crash site_index; is_interrupted: a section variable)
  Types from the declarations: Key / [u8; NONCE_SIZE] / Nonce / Tag / &[u8] -> bytes (array lengths are premises of the tie
  lemmas: len key = 32, len nonce prefix = 8), u32 / u64 / usize -> N with the width remembered, AesGcm256 -> Src3g.AesGcm256,
  InnerWriterType<'a, W> -> W.  `&EncryptionConfig` enters through the two fields read (config.key, config.nonce).

FAILS CLOSED per item: anything not recognised -> `Definition <name>_untranslatable : unit := tt.`
"""
import os
import re
import sys

sys.path.insert(0, os.path.dirname(os.path.abspath(__file__)))
import rustmini as R  # noqa: E402
from rustmini import ParseError, strip_paren, show  # noqa: E402

REPO = os.environ.get("VERIF_REPO", "/repo")
OUT = os.environ.get("VERIF_SRC3W_OUT") or os.path.join(os.path.dirname(os.path.abspath(__file__)), "..", "coq", "gen", "Src3w.v")
F_ENC = "mla/src/layers/encrypt.rs"
F_GCM = "mla/src/crypto/aesgcm.rs"

ERR_NAMES = {"Error::WrongWriterState": "EState", "Error::WrongReaderState": "EState"}
IOKINDS = {"InvalidInput": "EInval", "InvalidData": "EInval", "UnexpectedEof": "EUnexpectedEof"}
# declared type -> (kind, integer width)
FIELD_TYPES = {"InnerWriterType<'a,W>": ("wstream", None), "AesGcm256": ("gcm", None), "Key": ("bytes", None),
               "[u8;NONCE_SIZE]": ("bytes", None), "u64": ("N", "u64"), "u32": ("N", "u32"), "usize": ("N", "usize")}
COQ_TYPES = {"wstream": "W", "gcm": "AesGcm256", "bytes": "bytes", "N": "N", "bool": "bool", "unit": "unit"}
PARAM_TYPES = {"[u8;NONCE_SIZE]": ("bytes", None), "u32": ("N", "u32"), "u64": ("N", "u64"), "&[u8]": ("bytes", None),
               "&Key": ("bytes", None), "&Nonce": ("bytes", None)}
WIDTH = {"u32": 32, "u64": 64, "usize": 64}


def nows(s):
    return re.sub(r"\s+", "", s)


class V:
    def __init__(self, text, kind="N", ity=None, extra=None):
        self.text, self.kind, self.ity, self.extra = text, kind, ity, extra

    def num(self):
        if self.kind != "N":
            raise ParseError("not a number: %s (%s)" % (self.text, self.kind))
        return self.text


class Ctx:
    def __init__(self):
        self.mode = "res"      # res: the function returns `res T`;  self: `EncryptionLayerWriter * res T`
        self.self = None       # the Gallina name of the current value of *self
        self.locals = {}
        self.wrap_ok = False   # the Rust function returns a plain value (a panic is the only failure)

    def copy(self):
        c = Ctx()
        c.__dict__.update(self.__dict__)
        c.locals = dict(self.locals)
        return c


def unref(e):
    e = strip_paren(e)
    while e[0] == "un" and e[1] in ("&", "&mut", "*"):
        e = strip_paren(e[2])
    return e


def is_self(e):
    return strip_paren(e) == ("path", "self")


def is_self_field(e, name=None):
    e = unref(e)
    return e[0] == "field" and is_self(e[1]) and (name is None or e[2] == name)


def err_of(e):
    e = strip_paren(e)
    if e[0] == "closure":
        b = strip_paren(e[2])
        if b[0] == "block" and not b[1] and b[2] is not None:
            b = b[2]
        return err_of(b)
    if e[0] == "mcall" and e[2] == "into" and not e[3]:
        return err_of(e[1])
    if e[0] == "path" and e[1] in ERR_NAMES:
        return ERR_NAMES[e[1]]
    if e[0] == "call" and e[1][0] == "path" and e[1][1] in ERR_NAMES:
        return ERR_NAMES[e[1][1]]
    if e[0] == "call" and e[1][0] == "path" and e[1][1] in ("io::Error::new", "std::io::Error::new") and len(e[2]) == 2:
        k = strip_paren(e[2][0])
        if k[0] == "path" and k[1].startswith("io::ErrorKind::") and k[1].split("::")[-1] in IOKINDS:
            return IOKINDS[k[1].split("::")[-1]]
    raise ParseError("error value " + show(e)[:60])


class Gen:
    def __init__(self):
        self.n = 0
        self.items = []
        self.failed = []
        self.consts = {}       # name -> integer width
        self.fields = []       # (rust field, accessor, kind, ity) of EncryptionLayerWriter, in source order
        self.methods = {}      # rust method of self -> (coq name, value kind, value ity)
        self.fns = {}          # free functions translated so far: rust name -> (coq name, kind, [param kinds])

    def fresh(self, base):
        self.n += 1
        return "%s%d" % (re.sub(r"\W", "", base) or "v", self.n)

    def fail(self, name, why):
        self.failed.append((name, why))
        self.items.append("(* %s: %s *)\nDefinition %s_untranslatable : unit := tt." % (name, str(why).replace("*)", "* )"), name))

    # ------------------------------------------------------------ exits
    def exit(self, c, what):
        return "(%s, %s)" % (c.self, what) if c.mode == "self" else what

    def field(self, name):
        for f in self.fields:
            if f[0] == name:
                return f
        raise ParseError("field self.%s" % name)

    def set_field(self, c, name, text, k):
        f = self.field(name)
        s1 = self.fresh("self")
        c2 = c.copy()
        c2.self = s1
        return "let %s := set_%s %s %s in\n%s" % (s1, f[1], c.self, text, k(c2))

    def bind_res(self, c, text, k, base="v", kind="N", ity=None):
        """match <res-valued text> with Ok v => k v | failures leave the function"""
        v1 = self.fresh(base)
        return "match %s with\n| Ok %s =>\n%s\n| Err e => %s\n| Crash x => %s\nend" % (
            text, v1, k(V(v1, kind, ity), c), self.exit(c, "Err e"), self.exit(c, "Crash x"))

    def inner_op(self, c, op, args, k, forward=False):
        """a call on self.inner through the section variables; the inner writer's new state is stored on every exit"""
        f = self.field("inner")
        if f[2] != "wstream":
            raise ParseError("self.inner is not the inner writer")
        w1 = self.fresh("w")
        call = "%s (%s %s)%s" % (op, f[1], c.self, "".join(" " + a for a in args))
        if forward:
            return "let '(%s, r) := %s in\n(set_%s %s %s, r)" % (w1, call, f[1], c.self, w1)
        s1 = self.fresh("self")
        c2 = c.copy()
        c2.self = s1
        return ("match %s with\n| (%s, Ok _) =>\nlet %s := set_%s %s %s in\n%s\n| (%s, Err e) => (set_%s %s %s, Err e)\n"
                "| (%s, Crash x) => (set_%s %s %s, Crash x)\nend") % (
            call, w1, s1, f[1], c.self, w1, k(V("tt", "unit"), c2), w1, f[1], c.self, w1, w1, f[1], c.self, w1)

    # ------------------------------------------------------------ expressions (evaluation order: left to right)
    def evs(self, es, c, k, acc=None):
        acc = acc or []
        if not es:
            return k(acc, c)
        return self.ev(es[0], c, lambda v, c1: self.evs(es[1:], c1, k, acc + [v]))

    def ev(self, e, c, k):
        e = strip_paren(e)
        t = e[0]
        if t == "int":
            return k(V(str(e[1])), c)
        if t == "str":
            if e[1] == 'b""':
                return k(V("[]", "bytes"), c)
            raise ParseError("string literal " + e[1][:30])
        if t == "un" and e[1] in ("&", "&mut", "*"):
            return self.ev(e[2], c, k)
        if t == "path":
            if e[1] in c.locals:
                return k(c.locals[e[1]], c)
            if e[1] in self.consts:
                return k(V(e[1], "N", self.consts[e[1]]), c)
            raise ParseError("unknown name " + e[1])
        if t == "field":
            b = strip_paren(e[1])
            if is_self(b) and c.mode == "self":
                f = self.field(e[2])
                if f[2] == "wstream":
                    raise ParseError("the inner writer used as a value")
                return k(V("(%s %s)" % (f[1], c.self), f[2], f[3]), c)
            if b == ("path", "config") and ("config." + e[2]) in c.locals:
                return k(c.locals["config." + e[2]], c)
            raise ParseError("field " + show(e)[:40])
        if t == "cast":
            def kc(v, c1):
                if e[2] in ("u64", "usize") and v.kind == "N" and v.ity in ("u32", "u64", "usize"):
                    return k(V(v.text, "N", e[2]), c1)
                raise ParseError("cast " + show(e)[:50])
            return self.ev(e[1], c, kc)
        if t == "try":
            return self.ev_try(strip_paren(e[1]), c, k)
        if t == "call" and e[1][0] == "path":
            fn, args = e[1][1], e[2]
            if fn in ("std::cmp::min", "cmp::min") and len(args) == 2:
                def km(vs, c1):
                    a, b = vs
                    if a.ity != b.ity and a.ity is not None and b.ity is not None:
                        raise ParseError("min of different widths " + show(e)[:50])
                    return k(V("(N.min %s %s)" % (a.num(), b.num()), "N", a.ity or b.ity), c1)
                return self.evs(args, c, km)
            if fn in self.fns:
                coq, rk, pk = self.fns[fn]
                def kf(vs, c1):
                    if [v.kind for v in vs] != pk:
                        raise ParseError("arguments of " + fn)
                    return self.bind_res(c1, "%s %s" % (coq, " ".join(v.text for v in vs)), k, "n", rk)
                return self.evs(args, c, kf)
            if fn == "Vec::with_capacity" and len(args) == 1:
                return self.ev(args[0], c, lambda v, c1: (v.num(), k(V("[]", "bytes"), c1))[1])
            if fn == "Vec::new" and not args:
                return k(V("[]", "bytes"), c)
            if fn == "Nonce::default" and not args:
                return k(V("(zeros NONCE_AES_SIZE)", "bytes"), c)
            if fn == "BufReader::new" and len(args) == 1:
                def kb(v, c1):
                    if v.kind != "bytes":
                        raise ParseError("BufReader::new of " + v.kind)
                    return k(V(v.text, "reader"), c1)
                return self.ev(args[0], c, kb)
            if fn in ("std::mem::replace", "mem::replace") and len(args) == 2 and is_self_field(args[0]) and c.mode == "self":
                f = self.field(unref(args[0])[2])
                def kr(v, c1):
                    if v.kind != f[2]:
                        raise ParseError("mem::replace of a %s by a %s" % (f[2], v.kind))
                    old = self.fresh("old_" + f[0])
                    return "let %s := %s %s in\n%s" % (old, f[1], c1.self, self.set_field(c1, f[0], v.text, lambda c2: k(V(old, f[2], f[3]), c2)))
                return self.ev(args[1], c, kr)
            if fn in ("u64::from",) and len(args) == 1:
                def ku(v, c1):
                    if v.ity != "u32":
                        raise ParseError("u64::from of a non-u32")
                    return k(V(v.text, "N", "u64"), c1)
                return self.ev(args[0], c, ku)
        if t == "mcall":
            recv, m, args = e[1], e[2], e[3]
            if m == "len" and not args:
                def kl(v, c1):
                    if v.kind != "bytes":
                        raise ParseError("len of " + v.kind)
                    return k(V("(len %s)" % v.text, "N", "usize"), c1)
                return self.ev(recv, c, kl)
            if m == "to_be_bytes" and not args:
                def kt(v, c1):
                    if v.kind != "N" or v.ity not in ("u32", "u64"):
                        raise ParseError("to_be_bytes of %s/%s" % (v.kind, v.ity))
                    return k(V("(be_bytes %d %s)" % (WIDTH[v.ity] // 8, v.text), "bytes"), c1)
                return self.ev(recv, c, kt)
            if m == "take" and len(args) == 1:
                def kk(vs, c1):
                    r, n = vs
                    if r.kind != "reader" or n.ity != "u64":
                        raise ParseError("take " + show(e)[:40])
                    return k(V(r.text, "take", None, n.num()), c1)
                return self.evs([recv, args[0]], c, kk)
            if m == "into_tag" and not args:
                def ki(v, c1):
                    if v.kind != "gcm":
                        raise ParseError("into_tag of " + v.kind)
                    return self.bind_res(c1, "AesGcm256_into_tag E gmul site_index site_len %s" % v.text, k, "tag", "bytes")
                return self.ev(recv, c, ki)
            if is_self(recv) and m in self.methods and c.mode == "self":
                coq, rk, ri = self.methods[m]
                def ks(vs, c1):
                    s1, v1 = self.fresh("self"), self.fresh("r")
                    c2 = c1.copy()
                    c2.self = s1
                    call = "%s %s%s" % (coq, c1.self, "".join(" " + v.text for v in vs))
                    return "match %s with\n| (%s, Ok %s) =>\n%s\n| (%s, Err e) => (%s, Err e)\n| (%s, Crash x) => (%s, Crash x)\nend" % (
                        call, s1, v1, k(V(v1, rk, ri), c2), s1, s1, s1, s1)
                # only under `?` (see ev_try)
                raise ParseError("a Result of self.%s used without `?`" % m)
        if t == "bin":
            op = e[1]
            def kb2(vs, c1):
                a, b = vs
                x, y = a.num(), b.num()
                ity = a.ity or b.ity
                if a.ity is not None and b.ity is not None and a.ity != b.ity:
                    raise ParseError("operands of different widths " + show(e)[:50])
                if op == "-":
                    d = self.fresh("d")
                    return "match csub site_sub %s %s with\n| Ok %s =>\n%s\n| Err e => %s\n| Crash x => %s\nend" % (
                        x, y, d, k(V(d, "N", ity), c1), self.exit(c1, "Err e"), self.exit(c1, "Crash x"))
                if op == "+":
                    if ity == "u32":
                        return "if 2 ^ 32 <=? %s + %s then %s else\n%s" % (x, y, self.exit(c1, "Crash site_add_u32"), k(V("(%s + %s)" % (x, y), "N", ity), c1))
                    return k(V("(%s + %s)" % (x, y), "N", ity), c1)
                tbl = {"==": "(%s =? %s)", "!=": "(negb (%s =? %s))", "<": "(%s <? %s)", "<=": "(%s <=? %s)"}
                if op == ">":
                    return k(V("(%s <? %s)" % (y, x), "bool"), c1)
                if op == ">=":
                    return k(V("(%s <=? %s)" % (y, x), "bool"), c1)
                if op in tbl:
                    return k(V(tbl[op] % (x, y), "bool"), c1)
                raise ParseError("operator " + op)
            return self.evs([e[2], e[3]], c, kb2)
        raise ParseError("expression " + show(e)[:70])

    def ev_try(self, x, c, k):
        """`x?`"""
        if x[0] == "call" and x[1][0] == "path":
            fn, args = x[1][1], x[2]
            if fn == "AesGcm256::new" and len(args) == 3:
                def kn(vs, c1):
                    if [v.kind for v in vs] != ["bytes", "bytes", "bytes"]:
                        raise ParseError("arguments of AesGcm256::new")
                    return self.bind_res(c1, "AesGcm256_new E gmul site_index site_len %s %s %s" % tuple(v.text for v in vs), k, "cipher", "gcm")
                return self.evs(args, c, kn)
            if fn in ("io::copy", "std::io::copy") and len(args) == 2:
                dst = unref(args[1])
                if not (dst[0] == "path" and dst[1] in c.locals and c.locals[dst[1]].kind == "bytes"):
                    raise ParseError("io::copy destination " + show(args[1])[:40])
                def kc(v, c1):
                    if v.kind != "take":
                        raise ParseError("io::copy source " + show(args[0])[:40])
                    old = c1.locals[dst[1]].text
                    piece = "(takeN %s %s)" % (v.extra, v.text)
                    g = self.fresh(dst[1])
                    c2 = c1.copy()
                    c2.locals[dst[1]] = V(g, "bytes")
                    return "let %s := %s in\n%s" % (g, piece if old == "[]" else "(%s ++ %s)" % (old, piece), k(V("(len %s)" % piece, "N", "u64"), c2))
                return self.ev(args[0], c, kc)
        if x[0] == "mcall":
            recv, m, args = x[1], x[2], x[3]
            r0 = strip_paren(recv)
            if m == "map_err" and len(args) == 1 and r0[0] == "call" and r0[1] == ("path", "usize::try_from") and len(r0[2]) == 1:
                err_of(args[0])
                def ku(v, c1):
                    if v.kind != "N" or v.ity not in ("u64", "usize", "u32"):
                        raise ParseError("usize::try_from of %s/%s" % (v.kind, v.ity))
                    return k(V(v.text, "N", "usize"), c1)
                return self.ev(r0[2][0], c, ku)
            if is_self(recv) and m in self.methods and c.mode == "self":
                coq, rk, ri = self.methods[m]
                def ks(vs, c1):
                    s1, v1 = self.fresh("self"), self.fresh("r")
                    c2 = c1.copy()
                    c2.self = s1
                    call = "%s %s%s" % (coq, c1.self, "".join(" " + v.text for v in vs))
                    return "match %s with\n| (%s, Ok %s) =>\n%s\n| (%s, Err e) => (%s, Err e)\n| (%s, Crash x) => (%s, Crash x)\nend" % (
                        call, s1, v1, k(V(v1, rk, ri), c2), s1, s1, s1, s1)
                return self.evs(args, c, ks)
            if is_self_field(recv, "inner") and c.mode == "self":
                if m == "write_all" and len(args) == 1:
                    def kw(v, c1):
                        if v.kind != "bytes":
                            raise ParseError("write_all of " + v.kind)
                        return self.inner_op(c1, "w_write_all", [v.text], k)
                    return self.ev(args[0], c, kw)
                if m in ("flush", "finalize") and not args:
                    return self.inner_op(c, "w_" + m, [], k)
        raise ParseError("`?` on " + show(x)[:60])

    # ------------------------------------------------------------ statements
    def block(self, b, c, k):
        """k(tail expression | None, context) continues after the block"""
        b = strip_paren(b)
        if b[0] != "block":
            raise ParseError("block expected")
        return self.seq(b[1], 0, b[2], c, k)

    def seq(self, stmts, i, tail, c, k):
        if i == len(stmts):
            return k(tail, c)
        s = stmts[i]
        nxt = lambda c1: self.seq(stmts, i + 1, tail, c1, k)  # noqa: E731
        if s[0] == "let":
            pat, ty, init, els = s[1], s[2], s[3], s[4]
            m = re.fullmatch(r"(mut\s+)?(\w+)", pat.strip())
            if not m or init is None or els is not None:
                raise ParseError("let " + pat)
            name = m.group(2)
            def kl(v, c1):
                c2 = c1.copy()
                if re.fullmatch(r"[\w']+", v.text) or v.text == "[]" or v.kind in ("reader", "take"):
                    c2.locals[name] = v
                    return nxt(c2)
                g = self.fresh(name)
                c2.locals[name] = V(g, v.kind, v.ity, v.extra)
                return "let %s := %s in\n%s" % (g, v.text, nxt(c2))
            return self.ev(init, c, kl)
        e = strip_paren(s[1])
        if s[0] == "expr" and e[0] != "if":
            raise ParseError("expression statement " + show(e)[:50])
        if e[0] == "if":
            return self.if_stmt(e, c, nxt)
        if e[0] == "return":
            if e[1] is None:
                raise ParseError("bare return")
            return self.ret(e[1], c)
        if e[0] == "assign":
            op, lhs, rhs = e[1], strip_paren(e[2]), e[3]
            if is_self_field(lhs) and c.mode == "self":
                f = self.field(lhs[2])
                if f[2] != "N":
                    raise ParseError("assignment to self.%s" % f[0])
                if op == "=":
                    return self.ev(rhs, c, lambda v, c1: self.set_field(c1, f[0], v.num(), nxt))
                if op == "+=":
                    def ka(v, c1):
                        if v.ity is not None and v.ity != f[3]:
                            raise ParseError("`+=` of different widths on self.%s" % f[0])
                        cur = "(%s %s)" % (f[1], c1.self)
                        if f[3] == "u32":
                            return "if 2 ^ 32 <=? %s + %s then %s else\n%s" % (
                                cur, v.num(), self.exit(c1, "Crash site_add_u32"), self.set_field(c1, f[0], "(%s + %s)" % (cur, v.num()), nxt))
                        return self.set_field(c1, f[0], "(%s + %s)" % (cur, v.num()), nxt)
                    return self.ev(rhs, c, ka)
            raise ParseError("assignment " + show(e)[:50])
        if e[0] == "try":
            return self.ev_try(strip_paren(e[1]), c, lambda v, c1: nxt(c1))
        if e[0] == "mcall":
            recv, m, args = e[1], e[2], e[3]
            r0 = strip_paren(recv)
            # d[a..b].copy_from_slice(s)
            if m == "copy_from_slice" and len(args) == 1 and r0[0] == "index" and strip_paren(r0[2])[0] == "range":
                d = unref(r0[1])
                rg = strip_paren(r0[2])
                if not (d[0] == "path" and d[1] in c.locals and c.locals[d[1]].kind == "bytes"):
                    raise ParseError("copy_from_slice destination")
                name = d[1]
                dt = c.locals[name].text
                lo = rg[1] if rg[1] is not None else ("int", 0)
                def kc(vs, c1):
                    a, s_ = vs[0], vs[-1]
                    b = vs[1].num() if len(vs) == 3 else "(len %s)" % dt
                    if s_.kind != "bytes":
                        raise ParseError("copy_from_slice source")
                    g = self.fresh(name)
                    c2 = c1.copy()
                    c2.locals[name] = V(g, "bytes")
                    return "match copy_range site_index site_len %s %s %s %s with\n| Ok %s =>\n%s\n| Err e => %s\n| Crash x => %s\nend" % (
                        dt, a.num(), b, s_.text, g, nxt(c2), self.exit(c1, "Err e"), self.exit(c1, "Crash x"))
                return self.evs([lo] + ([rg[2]] if rg[2] is not None else []) + [args[0]], c, kc)
            # self.cipher.encrypt(&mut v)
            if m == "encrypt" and len(args) == 1 and is_self_field(recv, "cipher") and c.mode == "self":
                f = self.field("cipher")
                if f[2] != "gcm":
                    raise ParseError("self.cipher is not an AesGcm256")
                v = unref(args[0])
                if not (v[0] == "path" and v[1] in c.locals and c.locals[v[1]].kind == "bytes"):
                    raise ParseError("encrypt buffer " + show(args[0])[:40])
                c1n, b1 = self.fresh("cipher"), self.fresh(v[1])
                def ke(c2):
                    c3 = c2.copy()
                    c3.locals[v[1]] = V(b1, "bytes")
                    return nxt(c3)
                return "match AesGcm256_encrypt E gmul site_sub site_index site_len (%s %s) %s with\n| Ok (%s, %s) =>\n%s\n| Err e => %s\n| Crash x => %s\nend" % (
                    f[1], c.self, c.locals[v[1]].text, c1n, b1, self.set_field(c, "cipher", c1n, ke), self.exit(c, "Err e"), self.exit(c, "Crash x"))
        raise ParseError("statement " + show(e)[:60])

    def if_stmt(self, e, c, nxt):
        """`if c {..} else if d {..} [else {..}]` as a statement: a branch either leaves the function or falls through to
        what follows (the continuation is repeated in every branch that falls through)"""
        cond = strip_paren(e[1])
        if cond[0] == "letcond":
            raise ParseError("if let")
        def kc(v, c1):
            if v.kind != "bool":
                raise ParseError("condition " + show(cond)[:40])
            def after(tail, c2):
                if tail is not None:
                    raise ParseError("value of a statement-if")
                return nxt(c2)
            th = self.block(e[2], c1.copy(), after)
            if e[3] is None:
                el = nxt(c1.copy())
            elif strip_paren(e[3])[0] == "if":
                el = self.if_stmt(strip_paren(e[3]), c1.copy(), nxt)
            else:
                el = self.block(e[3], c1.copy(), after)
            return "if %s then (\n%s\n) else (\n%s\n)" % (v.text, th, el)
        return self.ev(cond, c, kc)

    # ------------------------------------------------------------ results
    def ret(self, e, c):
        """the value the function returns"""
        e = strip_paren(e)
        if c.wrap_ok:
            return self.ev(e, c, lambda v, c1: self.exit(c1, "Ok %s" % v.text))
        if e[0] == "call" and e[1] == ("path", "Ok") and len(e[2]) == 1:
            a = strip_paren(e[2][0])
            if a == ("unit",) or (a[0] == "tuple" and not a[1]):
                return self.exit(c, "Ok tt")
            if a[0] == "struct" and a[1] in ("Self", "EncryptionLayerWriter"):
                return self.struct_lit(a, c)
            return self.ev(a, c, lambda v, c1: self.exit(c1, "Ok %s" % v.text))
        if e[0] == "call" and e[1] == ("path", "Err") and len(e[2]) == 1:
            return self.exit(c, "Err " + err_of(e[2][0]))
        if e[0] == "mcall":
            recv, m, args = e[1], e[2], e[3]
            r0 = strip_paren(recv)
            if m == "map_err" and len(args) == 1 and r0[0] == "call" and r0[1] == ("path", "usize::try_from") and len(r0[2]) == 1:
                err_of(args[0])
                def ku(v, c1):
                    if v.kind != "N" or v.ity not in ("u64", "usize", "u32"):
                        raise ParseError("usize::try_from of %s/%s" % (v.kind, v.ity))
                    return self.exit(c1, "Ok %s" % v.text)
                return self.ev(r0[2][0], c, ku)
            if is_self_field(recv, "inner") and m in ("flush", "finalize") and not args and c.mode == "self":
                return self.inner_op(c, "w_" + m, [], None, forward=True)
        raise ParseError("returned value " + show(e)[:60])

    def struct_lit(self, a, c):
        """Ok(Self { .. }): the field initialisers run in the order they are written"""
        names = [f for f, _ in a[2]]
        if sorted(names) != sorted(f[0] for f in self.fields):
            raise ParseError("fields of the struct literal")
        vals = {}
        def go(i, c1):
            if i == len(a[2]):
                return self.exit(c1, "Ok (mkELW %s)" % " ".join(vals[f[0]] for f in self.fields))
            fname, fe = a[2][i]
            f = self.field(fname)
            def kf(v, c2):
                want = "wstream" if f[2] == "wstream" else f[2]
                if v.kind != want:
                    raise ParseError("field %s initialised by a %s" % (fname, v.kind))
                vals[fname] = v.text
                return go(i + 1, c2)
            return self.ev(fe, c1, kf)
        return go(0, c)

    # ------------------------------------------------------------ items
    def const_cfg(self, src, name):
        """`#[cfg(feature = "mla_verif")] const X: u64 = a; #[cfg(not(feature = "mla_verif"))] const X: u64 = b;`"""
        m = re.search(r'#\[cfg\(feature = "mla_verif"\)\]\s*const\s+%s\s*:\s*(\w+)\s*=\s*([^;]+);\s*'
                      r'#\[cfg\(not\(feature = "mla_verif"\)\)\]\s*const\s+%s\s*:\s*(\w+)\s*=\s*([^;]+);' % (name, name), src)
        if not m or m.group(1) != m.group(3) or m.group(1) not in WIDTH:
            raise ParseError("const " + name)
        if len(re.findall(r"\bconst\s+%s\b" % name, src)) != 2:
            raise ParseError("declarations of const " + name)
        out = []
        for flav, txt in (("verif", m.group(2)), ("prod", m.group(4))):
            v = self.const_expr(R.parse_expr(txt))
            out.append("Definition %s_%s : N := %s." % (name, flav, v))
        self.consts[name] = m.group(1)
        line = src[:m.start()].count("\n") + 1
        return "(* %s:%d const %s (feature mla_verif / production) *)\n%s" % (F_ENC, line, name, "\n".join(out))

    def const_expr(self, e):
        e = strip_paren(e)
        if e[0] == "int":
            return str(e[1])
        if e[0] == "bin" and e[1] in ("*", "+"):
            return "(%s %s %s)" % (self.const_expr(e[2]), e[1], self.const_expr(e[3]))
        raise ParseError("constant expression " + show(e))

    def const_plain(self, src, name):
        ms = list(re.finditer(r"\bconst\s+%s\s*:\s*(\w+)\s*=\s*([^;]+);" % name, src))
        if len(ms) != 1 or ms[0].group(1) not in WIDTH:
            raise ParseError("const " + name)
        v = self.const_expr(R.parse_expr(ms[0].group(2)))
        self.consts[name] = ms[0].group(1)
        return "(* %s:%d const %s *)\nDefinition %s : N := %s." % (F_ENC, src[:ms[0].start()].count("\n") + 1, name, name, v)

    def struct_decl(self, src):
        m = re.search(r"pub\s+struct\s+EncryptionLayerWriter\s*<'a,\s*W:\s*'a\s*\+\s*InnerWriterTrait>\s*\{", src)
        if not m:
            raise ParseError("struct EncryptionLayerWriter")
        j = R.match_brace(src, m.end() - 1)
        body = R.strip_comments(src[m.end():j])
        fields = []
        parts, depth, cur = [], 0, ""
        for ch in body:
            if ch in "<([":
                depth += 1
            elif ch in ">)]":
                depth -= 1
            if ch == "," and depth == 0:
                parts.append(cur)
                cur = ""
            else:
                cur += ch
        parts.append(cur)
        for part in parts:
            part = part.strip()
            if not part:
                continue
            fm = re.fullmatch(r"(?:pub\s+)?(\w+)\s*:\s*(.+)", part, re.S)
            if not fm or nows(fm.group(2)) not in FIELD_TYPES:
                raise ParseError("field declaration " + part[:40])
            kind, ity = FIELD_TYPES[nows(fm.group(2))]
            fields.append((fm.group(1), "elw_" + fm.group(1), kind, ity))
        if [f[0] for f in fields if f[2] == "wstream"] != ["inner"] or [f[0] for f in fields if f[2] == "gcm"] != ["cipher"]:
            raise ParseError("the inner writer / the cipher of EncryptionLayerWriter")
        self.fields = fields
        line = src[:m.start()].count("\n") + 1
        rec = "(* %s:%d struct EncryptionLayerWriter, fields in source order *)\nRecord EncryptionLayerWriter := mkELW { %s }." % (
            F_ENC, line, "; ".join("%s : %s" % (f[1], COQ_TYPES[f[2]]) for f in fields))
        sets = []
        for f in fields:
            sets.append("Definition set_%s s v := mkELW %s." % (f[1], " ".join("v" if g is f else "(%s s)" % g[1] for g in fields)))
        return rec + "\n" + "\n".join(sets)

    def config_decl(self, src):
        m = re.search(r"pub\s+struct\s+EncryptionConfig\s*\{", src)
        if not m:
            raise ParseError("struct EncryptionConfig")
        body = nows(R.strip_comments(src[m.end():R.match_brace(src, m.end() - 1)]))
        if "key:Key," not in body or "nonce:[u8;NONCE_SIZE]," not in body:
            raise ParseError("fields key / nonce of EncryptionConfig")

    def params(self, header, c, cfg_ok):
        """the parameter list of a fn header -> [(coq name, coq type)]; fills c.locals"""
        i = header.find("(")
        if i < 0:
            raise ParseError("parameter list")
        depth, j = 0, i
        while j < len(header):
            if header[j] == "(":
                depth += 1
            elif header[j] == ")":
                depth -= 1
                if depth == 0:
                    break
            j += 1
        if depth != 0:
            raise ParseError("parameter list")
        ps, depth, cur = [], 0, ""
        for ch in header[i + 1:j]:
            if ch in "<([":
                depth += 1
            elif ch in ">)]":
                depth -= 1
            if ch == "," and depth == 0:
                ps.append(cur)
                cur = ""
            else:
                cur += ch
        if cur.strip():
            ps.append(cur)
        out = []
        for p in ps:
            p = p.strip()
            if nows(p) in ("&mutself", "&self", "self"):
                continue
            pm = re.fullmatch(r"(?:mut\s+)?(\w+)\s*:\s*(.+)", p, re.S)
            if not pm:
                raise ParseError("parameter " + p[:40])
            name, ty = pm.group(1), nows(pm.group(2))
            if ty == "InnerWriterType<'a,W>":
                c.locals[name] = V(name, "wstream")
                out.append((name, "W"))
            elif ty == "&EncryptionConfig":
                if not cfg_ok:
                    raise ParseError("struct EncryptionConfig changed")
                c.locals["config.key"] = V("config_key", "bytes")
                c.locals["config.nonce"] = V("config_nonce", "bytes")
                out += [("config_key", "bytes"), ("config_nonce", "bytes")]
            elif ty in PARAM_TYPES:
                kind, ity = PARAM_TYPES[ty]
                c.locals[name] = V(name, kind, ity)
                out.append((name, COQ_TYPES[kind]))
            else:
                raise ParseError("parameter type " + ty[:40])
        return out

    def function(self, src, rust, coq, within, mode, ret_kind, wrap_ok=False, cfg_ok=True):
        r = R.fn_text(src, rust, 0, within)
        if r is None:
            raise ParseError("fn %s not found" % rust)
        body, line, header = r
        if len(re.findall(r"\bfn\s+%s\b" % rust, src if within is None else src[re.search(within, src).start():R.match_brace(src, src.index("{", re.search(within, src).end() - 1))])) != 1:
            raise ParseError("several fn %s" % rust)
        c = Ctx()
        c.mode, c.wrap_ok = mode, wrap_ok
        ps = self.params(header, c, cfg_ok)
        if mode == "self":
            c.self = "self"
            ps = [("self", "EncryptionLayerWriter")] + ps
        b = R.parse_body(body)
        def kend(tail, c1):
            if tail is None:
                raise ParseError("no value at the end of the body")
            t = strip_paren(tail)
            if t[0] == "if":
                raise ParseError("if as the value of the body")
            return self.ret(t, c1)
        text = self.block(b, c, kend)
        rt = "res %s" % ret_kind if mode == "res" else "EncryptionLayerWriter * res %s" % ret_kind
        return "(* %s:%d fn %s *)\nDefinition %s %s : %s :=\n%s." % (
            F_ENC, line, rust, coq, " ".join("(%s : %s)" % p for p in ps), rt, text)


HEAD = """(* GENERATED by tools/src2v3_encw.py from /repo — do not edit. *)
From MLA Require Import Base Gcm.
From MLAGen Require Import Src3g.
Open Scope N_scope.

"""

SECTION = """Section EncWSrc.
  Variables CHUNK_SIZE CIPHER_BUF_SIZE : N.       (* both flavours: the values above *)
  Variable E : bytes -> bytes -> bytes.           (* AES-256, as in gen/Src3g.v *)
  Variable gmul : N -> N -> N.                    (* the GF(2^128) product, as in gen/Src3g.v *)
  Variable W : Type.                              (* the inner writer (InnerWriterType<'a, W>) *)
  Variable w_write_all : W -> bytes -> W * res unit.      (* inner.write_all(buf) *)
  Variables w_flush w_finalize : W -> W * res unit.       (* inner.flush(), inner.finalize() *)
  Variable is_interrupted : err -> bool.          (* e.kind() == io::ErrorKind::Interrupted (std's write_all) *)
  Variables site_sub site_index site_len site_add_u32 : N.   (* labels of the panic sites *)

"""

WRITE_ALL = """(* std::io::Write::write_all, the default method (not overridden by the layer), over the translated `write`:
   while !buf.is_empty() { match self.write(buf) { Ok(0) => return Err(WriteZero), Ok(n) => buf = &buf[n..],
   Err(ref e) if e.is_interrupted() => {}, Err(e) => return Err(e) } } Ok(()) *)
Fixpoint elw_write_all (fuel : nat) (self : EncryptionLayerWriter) (buf : bytes) {struct fuel} : EncryptionLayerWriter * res unit :=
if len buf =? 0 then (self, Ok tt) else
match fuel with
| O => (self, Err EFuel)
| S fuel' =>
  match elw_write self buf with
  | (self1, Ok n) =>
    if n =? 0 then (self1, Err EIo) else
    if len buf <? n then (self1, Crash site_index) else elw_write_all fuel' self1 (dropN n buf)
  | (self1, Err e) => if is_interrupted e then elw_write_all fuel' self1 buf else (self1, Err e)
  | (self1, Crash x) => (self1, Crash x)
  end
end."""


def indent(text, n=2):
    return "\n".join((" " * n + l) if l else l for l in text.split("\n"))


def main():
    g = Gen()
    try:
        src = open(os.path.join(REPO, F_ENC)).read().split("#[cfg(test)]\nmod tests")[0]
        gsrc = open(os.path.join(REPO, F_GCM)).read().split("#[cfg(test)]")[0]
    except OSError as ex:
        with open(OUT, "w") as f:
            f.write("(* GENERATED: tools/src2v3_encw.py: %s *)\nDefinition src3w_untranslatable : unit := tt.\n" % ex)
        print("src2v3_encw: FAILED", ex)
        return
    pre = []
    for name, how in (("NONCE_SIZE", g.const_plain), ("CHUNK_SIZE", g.const_cfg), ("CIPHER_BUF_SIZE", g.const_cfg)):
        try:
            pre.append(how(src, name))
        except (ParseError, KeyError, IndexError, ValueError) as ex:
            pre.append("(* %s: %s *)\nDefinition %s_untranslatable : unit := tt." % (name, ex, name))
            g.failed.append((name, ex))
            g.consts.setdefault(name, "u64")
    structs_ok, cfg_ok = True, True
    try:
        g.items.append(g.struct_decl(src))
        if not re.search(r"pub\s+type\s+Nonce\s*=\s*\[u8;\s*NONCE_AES_SIZE\]\s*;", gsrc):
            raise ParseError("type Nonce")
        if not re.search(r"pub\s+type\s+Key\s*=\s*\[u8;\s*KEY_SIZE\]\s*;", gsrc):
            raise ParseError("type Key")
        if not re.search(r"pub\s+type\s+Tag\s*=\s*GenericArray<u8,\s*U16>\s*;", gsrc):
            raise ParseError("type Tag")
    except ParseError as ex:
        structs_ok = False
        g.fail("structs", ex)
    try:
        g.config_decl(src)
    except ParseError as ex:
        cfg_ok = False
    I_NEW = r"impl<'a, W: 'a \+ InnerWriterTrait> EncryptionLayerWriter<'a, W> \{"
    I_LW = r"impl<'a, W: 'a \+ InnerWriterTrait> LayerWriter<'a, W> for EncryptionLayerWriter<'a, W> \{"
    I_WR = r"impl<W: InnerWriterTrait> Write for EncryptionLayerWriter<'_, W> \{"
    fns = [
        ("build_nonce", "build_nonce", None, "res", "bytes", True),
        ("new", "EncryptionLayerWriter_new", I_NEW, "res", "EncryptionLayerWriter", False),
        ("renew_cipher", "elw_renew_cipher", I_NEW, "self", "bytes", False),
        ("finalize", "elw_finalize", I_LW, "self", "unit", False),
        ("write", "elw_write", I_WR, "self", "N", False),
        ("flush", "elw_flush", I_WR, "self", "unit", False),
    ]
    for rust, coq, within, mode, rk, wrap in fns:
        try:
            if not structs_ok:
                raise ParseError("struct declarations changed")
            if within is not None and not re.search(within, src):
                raise ParseError("impl header of %s not found" % rust)
            txt = g.function(src, rust, coq, within, mode, rk, wrap, cfg_ok)
            g.items.append(txt)
            if rust == "build_nonce":
                g.fns["build_nonce"] = ("build_nonce", "bytes", ["bytes", "N"])
            if rust == "renew_cipher":
                g.methods["renew_cipher"] = ("elw_renew_cipher", "bytes", None)
            if rust == "write":
                g.items.append(WRITE_ALL)
        except (ParseError, KeyError, IndexError, ValueError, AttributeError, TypeError) as ex:
            g.fail(coq, "%s: %s" % (type(ex).__name__, ex))
    text = HEAD + "\n".join(pre) + "\n\n" + SECTION + "\n".join(indent(x) for x in g.items) + "\nEnd EncWSrc.\n"
    try:
        same = open(OUT).read() == text
    except OSError:
        same = False
    if not same:                      # keep the time stamp when nothing changed (make)
        with open(OUT, "w") as f:
            f.write(text)
    for n, why in g.failed:
        print("src2v3_encw: FAILED CLOSED %s: %s" % (n, why))
    print("src2v3_encw: %s %s (%d items, %d failed closed)" % ("unchanged" if same else "wrote", OUT, len(g.items) + len(pre), len(g.failed)))


if __name__ == "__main__":
    main()
