#!/usr/bin/env python3
"""Regenerate MANIFEST.json from tools/propcfg.py (claimed properties) and properties.jsonl."""
import json, os, sys
V = os.path.normpath(os.path.join(os.path.dirname(os.path.abspath(__file__)), ".."))
sys.path.insert(0, os.path.join(V, "tools"))
from propcfg import PROPS, NOT_APPLICABLE, HOOK_COMMITS
props = [json.loads(l) for l in open(os.path.join(V, "properties.jsonl"))]
m = {
    "version": 1,
    "setup_cmd": "./setup.sh",
    "hooks": {
        "guard": "cargo feature mla_verif of crate mla (cfg(feature = \"mla_verif\"))",
        "enable": "cargo build --features mla/mla_verif (the harness crate forwards its feature `scaled` to mla/mla_verif)",
        "baseline_off_cmd": "/verif/tools/baseline.sh",
        "source_commits": HOOK_COMMITS,
        "add_only": True,
    },
    "engines": [{"name": "coq-model", "path": "coq/", "serves_properties": sorted(PROPS),
                 "kind_free_text": "Gallina model + theorems (Coq 8.16.1), Tie A translators tools/src2v.py, src2v2*.py, src2v3_*.py (parser rustmini.py), Tie B harness/ (Rust) and tools/{cli,keys}/*.py + vm_compute"}],
    "checks": [], "not_applicable": [],
    "notes": "see DESIGN.md; ./check <id> [--tier quick|thorough] [--seed N] [--replay FILE]; known findings in known_findings.json",
}
for p in props:
    pid = p["id"]
    if pid in PROPS:
        c = PROPS[pid]
        m["checks"].append({
            "property_id": pid,
            "quick_cmd": "./check %s --tier quick" % pid,
            "thorough_cmd": "./check %s --tier thorough" % pid,
            "evidence_file": "evidence/%s.json" % pid,
            "replay_cmd_template": "./check %s --replay {path}" % pid,
            "engine": "coq-model",
            "level_claimed": {"category": "proof", "text": c.get("level_text", "theorems about the Gallina model proved for all inputs/histories (Coq kernel); the model is tied to the source by translated kernels and constants (Tie A) and by correspondence with the real code on generated and exhaustive scaled-constant inputs (Tie B)"), "design_ref": "DESIGN.md section 4, " + pid},
            "level_note": c.get("level_note", "trusted: Coq kernel + vm_compute, the translators tools/src2v.py, src2v2*.py, src2v3_*.py and rustmini.py with their primitive tables (Tie A), the Rust harness, job scripts and their oracles (Tie B); the Rust source itself is modelled, not verified"),
            "technique": c.get("technique", "machine-checked proof in Coq + model/implementation correspondence"),
        })
    else:
        m["not_applicable"].append({"property_id": pid, "reason": NOT_APPLICABLE.get(pid, "check under construction; not claimed yet (the technique applies, see DESIGN.md)")})
json.dump(m, open(os.path.join(V, "MANIFEST.json"), "w"), indent=1)
print("manifest: %d checks, %d not claimed" % (len(m["checks"]), len(m["not_applicable"])))
