#!/usr/bin/env python3
"""Tie A, level 1 for the NORMAL READER (work package readerT): regenerate coq/gen/Src3d.v.

Translated statement by statement from /repo (parser: tools/rustmini.py) into Gallina over an
abstract `Stream` (Stream.v: st, rd, sk), exactly as theories/Reader.v / RawLayer.v take it:

  mla/src/lib.rs         BlocksToFileReader::{new, move_to_next_block, read}
                         ArchiveReader::{list_files, get_hash, get_file}
                         ArchiveFooter::{deserialize_from, serialize_into}
  mla/src/layers/raw.rs  RawLayerReader::{new, reset_position, seek, read}

theories/SrcTie3Reader.v proves the generated functions equal to / simulated by the model
(Reader.bread, bmove, get_file, get_hash, list_files, read_footer; RawLayer.rseek, rread, raw_reset)
for ALL streams, buffer sizes and fuels.

Trusted mapping of primitives (the same conventions as the hand-written model):
  x.seek(SeekFrom::Start(e)|End(k)|Current(k))  ->  sk S x (FromStart e | FromEnd k | FromCur k)
  x.stream_position()                           ->  sk S x (FromCur 0)            (std's default)
  x.read(into) / x.take(n).read(into)           ->  rd S x into_len / rd S x (N.min n into_len)
       (the value is the byte string got; as a number it is its length)
  x.read_u32::<LittleEndian>()                  ->  Blocks.rexact S x 4, le_val
  ArchiveFileBlock::from(x)                     ->  Src3b.ArchiveFileBlock_from … S x: the TRANSLATED block parser
                                                    (tools/src2v3_block.py; = Blocks.parse_block by
                                                    SrcTie3Block.block_from_src — no longer a trusted link)
  a - b (usize/u64)                             ->  Crash site_sub when a < b
  v[i]                                          ->  Crash site_index when out of range
  a.checked_sub(b).ok_or(E)? / a.checked_add(b).ok_or_else(E)?   ->  guards (u64: 2^64)
  usize::try_from(u64)                          ->  identity (64-bit targets)
  usize `+= 1`                                  ->  unbounded N (2^64 calls are needed to overflow)
  HashMap<String, FileInfo>                     ->  Blocks.footer: `get` = Blocks.flookup, `keys` = hm_keys
  bincode ….with_limit(L)….deserialize_from(&mut x.take(T))  ->  section variable bincode_deserialize_from L T x
  loop { … continue … return … }                ->  Fixpoint on a fuel (Err EFuel when it runs out)

FAILS CLOSED per item: anything not recognised -> `Definition <name>_untranslatable : unit := tt.`
"""
import os
import re
import sys

sys.path.insert(0, os.path.dirname(os.path.abspath(__file__)))
import rustmini as R  # noqa: E402
from rustmini import ParseError, strip_paren, show  # noqa: E402

REPO = os.environ.get("VERIF_REPO", "/repo")
OUT = os.environ.get("VERIF_SRC3D_OUT") or os.path.join(os.path.dirname(os.path.abspath(__file__)), "..", "coq", "gen", "Src3d.v")

ERR_NAMES = {
    "Error::WrongReaderState": "EState", "Error::WrongWriterState": "EState",
    "Error::DeserializationError": "EDeser", "Error::SerializationError": "EDeser",
    "Error::MissingMetadata": "EMissingMeta",
}
IOKINDS = {"UnexpectedEof": "EUnexpectedEof", "InvalidData": "EInval", "InvalidInput": "EInval"}


def read_file(rel):
    with open(os.path.join(REPO, rel), encoding="utf-8") as f:
        return f.read()


def strip_tests(src):
    i = src.find("#[cfg(test)]\nmod tests")
    if i < 0:
        i = src.find("#[cfg(test)]\npub(crate) mod tests")
    return src if i < 0 else src[:i]


def err_of(e):
    e = strip_paren(e)
    if e[0] == "closure":
        b = strip_paren(e[2])
        if b[0] == "block" and not b[1] and b[2] is not None:
            b = b[2]
        return err_of(b)
    if e[0] == "mcall" and e[2] == "into" and not e[3]:
        return err_of(e[1])
    if e[0] == "path" and e[1] in ERR_NAMES:
        return ERR_NAMES[e[1]]
    if e[0] == "call" and e[1][0] == "path" and e[1][1] in ERR_NAMES:
        return ERR_NAMES[e[1][1]]
    if e[0] == "call" and e[1][0] == "path" and e[1][1] in ("io::Error::new", "std::io::Error::new"):
        k = e[2][0]
        if k[0] == "path":
            kind = k[1].split("::")[-1]
            if kind in IOKINDS:
                return IOKINDS[kind]
    raise ParseError("error value " + show(e)[:60])


def is_call(e, name, nargs=None):
    e = strip_paren(e)
    return e[0] == "call" and e[1][0] == "path" and e[1][1] == name and (nargs is None or len(e[2]) == nargs)


def unref(e):
    e = strip_paren(e)
    while True:
        if e[0] == "un" and e[1] in ("&", "&mut", "*"):
            e = strip_paren(e[2])
        elif e[0] == "mcall" and e[2] == "by_ref" and not e[3]:
            e = strip_paren(e[1])
        else:
            return e


class V:
    """a translated value: Gallina text + kind (N, count, bytes, block, footer, finfo, list, whence, bfr, unit, state, opt…)"""

    def __init__(self, text, kind="N", items=None):
        self.text, self.kind, self.items = text, kind, items

    def num(self):
        if self.kind == "count":
            return "(len %s)" % self.text
        if self.kind in ("N",):
            return self.text
        raise ParseError("not a number: %s (%s)" % (self.text, self.kind))


# ---- the Rust structs mirrored by records: (rust struct, record, constructor, [(field, accessor, kind)])
STRUCTS = {
    "BlocksToFileReader": ("mkBFR", [("src", "bfr_src", "stream"), ("state", "bfr_state", "enum:BlocksToFileReaderState"), ("id", "bfr_id", "N"),
                                     ("current_offset", "bfr_current_offset", "N"), ("offsets", "bfr_offsets", "list")]),
    "ArchiveReader": ("mkAR", [("src", "ar_src", "stream"), ("metadata", "ar_metadata", "optfooter")]),
    "RawLayerReader": ("mkRaw", [("inner", "raw_inner", "stream"), ("offset_pos", "raw_offset_pos", "N")]),
}
FINFO = {"offsets": ("fi_offsets", "list"), "size": ("fi_size", "N"), "eof_offset": ("fi_eof", "N")}
BLOCK_PATS = {"FileStart": ("PStart", ["id", "filename"]), "FileContent": ("PContent", ["id", "length"]),
              "EndOfFile": ("PEof", ["id", "hash"]), "EndOfArchiveData": ("PEnd", [])}
BLOCK_KINDS = {"id": "N", "length": "N", "filename": "bytes", "hash": "bytes"}
WHENCE = {"SeekFrom::Start": ("FromStart", "N"), "SeekFrom::Current": ("FromCur", "Z"), "SeekFrom::End": ("FromEnd", "Z")}


class Ctx:
    def __init__(self):
        self.self = None          # Gallina name of the current self value
        self.struct = None        # rust struct of self
        self.locals = {}          # rust name -> V
        self.in_loop = None       # (coq loop name, [extra arg texts])
        self.ret = "N"            # kind of the Ok payload
        self.state_param = None   # for functions without self: rust name of the stream parameter

    def copy(self):
        c = Ctx()
        c.__dict__.update(self.__dict__)
        c.locals = dict(self.locals)
        return c


class Tr:
    def __init__(self, methods, enums):
        self.n = 0
        self.methods = methods    # rust callee -> (coq name, kind of Ok payload, shape)
        self.enums = enums        # rust enum -> [(variant, nargs)]

    def fresh(self, base):
        self.n += 1
        return "%s%d" % (re.sub(r"\W", "", base) or "v", self.n)

    # ------------------------------------------------------------ state / exits
    def state(self, c):
        if c.self is not None:
            return c.self
        return c.locals[c.state_param].text

    def fail(self, c, what):
        return "(%s, %s)" % (self.state(c), what)

    def stream_place(self, e, c):
        """-> ('field', accessor, setter) | ('param', name) for an expression denoting the stream"""
        e = unref(e)
        if e[0] == "field" and strip_paren(e[1]) == ("path", "self") and c.struct:
            for f, acc, kind in STRUCTS[c.struct][1]:
                if f == e[2] and kind == "stream":
                    return ("field", acc)
        if e[0] == "path" and e[1] in c.locals and c.locals[e[1]].kind == "stream":
            return ("param", e[1])
        return None

    def stream_get(self, place, c):
        return "(%s %s)" % (place[1], c.self) if place[0] == "field" else c.locals[place[1]].text

    def stream_op(self, place, op_text, c, k, vbase="v", vkind="N", okpat=None):
        """match <op on the stream> with (s', Ok v) => [stream := s'] k(v) | failures keep s'"""
        s1 = self.fresh("s")
        v1 = self.fresh(vbase)
        c2 = c.copy()
        if place[0] == "field":
            self1 = self.fresh("self")
            upd = "let %s := set_%s %s %s in\n    " % (self1, place[1], c.self, s1)
            bad = "set_%s %s %s" % (place[1], c.self, s1)
            c2.self = self1
        else:
            upd = ""
            c2.locals[place[1]] = V(s1, "stream")
            bad = s1 if c.self is None else c.self
        body = k(V(v1, vkind), c2)
        return ("match %s with\n    | (%s, Ok %s) =>\n    %s%s\n    | (%s, Err e) => (%s, Err e)\n    | (%s, Crash x) => (%s, Crash x)\n    end"
                % (op_text, s1, v1, upd, body, s1, bad, s1, bad))

    # ------------------------------------------------------------ pure expressions
    def pe(self, e, c):
        """pure expression -> V (no check, no effect)"""
        e = strip_paren(e)
        k = e[0]
        if k == "int":
            return V(str(e[1]))
        if k == "un" and e[1] in ("&", "&mut", "*"):
            return self.pe(e[2], c)
        if k == "un" and e[1] == "!":
            return V("(negb %s)" % self.pe(e[2], c).text, "bool")
        if k == "cast" and e[2] in ("u64", "usize"):
            return V(self.pe(e[1], c).num())
        if k == "call" and e[1][0] == "path" and e[1][1] in ("u64::from",) and len(e[2]) == 1:
            return V(self.pe(e[2][0], c).num())
        if k == "path":
            if e[1] in c.locals:
                return c.locals[e[1]]
            if e[1] == "BINCODE_MAX_DESERIALIZE":
                return V("BINCODE_MAX_DESERIALIZE")
            for en, vs in self.enums.items():
                for vn, na in vs:
                    if e[1] == "%s::%s" % (en, vn) and na == 0:
                        return V(vn, "enum:" + en)
            raise ParseError("unknown name " + e[1])
        if k == "call" and e[1][0] == "path":
            for en, vs in self.enums.items():
                for vn, na in vs:
                    if e[1][1] == "%s::%s" % (en, vn) and na == len(e[2]) == 1:
                        return V("(%s %s)" % (vn, self.pe(e[2][0], c).num()), "enum:" + en)
        if k == "call" and e[1][0] == "path" and e[1][1] in ("std::cmp::min", "cmp::min") and len(e[2]) == 2:
            return V("(N.min %s %s)" % (self.pe(e[2][0], c).num(), self.pe(e[2][1], c).num()))
        if k == "mcall" and e[2] == "len" and not e[3]:
            r0 = unref(e[1])
            if r0[0] == "path" and r0[1] in c.locals and c.locals[r0[1]].kind == "buf":
                return V(c.locals[r0[1]].text)
        if k == "field":
            base = strip_paren(e[1])
            if base == ("path", "self") and c.struct:
                for f, acc, kind in STRUCTS[c.struct][1]:
                    if f == e[2] and kind != "stream":
                        return V("(%s %s)" % (acc, c.self), kind)
            if base[0] == "path" and base[1] in c.locals and c.locals[base[1]].kind == "finfo" and e[2] in FINFO:
                acc, kind = FINFO[e[2]]
                return V("(%s %s)" % (acc, c.locals[base[1]].text), kind)
        if k == "mcall":
            recv, m, args = e[1], e[2], e[3]
            if m == "len" and not args:
                r = self.pe(recv, c)
                if r.kind in ("list", "bytes"):
                    return V("(len %s)" % r.text)
            if m == "is_empty" and not args:
                r = self.pe(recv, c)
                if r.kind in ("list", "bytes"):
                    return V("(vec_is_empty %s)" % r.text, "bool")
            if m == "min" and len(args) == 1:
                return V("(N.min %s %s)" % (self.pe(recv, c).num(), self.pe(args[0], c).num()))
            if m == "keys" and not args:
                r = self.pe(recv, c)
                if r.kind == "footer":
                    return V("(hm_keys %s)" % r.text, "list")
        if k == "bin":
            op = e[1]
            if op in ("&&", "||"):
                return V("(%s %s %s)" % (self.pe(e[2], c).text, op, self.pe(e[3], c).text), "bool")
            a, b = self.pe(e[2], c).num(), self.pe(e[3], c).num()
            tbl = {"+": ("(%s + %s)", "N"), "==": ("(%s =? %s)", "bool"), "!=": ("(negb (%s =? %s))", "bool"),
                   "<": ("(%s <? %s)", "bool"), "<=": ("(%s <=? %s)", "bool")}
            if op == ">":
                return V("(%s <? %s)" % (b, a), "bool")
            if op == ">=":
                return V("(%s <=? %s)" % (b, a), "bool")
            if op in tbl:
                return V(tbl[op][0] % (a, b), tbl[op][1])
        raise ParseError("expression " + show(e)[:70])

    def whence(self, e, c, k):
        e = strip_paren(e)
        if e[0] == "call" and e[1][0] == "path" and e[1][1] in WHENCE and len(e[2]) == 1:
            con, ty = WHENCE[e[1][1]]
            a = strip_paren(e[2][0])
            if ty == "Z":
                if a[0] == "un" and a[1] == "-" and strip_paren(a[2])[0] == "int":
                    return k(V("(%s (-%d)%%Z)" % (con, strip_paren(a[2])[1]), "whence"), c)
                if a[0] == "int":
                    return k(V("(%s %d%%Z)" % (con, a[1]), "whence"), c)
                raise ParseError("seek distance " + show(a))
            return self.val(a, c, lambda v, c2: k(V("(%s %s)" % (con, v.num()), "whence"), c2))
        v = self.pe(e, c)
        if v.kind != "whence":
            raise ParseError("seek argument " + show(e)[:40])
        return k(v, c)

    # ------------------------------------------------------------ values with effects / checks (CPS)
    def val(self, e, c, k):
        e = strip_paren(e)
        kind = e[0]
        if kind == "try":
            return self.try_val(strip_paren(e[1]), c, k)
        if kind == "call" and e[1][0] == "path" and e[1][1] == "u64::from" and len(e[2]) == 1:
            return self.val(e[2][0], c, lambda v, c2: k(V(v.num()), c2))
        if kind == "bin" and e[1] == "-":
            def k1(a, c1):
                def k2(b, c2):
                    return "if %s <? %s then %s else\n    %s" % (
                        a.num(), b.num(), self.fail(c2, "Crash site_sub"), k(V("(%s - %s)" % (a.num(), b.num())), c2))
                return self.val(e[3], c1, k2)
            return self.val(e[2], c, k1)
        if kind == "bin" and e[1] in ("==", "!=", "<", "<=", ">", ">=") and "?" in show(e):
            # a comparison whose operands have effects (`x.stream_position()? != y`): left to right
            def k1(a, c1):
                def k2(b, c2):
                    c3 = c2.copy()
                    c3.locals["__a"], c3.locals["__b"] = a, b
                    return k(self.pe(("bin", e[1], ("path", "__a"), ("path", "__b")), c3), c2)
                return self.val(e[3], c1, k2)
            return self.val(e[2], c, k1)
        if kind == "index":
            def k1(i, c1):
                lst = self.pe(e[1], c1)
                if lst.kind != "list":
                    raise ParseError("index into " + show(e[1]))
                x = self.fresh("x")
                return "match nth_error %s (N.to_nat %s) with\n    | None => %s\n    | Some %s =>\n    %s\n    end" % (
                    lst.text, i.num(), self.fail(c1, "Crash site_index"), x, k(V(x), c1))
            return self.val(e[2], c, k1)
        if kind == "tuple":
            def go(items, acc, c1):
                if not items:
                    return k(V("", "tuple", acc), c1)
                return self.val(items[0], c1, lambda v, c2: go(items[1:], acc + [v], c2))
            return go(list(e[1]), [], c)
        if kind == "match":
            return self.match(e, c, None, k)
        if kind == "block":
            return self.stmts(list(e[1]), e[2], c, None, k)
        if kind == "struct":
            return self.struct_lit(e, c, k)
        return k(self.pe(e, c), c)

    def struct_lit(self, e, c, k):
        name, fields = e[1], dict(e[2])
        if name in ("BlocksToFileReader", "Self") and (name != "Self" or c.struct_self == "RawLayerReader"):
            sname = name if name != "Self" else c.struct_self
            con, fl = STRUCTS[sname]
            if sorted(fields) != sorted(f for f, _, _ in fl):
                raise ParseError("struct literal fields of " + sname)
            def go(items, acc, c1):
                if not items:
                    return k(V("(%s %s)" % (con, " ".join(acc)), "rec:" + sname), c1)
                f, acc_, kd = items[0]
                fe = fields[f]
                if kd == "stream":
                    pl = self.stream_place(fe, c1)
                    if pl is None or pl[0] != "param":
                        raise ParseError("stream field of the literal")
                    return go(items[1:], acc + [c1.locals[pl[1]].text], c1)
                return self.val(fe, c1, lambda v, c2: go(items[1:], acc + [v.text], c2))
            return go(list(fl), [], c)
        if name == "ArchiveFile":
            if [f for f, _ in e[2]] != ["filename", "data", "size"]:
                raise ParseError("ArchiveFile literal")
            vs = [self.pe(fields[f], c) for f in ("filename", "data", "size")]
            return k(V("(%s, %s, %s)" % tuple(v.text for v in vs), "archivefile"), c)
        if name == "Self" and c.struct_self == "ArchiveFooter":
            if list(fields) != ["files_info"]:
                raise ParseError("ArchiveFooter literal")
            return k(self.pe(fields["files_info"], c), c)
        raise ParseError("struct literal " + name)

    def try_val(self, x, c, k):
        """value of `x?`"""
        if x[0] == "mcall":
            recv, m, args = x[1], x[2], x[3]
            place = self.stream_place(recv, c)
            if place is not None:
                if m == "seek" and len(args) == 1:
                    return self.whence(args[0], c, lambda w, c2: self.stream_op(
                        place, "sk S %s %s" % (self.stream_get(place, c2), w.text), c2, k, "pos"))
                if m == "stream_position" and not args:
                    return self.stream_op(place, "sk S %s (FromCur 0%%Z)" % self.stream_get(place, c), c, k, "pos")
                if m == "read" and len(args) == 1:
                    return self.with_buf(args[0], c, lambda n: self.stream_op(
                        place, "rd S %s %s" % (self.stream_get(place, c), n), c, k, "got", "count"))
                if m == "read_u32::<LittleEndian>" and not args:
                    return self.stream_op(place, "rexact S %s 4" % self.stream_get(place, c), c,
                                          lambda v, c2: k(V("(le_val %s)" % v.text), c2), "d", "bytes")
            r0 = unref(recv)
            # <stream>.take(n).read(into)?
            if m == "read" and len(args) == 1 and r0[0] == "mcall" and r0[2] == "take" and len(r0[3]) == 1:
                place = self.stream_place(r0[1], c)
                if place is not None:
                    n = self.buf_len(args[0], c)
                    lim = self.pe(r0[3][0], c).num()
                    return self.stream_op(place, "rd S %s (N.min %s %s)" % (self.stream_get(place, c), lim, n), c, k, "got", "count")
            if m == "ok_or" and len(args) == 1 and strip_paren(recv)[0] == "mcall" and strip_paren(recv)[2] == "checked_sub":
                cs = strip_paren(recv)
                er = err_of(args[0])
                a, b = self.pe(cs[1], c).num(), self.pe(cs[3][0], c).num()
                return "if %s <? %s then %s else\n    %s" % (a, b, self.fail(c, "Err " + er), k(V("(%s - %s)" % (a, b)), c))
            if m == "ok_or_else" and len(args) == 1 and strip_paren(recv)[0] == "mcall" and strip_paren(recv)[2] == "checked_add":
                cs = strip_paren(recv)
                er = err_of(args[0])
                if not self.is_u64(cs[1], c):
                    raise ParseError("checked_add on a non-u64 " + show(cs[1]))
                a, b = self.pe(cs[1], c).num(), self.pe(cs[3][0], c).num()
                return "if 2 ^ 64 <=? %s + %s then %s else\n    %s" % (a, b, self.fail(c, "Err " + er), k(V("(%s + %s)" % (a, b)), c))
            if m == "map_err" and len(args) == 1 and is_call(recv, "usize::try_from", 1):
                return self.val(strip_paren(recv)[2][0], c, lambda v, c2: k(V(v.num()), c2))
            if strip_paren(recv) == ("path", "self") and m in self.methods and self.methods[m][2] == "self":
                coq, rk, _ = self.methods[m]
                avs = [self.pe(a, c).text for a in args]
                self1, v1 = self.fresh("self"), self.fresh("r")
                c2 = c.copy()
                c2.self = self1
                return "match %s %s%s with\n    | (%s, Ok %s) =>\n    %s\n    | (%s, Err e) => (%s, Err e)\n    | (%s, Crash x) => (%s, Crash x)\n    end" % (
                    coq, c.self, "".join(" " + a for a in avs), self1, v1, k(V(v1, rk), c2), self1, self1, self1, self1)
        if x[0] == "call" and x[1][0] == "path":
            fn, args = x[1][1], x[2]
            if fn == "ArchiveFileBlock::from" and len(args) == 1:
                place = self.stream_place(args[0], c)
                if place is None:
                    raise ParseError("ArchiveFileBlock::from argument")
                return self.stream_op(place, "ArchiveFileBlock_from %s" % self.stream_get(place, c), c, k, "blk", "block")
            if fn in self.methods and self.methods[fn][2] == "stream-first" and len(args) >= 1:
                coq, rk, _ = self.methods[fn]
                place = self.stream_place(args[0], c)
                if place is None:
                    raise ParseError("stream argument of " + fn)
                avs = [self.pe(a, c).text for a in args[1:]]
                return self.stream_op(place, "%s %s%s" % (coq, self.stream_get(place, c), "".join(" " + a for a in avs)), c, k, "r", rk)
        raise ParseError("`?` on " + show(x)[:70])

    def is_u64(self, e, c):
        e = strip_paren(e)
        return e[0] == "field" and strip_paren(e[1]) == ("path", "self") and (c.struct, e[2]) in self.u64_fields

    def buf_len(self, e, c):
        e = unref(e)
        if e[0] == "path" and e[1] in c.locals and c.locals[e[1]].kind == "buf":
            return c.locals[e[1]].text
        raise ParseError("read buffer " + show(e))

    def with_buf(self, e, c, k):
        """k(length text) for a read buffer: `into`, or the slice `into[..e]` (panics when e > into.len())"""
        e0 = unref(e)
        if e0[0] == "index" and strip_paren(e0[2])[0] == "range" and strip_paren(e0[2])[1] is None and strip_paren(e0[2])[2] is not None:
            whole = self.buf_len(e0[1], c)
            upto = self.pe(strip_paren(e0[2])[2], c).num()
            return "if %s <? %s then %s else\n    %s" % (whole, upto, self.fail(c, "Crash site_index"), k(upto))
        return k(self.buf_len(e, c))

    # ------------------------------------------------------------ results
    def result(self, e, c):
        """Ok(v) / Err(x) at an exit -> gallina `res` text"""
        e = strip_paren(e)
        if e[0] == "mcall" and e[2] == "into" and not e[3]:
            e = strip_paren(e[1])
        if is_call(e, "Err", 1):
            return "Err %s" % err_of(e[2][0])
        if is_call(e, "Ok", 1):
            a = strip_paren(e[2][0])
            return "Ok %s" % self.payload(a, c)
        raise ParseError("result " + show(e)[:60])

    def payload(self, a, c):
        if a == ("unit",):
            if c.ret != "unit":
                raise ParseError("Ok(()) in a function returning " + c.ret)
            return "tt"
        if c.ret == "count":
            if a == ("int", 0):
                return "[]"
            v = self.pe(a, c)
            if v.kind != "count":
                raise ParseError("read must return the count of the bytes got")
            return v.text
        if a == ("path", "None"):
            return "None"
        if is_call(a, "Some", 1):
            holder = []
            self.val(a[2][0], c, lambda v, c2: holder.append(v.text) or "")
            return "(Some %s)" % holder[0]
        holder = []
        self.val(a, c, lambda v, c2: holder.append(v) or "")
        v = holder[0]
        return v.num() if c.ret == "N" else v.text

    # ------------------------------------------------------------ statements
    def stmts(self, items, tail, c, k, tailk):
        """k(c): what follows the block (statement position); tailk(v, c): receives the block's value"""
        if not items:
            if tail is None:
                if k is None:
                    raise ParseError("block without value")
                return k(c)
            t = strip_paren(tail)
            if tailk is not None:
                if t[0] in ("if", "loop", "return", "continue"):
                    return self.effect(t, c, k, tailk)
                return self.val(t, c, tailk)
            if k is not None and t[0] in ("if", "match"):
                return self.effect(t, c, k, None)
            return self.exit_tail(t, c)
        st, rest = items[0], items[1:]
        cont = lambda c2: self.stmts(rest, tail, c2, k, tailk)
        if st[0] == "let":
            _, pat, ty, e, els = st
            if e is None:
                raise ParseError("let without value")
            pat = re.sub(r"^mut ", "", pat)
            if els is not None:
                return self.let_else(pat, e, els, c, cont)
            return self.val(e, c, lambda v, c2: self.bind(pat, v, c2, cont))
        return self.effect(strip_paren(st[1]), c, cont, None)

    def bind(self, pat, v, c, cont):
        if v.kind == "tuple":
            names = re.fullmatch(r"\((\w+(?:,\w+)*)\)", pat)
            if not names or len(names.group(1).split(",")) != len(v.items):
                raise ParseError("tuple pattern " + pat)
            out = ""
            for nm, item in zip(names.group(1).split(","), v.items):
                out += self.bind_one(nm, item, c)
            return out + cont(c)
        if not re.fullmatch(r"\w+", pat):
            raise ParseError("let pattern " + pat)
        return self.bind_one(pat, v, c) + cont(c)

    def bind_one(self, name, v, c):
        if v.kind in ("count", "stream", "block", "footer", "finfo", "whence") or re.fullmatch(r"\w+", v.text):
            c.locals[name] = v
            return ""
        g = self.fresh(name)
        c.locals[name] = V(g, v.kind)
        return "let %s := %s in\n    " % (g, v.text)

    def let_else(self, pat, e, els, c, cont):
        m = re.fullmatch(r"ArchiveFileBlock::(\w+)\{([\w,.]*)\}", pat)
        if not m or m.group(1) not in BLOCK_PATS:
            raise ParseError("let-else pattern " + pat)
        def k(v, c2):
            if v.kind != "block":
                raise ParseError("let-else on a non-block")
            head, c3 = self.block_pat(m.group(1), m.group(2), c2.copy())
            other = self.stmts(list(els[1]), els[2], c2.copy(), None, None)
            return "match %s with\n    | %s =>\n    %s\n    | _ =>\n    %s\n    end" % (v.text, head, cont(c3), other)
        return self.val(e, c, k)

    def block_pat(self, variant, fields_text, c):
        con, fl = BLOCK_PATS[variant]
        named = [f for f in fields_text.split(",") if f and f != ".."]
        for f in named:
            if f not in fl:
                raise ParseError("field %s of %s" % (f, variant))
        if ".." not in fields_text.split(",") and sorted(named) != sorted(fl) and fl:
            raise ParseError("pattern of %s does not name all fields" % variant)
        args = []
        for f in fl:
            if f in named:
                g = self.fresh(f)
                c.locals[f] = V(g, BLOCK_KINDS[f])
                args.append(g)
            else:
                args.append("_")
        return (con + "".join(" " + a for a in args)), c

    def set_field(self, f, v, c):
        for fn, acc, kind in STRUCTS[c.struct][1]:
            if fn == f and kind != "stream":
                s1 = self.fresh("self")
                t = "let %s := set_%s %s %s in\n    " % (s1, acc, c.self, v)
                c.self = s1
                return t
        raise ParseError("assignment to self." + f)

    def effect(self, e, c, cont, tailk):
        k = e[0]
        if k == "if":
            return self.if_(e, c, cont, tailk)
        if k == "match":
            return self.match(e, c, cont, tailk)
        if k == "return":
            if e[1] is None:
                raise ParseError("bare return")
            return self.exit_tail(strip_paren(e[1]), c)
        if k == "continue":
            if c.in_loop is None or e[1] is not None:
                raise ParseError("continue")
            return "%s fuel' %s%s" % (c.in_loop[0], c.self, "".join(" " + a for a in c.in_loop[1]))
        if k == "assign":
            op, lhs, rhs = e[1], strip_paren(e[2]), e[3]
            if lhs[0] == "field" and strip_paren(lhs[1]) == ("path", "self") and c.struct:
                if op == "=":
                    return self.val(rhs, c, lambda v, c2: self.set_field(lhs[2], v.text if v.kind.startswith("enum") else v.num(), c2) + cont(c2))
                if op == "+=":
                    cur = self.pe(lhs, c).num()
                    return self.val(rhs, c, lambda v, c2: self.set_field(lhs[2], "(%s + %s)" % (cur, v.num()), c2) + cont(c2))
            raise ParseError("assignment " + show(e)[:60])
        if k == "try":
            return self.try_val(strip_paren(e[1]), c, lambda v, c2: cont(c2))
        raise ParseError("statement " + show(e)[:70])

    def exit_tail(self, t, c):
        """an expression ending the function"""
        t = strip_paren(t)
        if t[0] == "loop":
            raise ParseError("nested loop")
        if t[0] in ("if", "match", "return", "continue"):
            return self.effect(t, c, None, None)
        if t[0] == "block":
            return self.stmts(list(t[1]), t[2], c, None, None)
        if t[0] == "mcall" and t[2] != "into":
            # a tail call returning the callee's result: <stream>.read(into)
            place = self.stream_place(t[1], c)
            if place is not None and place[0] == "field" and t[2] == "read" and len(t[3]) == 1 and c.ret == "count":
                s1 = self.fresh("s")
                return "let '(%s, r) := rd S %s %s in (set_%s %s %s, r)" % (
                    s1, self.stream_get(place, c), self.buf_len(t[3][0], c), place[1], c.self, s1)
        # Ok(..) whose payload needs effects: only pure payloads are accepted by `result`
        if is_call(t, "Ok", 1):
            a = strip_paren(t[2][0])
            if is_call(a, "Some", 1) or a[0] == "struct":
                inner = a[2][0] if is_call(a, "Some", 1) else a
                wrap = "(Some %s)" if is_call(a, "Some", 1) else "%s"
                return self.val(inner, c, lambda v, c2: self.fail(c2, "Ok " + wrap % v.text))
        return self.fail(c, self.result(t, c))

    def if_(self, e, c, cont, tailk):
        _, cond, th, el = e
        if cond[0] == "letcond":
            m = re.fullmatch(r"Some\(ArchiveFooter\{files_info(?:,\.\.)?\}\)", cond[1])
            sv = self.pe(cond[2], c)
            if not m or sv.kind != "optfooter" or el is None or el[0] == "if":
                raise ParseError("if let " + cond[1])
            g = self.fresh("files_info")
            c1, c2 = c.copy(), c.copy()
            c1.locals["files_info"] = V(g, "footer")
            a = self.stmts(list(th[1]), th[2], c1, cont, tailk)
            b = self.stmts(list(el[1]), el[2], c2, cont, tailk)
            return "match %s with\n    | Some %s =>\n    %s\n    | None =>\n    %s\n    end" % (sv.text, g, a, b)
        def on_cond(cv, c0):
            if cv.kind != "bool":
                raise ParseError("condition " + show(cond))
            c1, c2 = c0.copy(), c0.copy()
            a = self.stmts(list(th[1]), th[2], c1, cont, tailk)
            if el is None:
                if cont is None:
                    raise ParseError("if without else at an exit")
                b = cont(c2)
            elif el[0] == "if":
                b = self.if_(el, c2, cont, tailk)
            else:
                b = self.stmts(list(el[1]), el[2], c2, cont, tailk)
            return "if %s then\n    %s\n    else\n    %s" % (cv.text, a, b)
        return self.val(cond, c, on_cond)

    def arm(self, body, c, cont, tailk):
        body = strip_paren(body)
        if body[0] == "block":
            return self.stmts(list(body[1]), body[2], c, cont, tailk)
        if body[0] in ("return", "continue", "if", "match"):
            return self.effect(body, c, cont, tailk)
        if tailk is not None:
            return self.val(body, c, tailk)
        if cont is not None and body == ("unit",):
            return cont(c)
        return self.exit_tail(body, c)

    def match(self, e, c, cont, tailk):
        scrut = strip_paren(e[1])
        arms = e[2]
        for pat, guard, body in arms:
            if guard is not None:
                raise ParseError("match guard")
        # Option-valued lookups
        u = unref(scrut)
        if u[0] == "mcall" and u[2] == "get" and len(u[3]) == 1:
            m = self.pe(u[1], c)
            if m.kind != "footer":
                raise ParseError("get on " + show(u[1]))
            key = self.pe(u[3][0], c)
            out, seen = [], []
            for pat, _, body in arms:
                c2 = c.copy()
                mm = re.fullmatch(r"Some\((\w+)\)", pat)
                if pat == "None":
                    out.append("| None =>\n    %s" % self.arm(body, c2, cont, tailk))
                    seen.append("N")
                elif mm:
                    g = self.fresh(mm.group(1))
                    c2.locals[mm.group(1)] = V(g, "finfo")
                    out.append("| Some %s =>\n    %s" % (g, self.arm(body, c2, cont, tailk)))
                    seen.append("S")
                else:
                    raise ParseError("option pattern " + pat)
            if sorted(seen) != ["N", "S"]:
                raise ParseError("option match not exhaustive")
            return "match flookup %s %s with\n    %s\n    end" % (m.text, key.text, "\n    ".join(out))
        # bincode ... deserialize_from(&mut <stream>.take(T))
        if u[0] == "mcall" and u[2] == "deserialize_from" and show(u).startswith("bincode::options()"):
            chain, x = [], u
            while x[0] == "mcall":
                chain.append((x[2], x[3]))
                x = strip_paren(x[1])
            chain.reverse()
            if show(x) != "bincode::options()" or [n for n, _ in chain] != ["with_limit", "with_fixint_encoding", "deserialize_from"]:
                raise ParseError("bincode chain " + show(u)[:60])
            lim = self.pe(chain[0][1][0], c).num()
            src = unref(chain[2][1][0])
            if not (src[0] == "mcall" and src[2] == "take" and len(src[3]) == 1):
                raise ParseError("bincode source is not a take(..)")
            place = self.stream_place(src[1], c)
            if place is None or place[0] != "param":
                raise ParseError("bincode source")
            tk = self.pe(src[3][0], c).num()
            pats = [p for p, _, _ in arms]
            mm = re.fullmatch(r"Ok\((\w+)\)", pats[0]) if pats else None
            if len(arms) != 2 or not mm or pats[1] not in ("_", "Err(_)"):
                raise ParseError("arms of the bincode result")
            s1, g = self.fresh("s"), self.fresh(mm.group(1))
            c1, c2 = c.copy(), c.copy()
            c1.locals[place[1]] = V(s1, "stream")
            c2.locals[place[1]] = V(s1, "stream")
            c1.locals[mm.group(1)] = V(g, "footer")
            return ("match bincode_deserialize_from %s %s %s with\n    | (%s, Ok %s) =>\n    %s\n    | (%s, Err _) =>\n    %s\n    | (%s, Crash x) => (%s, Crash x)\n    end"
                    % (lim, tk, c.locals[place[1]].text, s1, g, self.arm(arms[0][2], c1, cont, tailk), s1,
                       self.arm(arms[1][2], c2, cont, tailk), s1, s1))
        # values: enum of self / a parsed block / a SeekFrom
        def on_value(v, c0):
            out = []
            if v.kind.startswith("enum:"):
                en = v.kind[5:]
                seen = []
                for pat, _, body in arms:
                    c2 = c0.copy()
                    mm = re.fullmatch(r"%s::(\w+)(?:\((\w+)\))?" % en, pat)
                    if pat == "_":
                        out.append("| _ =>\n    %s" % self.arm(body, c2, cont, tailk))
                        seen = [vn for vn, _ in self.enums[en]]
                        continue
                    if not mm or (mm.group(1), 1 if mm.group(2) else 0) not in self.enums[en]:
                        raise ParseError("pattern %s of %s" % (pat, en))
                    seen.append(mm.group(1))
                    head = mm.group(1)
                    if mm.group(2):
                        g = self.fresh(mm.group(2))
                        c2.locals[mm.group(2)] = V(g, "N")
                        head += " " + g
                    out.append("| %s =>\n    %s" % (head, self.arm(body, c2, cont, tailk)))
                if sorted(seen) != sorted(vn for vn, _ in self.enums[en]):
                    raise ParseError("match on %s not exhaustive" % en)
            elif v.kind == "block":
                seen = []
                for pat, _, body in arms:
                    c2 = c0.copy()
                    if pat == "_":
                        out.append("| _ =>\n    %s" % self.arm(body, c2, cont, tailk))
                        seen = list(BLOCK_PATS)
                        continue
                    mm = re.fullmatch(r"ArchiveFileBlock::(\w+)(?:\{([\w,.]*)\})?", pat)
                    if not mm or mm.group(1) not in BLOCK_PATS:
                        raise ParseError("block pattern " + pat)
                    head, c2 = self.block_pat(mm.group(1), mm.group(2) or "", c2)
                    seen.append(mm.group(1))
                    out.append("| %s =>\n    %s" % (head, self.arm(body, c2, cont, tailk)))
                if sorted(seen) != sorted(BLOCK_PATS):
                    raise ParseError("match on the block not exhaustive")
            elif v.kind == "whence":
                seen = []
                for pat, _, body in arms:
                    c2 = c0.copy()
                    mm = re.fullmatch(r"(SeekFrom::\w+)\((\w+)\)", pat)
                    if not mm or mm.group(1) not in WHENCE:
                        raise ParseError("SeekFrom pattern " + pat)
                    con, ty = WHENCE[mm.group(1)]
                    g = self.fresh(mm.group(2))
                    c2.locals[mm.group(2)] = V(g, ty)
                    seen.append(con)
                    out.append("| %s %s =>\n    %s" % (con, g, self.arm(body, c2, cont, tailk)))
                if sorted(seen) != sorted(x[0] for x in WHENCE.values()):
                    raise ParseError("match on SeekFrom not exhaustive")
            else:
                raise ParseError("match on a value of kind " + v.kind)
            return "match %s with\n    %s\n    end" % (v.text, "\n    ".join(out))
        return self.val(scrut, c, on_value)


# ------------------------------------------------------------------ source facts checked before translating

def struct_fields(src, name):
    m = re.search(r"struct\s+%s\b[^{;]*\{" % name, src)
    if not m:
        raise ParseError("struct " + name)
    j = R.match_brace(src, m.end() - 1)
    body = R.strip_comments(src[m.end():j])
    body = re.sub(r"#\[[^\]]*\]", "", body)
    out, depth, cur = [], 0, ""
    for ch in body + ",":
        if ch in "<([{":
            depth += 1
        elif ch in ">)]}":
            depth -= 1
        if ch == "," and depth == 0:
            part = cur.strip()
            cur = ""
            if part:
                mm = re.fullmatch(r"(?:pub(?:\([^)]*\))?\s+)?(\w+)\s*:\s*(.+)", part, re.S)
                if not mm:
                    raise ParseError("field of %s: %s" % (name, part[:30]))
                out.append((mm.group(1), re.sub(r"\s+", "", mm.group(2))))
        else:
            cur += ch
    return out


def enum_variants(src, name):
    m = re.search(r"enum\s+%s\s*\{" % name, src)
    if not m:
        raise ParseError("enum " + name)
    j = R.match_brace(src, m.end() - 1)
    return re.sub(r"\s+", "", R.strip_comments(src[m.end():j]))


def fn_params(header):
    i = header.index("(")
    depth, j = 0, i
    while True:
        if header[j] == "(":
            depth += 1
        elif header[j] == ")":
            depth -= 1
            if depth == 0:
                break
        j += 1
    ps, depth, cur = [], 0, ""
    for ch in header[i + 1:j]:
        if ch in "<([":
            depth += 1
        elif ch in ">)]":
            depth -= 1
        if ch == "," and depth == 0:
            ps.append(cur)
            cur = ""
        else:
            cur += ch
    if cur.strip():
        ps.append(cur)
    out = []
    for p in ps:
        p = re.sub(r"\s+", " ", p.strip())
        if re.fullmatch(r"&?\s*(mut )?self", p) or p == "&mut self":
            out.append(("self", p))
        else:
            nm, ty = p.split(":", 1)
            out.append((re.sub(r"^mut ", "", nm.strip()), re.sub(r"\s+", "", ty)))
    return out


PREAMBLE = r"""
(* ---- mirrors of the Rust data ---- *)
Definition BINCODE_MAX_DESERIALIZE : N := %(bincode_max)s.     (* mla/src/lib.rs:%(bincode_line)d *)
Inductive BlocksToFileReaderState := %(bstate)s.   (* enum BlocksToFileReaderState, in source order *)
Definition vec_is_empty {A} (l : list A) : bool := match l with [] => true | _ => false end.
(* HashMap<String, FileInfo> as deserialised: `get` is Blocks.flookup (a later duplicate key replaces an
   earlier one); `keys`: every key once *)
Fixpoint hm_keys_aux (m : footer) (seen : list bytes) : list bytes :=
  match m with
  | [] => []
  | (k, _) :: r => if existsb (bytes_eqb k) seen then hm_keys_aux r seen else k :: hm_keys_aux r (k :: seen)
  end.
Definition hm_keys (m : footer) : list bytes := hm_keys_aux m [].

Section ReaderSrc.
  Variable S : Stream.
  Variables FNMAX T_START T_CONTENT T_EOA T_EOF : N.
  (* ArchiveFileBlock::from: the TRANSLATED block parser of gen/Src3b.v (tools/src2v3_block.py; equal to
     Blocks.parse_block by SrcTie3Block.block_from_src).  636 labels the arm "read_exact(1) holds another
     number of bytes", which is never taken (SrcTie3Block.block_from_site_irrelevant) *)
  Notation ArchiveFileBlock_from := (Src3b.ArchiveFileBlock_from S FNMAX T_START T_CONTENT T_EOA T_EOF 636).
  (* labels of the panic sites (a convention of the model, not a fact of the source) *)
  Variables site_index site_sub : N.
  (* bincode::options().with_limit(limit).with_fixint_encoding().deserialize_from(&mut src.take(n)) *)
  Variable bincode_deserialize_from : N -> N -> st S -> st S * res footer.

  Record BlocksToFileReader := mkBFR {
    bfr_src : st S; bfr_state : BlocksToFileReaderState; bfr_id : N; bfr_current_offset : N; bfr_offsets : list N }.
  Definition set_bfr_src s v := mkBFR v (bfr_state s) (bfr_id s) (bfr_current_offset s) (bfr_offsets s).
  Definition set_bfr_state s v := mkBFR (bfr_src s) v (bfr_id s) (bfr_current_offset s) (bfr_offsets s).
  Definition set_bfr_current_offset s v := mkBFR (bfr_src s) (bfr_state s) (bfr_id s) v (bfr_offsets s).
  Record ArchiveReader := mkAR { ar_src : st S; ar_metadata : option footer }.   (* `config` is not used by these methods *)
  Definition set_ar_src s v := mkAR v (ar_metadata s).
  Record RawLayerReader := mkRaw { raw_inner : st S; raw_offset_pos : N }.
  Definition set_raw_inner s v := mkRaw v (raw_offset_pos s).
  Definition set_raw_offset_pos s v := mkRaw (raw_inner s) v.
"""


def data_checks(lib, raw):
    want = {
        "BlocksToFileReader": [("src", "&'amutR"), ("state", "BlocksToFileReaderState"), ("id", "ArchiveFileID"),
                               ("current_offset", "usize"), ("offsets", "&'a[u64]")],
        "ArchiveReader": [("config", "ArchiveReaderConfig"), ("src", "Box<dyn'a+LayerReader<'a,R>>"), ("metadata", "Option<ArchiveFooter>")],
        "ArchiveFooter": [("files_info", "HashMap<String,FileInfo>")],
        "FileInfo": [("offsets", "Vec<u64>"), ("size", "u64"), ("eof_offset", "u64")],
        "ArchiveFile": [("filename", "String"), ("data", "T"), ("size", "u64")],
    }
    for nm, fl in want.items():
        got = struct_fields(lib, nm)
        if got != fl:
            raise ParseError("struct %s changed: %s" % (nm, got))
    got = struct_fields(raw, "RawLayerReader")
    if got != [("inner", "R"), ("offset_pos", "u64")]:
        raise ParseError("struct RawLayerReader changed: %s" % got)
    en = enum_variants(lib, "BlocksToFileReaderState")
    if en != "InFile(usize),Ready,Finish,":
        raise ParseError("enum BlocksToFileReaderState changed: " + en)
    if not re.search(r"pub type ArchiveFileID = u64;", lib):
        raise ParseError("ArchiveFileID")
    m = re.search(r"const BINCODE_MAX_DESERIALIZE: u64 = ([0-9 *_]+);", lib)
    if not m:
        raise ParseError("BINCODE_MAX_DESERIALIZE")
    return m.group(1).strip().replace("_", ""), lib[:m.start()].count("\n") + 1


# (coq name, file key, rust fn, impl header regex, struct of self, {param: (coq binder, kind)}, Ok kind, coq Ok type, call shape)
ITEMS = [
    ("BlocksToFileReader_new", "lib", "new", r"impl<'a, R: Read \+ Seek> BlocksToFileReader<'a, R> \{", None,
     [("src", "stream"), ("offsets", "list")], "rec:BlocksToFileReader", "BlocksToFileReader", "stream-first", "BlocksToFileReader::new"),
    ("move_to_next_block", "lib", "move_to_next_block", r"impl<'a, R: Read \+ Seek> BlocksToFileReader<'a, R> \{", "BlocksToFileReader",
     [], "unit", "unit", "self", "move_to_next_block"),
    ("bfr_read", "lib", "read", r"impl<T: Read \+ Seek> Read for BlocksToFileReader<'_, T> \{", "BlocksToFileReader",
     [("into", "buf")], "count", "bytes", "self", None),
    ("list_files", "lib", "list_files", r"impl<'b, R: 'b \+ InnerReaderTrait> ArchiveReader<'b, R> \{", "ArchiveReader",
     [], "list", "(list bytes)", "self", None),
    ("get_hash", "lib", "get_hash", r"impl<'b, R: 'b \+ InnerReaderTrait> ArchiveReader<'b, R> \{", "ArchiveReader",
     [("filename", "bytes")], "opt", "(option bytes)", "self", None),
    ("get_file", "lib", "get_file", r"impl<'b, R: 'b \+ InnerReaderTrait> ArchiveReader<'b, R> \{", "ArchiveReader",
     [("filename", "bytes")], "opt", "(option (bytes * BlocksToFileReader * N))", "self", None),
    ("footer_deserialize_from", "lib", "deserialize_from", r"impl ArchiveFooter \{", None,
     [("src", "stream")], "footer", "footer", "stream-first", None),
    ("RawLayerReader_new", "raw", "new", r"impl<R: InnerReaderTrait> RawLayerReader<R> \{", None,
     [("inner", "stream")], "rec:RawLayerReader", "RawLayerReader", "pure", None),
    ("raw_reset_position", "raw", "reset_position", r"impl<R: InnerReaderTrait> RawLayerReader<R> \{", "RawLayerReader",
     [], "unit", "unit", "self", None),
    ("raw_seek", "raw", "seek", r"impl<R: InnerReaderTrait> Seek for RawLayerReader<R> \{", "RawLayerReader",
     [("ask_pos", "whence")], "N", "N", "self", None),
    ("raw_read", "raw", "read", r"impl<R: InnerReaderTrait> Read for RawLayerReader<R> \{", "RawLayerReader",
     [("into", "buf")], "count", "bytes", "self", None),
]
COQ_TYPES = {"stream": "st S", "list": "list N", "buf": "N", "bytes": "bytes", "whence": "whence"}
STRUCT_SELF = {"BlocksToFileReader_new": "BlocksToFileReader", "footer_deserialize_from": "ArchiveFooter",
               "RawLayerReader_new": "RawLayerReader"}


def translate_item(item, srcs, methods, enums):
    coq, fkey, fn, within, struct, params, rk, rty, shape, callee = item
    r = R.fn_text(srcs[fkey], fn, 0, within)
    if r is None:
        raise ParseError("fn %s not found" % fn)
    got = fn_params(r[2])
    if [p for p, _ in got if p != "self"] != [p for p, _ in params] or (struct is not None) != any(p == "self" for p, _ in got):
        raise ParseError("parameters of %s changed: %s" % (fn, got))
    body = R.parse_body(r[0])
    tr = Tr(methods, enums)
    tr.u64_fields = {("RawLayerReader", "offset_pos")}
    c = Ctx()
    c.struct = struct
    c.struct_self = STRUCT_SELF.get(coq, struct)
    c.ret = {"rec:BlocksToFileReader": "rec", "rec:RawLayerReader": "rec"}.get(rk, rk)
    binders = []
    if struct is not None:
        c.self = "self"
        binders.append("(self : %s)" % struct)
    for p, kind in params:
        g = p + "_len" if kind == "buf" else p
        c.locals[p] = V(g, kind)
        binders.append("(%s : %s)" % (g, COQ_TYPES[kind]))
        if kind == "stream" and struct is None:
            c.state_param = p
    st_ty = struct if struct is not None else "st S"
    head = "(* %s:%d fn %s *)" % ({"lib": "mla/src/lib.rs", "raw": "mla/src/layers/raw.rs"}[fkey], r[1], fn)
    if shape == "pure":
        # a constructor: the body is one struct literal
        if body[1] or body[2] is None:
            raise ParseError("constructor body")
        holder = []
        tr.val(body[2], c, lambda v, c2: holder.append(v.text) or "")
        return "%s\n  Definition %s %s : %s :=\n    %s." % (head, coq, " ".join(binders), rty, holder[0])
    t = strip_paren(body[2]) if body[2] is not None else None
    if not body[1] and t is not None and t[0] == "loop" and t[1] is None:
        extra = [c.locals[p].text for p, _ in params]
        c.in_loop = (coq + "_loop", extra)
        inner = tr.stmts(list(t[2][1]), t[2][2], c, None, None)
        return ("%s\n  Fixpoint %s_loop (fuel : nat) %s {struct fuel} : %s * res %s :=\n    match fuel with\n    | O => (self, Err EFuel)\n    | Datatypes.S fuel' =>\n    %s\n    end.\n"
                "  Definition %s := %s_loop." % (head, coq, " ".join(binders), st_ty, rty, inner, coq, coq))
    g = tr.stmts(list(body[1]), body[2], c, None, None)
    return "%s\n  Definition %s %s : %s * res %s :=\n    %s." % (head, coq, " ".join(binders), st_ty, rty, g)


def serialize_into_item(lib):
    """ArchiveFooter::serialize_into: order of operations and arithmetic; the byte layout (bincode) is the
    section variable ser_map (Blocks.ser_footer_map in the tie)"""
    r = R.fn_text(lib, "serialize_into", 0, r"impl ArchiveFooter \{")
    if r is None:
        raise ParseError("fn serialize_into not found")
    got = fn_params(r[2])
    if [p for p, _ in got] != ["dest", "files_info", "ids_info"]:
        raise ParseError("parameters of serialize_into changed: %s" % got)
    b = R.parse_body(r[0])
    ev = [R.show_stmt(x) for x in b[1]] + [show(b[2])]
    want = [
        "let mut serialization_len = 0;",
        "let mut tmp: HashMap<&String,&FileInfo> = HashMap::new();",
        None,
        "if bincode::options().with_limit(BINCODE_MAX_DESERIALIZE).with_fixint_encoding().serialize_into(&mut dest, &tmp).is_err() { return Err(Error::SerializationError); }",
        "serialization_len += match bincode::serialized_size(&tmp) { Ok(size) => size, Err(_) => { return Err(Error::SerializationError); }, };",
        "dest.write_u32::<LittleEndian>(u32::try_from(serialization_len).map_err(|_| Error::SerializationError)?)?;",
        "Ok(())"]
    if len(ev) != len(want) or any(w is not None and re.sub(r"\s", "", w) != re.sub(r"\s", "", e) for w, e in zip(want, ev)):
        raise ParseError("serialize_into body: %s" % ev)
    loop = strip_paren(b[1][2][1])
    if loop[0] != "for" or loop[2] != "(k,i)" or show(loop[3]) != "files_info":
        raise ParseError("serialize_into loop head")
    lb = loop[4]
    st0 = lb[1][0]
    if len(lb[1]) != 2 or lb[2] is not None or st0[0] != "let" or st0[1] != "v" or show(strip_paren(lb[1][1][1])) != "tmp.insert(k, v)":
        raise ParseError("serialize_into loop body")
    g = strip_paren(st0[3])
    if not (g[0] == "try" and strip_paren(g[1])[0] == "mcall" and strip_paren(g[1])[2] == "ok_or_else"
            and show(strip_paren(strip_paren(g[1])[1])) == "ids_info.get(i)"):
        raise ParseError("serialize_into lookup")
    er = err_of(strip_paren(g[1])[3][0])
    return ("(* mla/src/lib.rs:%d fn ArchiveFooter::serialize_into: join (every name's id must be known, else %s, nothing written),\n"
            "     the map, then its serialized size on 4 bytes (u32::try_from) *)\n"
            "  Fixpoint footer_join {FI} (files_info : list (bytes * N)) (ids_info : list (N * FI)) : res (list (bytes * FI)) :=\n"
            "    match files_info with\n    | [] => Ok []\n    | (k, i) :: r =>\n"
            "      match find (fun e => fst e =? i) ids_info with\n      | None => Err %s\n"
            "      | Some (_, v) => match footer_join r ids_info with Ok t => Ok ((k, v) :: t) | Err e => Err e | Crash x => Crash x end\n      end\n    end.\n"
            "  Definition footer_serialize_into {FI} (ser_map : list (bytes * FI) -> bytes) (order : list (bytes * FI) -> list (bytes * FI))\n"
            "      (dest : bytes) (files_info : list (bytes * N)) (ids_info : list (N * FI)) : bytes * res unit :=\n"
            "    match footer_join files_info ids_info with\n    | Err e => (dest, Err e) | Crash x => (dest, Crash x)\n    | Ok tmp =>\n"
            "      let body := ser_map (order tmp) in\n"
            "      if BINCODE_MAX_DESERIALIZE <? len body then (dest, Err EDeser) else\n"
            "      let dest1 := dest ++ body in\n      let serialization_len := 0 + len body in\n"
            "      if 2 ^ 32 <=? serialization_len then (dest1, Err EDeser) else\n"
            "      (dest1 ++ le_bytes 4 serialization_len, Ok tt)\n    end." % (r[1], er, er))


def generate():
    out = []
    out.append("(* GENERATED by tools/src2v3_reader.py from %s — do not edit. *)" % REPO)
    out.append("From MLA Require Import Base Stream Blocks.")
    out.append("From MLAGen Require Src3b.")
    out.append("Open Scope N_scope.")
    lib = strip_tests(read_file("mla/src/lib.rs"))
    raw = strip_tests(read_file("mla/src/layers/raw.rs"))
    srcs = {"lib": lib, "raw": raw}
    try:
        bmax, bline = data_checks(lib, raw)
    except Exception as e:
        out.append("(* reader data: %s *)" % str(e).replace("*)", "* )"))
        out.append("Definition reader_data_untranslatable : unit := tt.")
        return "\n".join(out) + "\n"
    enums = {"BlocksToFileReaderState": [("InFile", 1), ("Ready", 0), ("Finish", 0)]}
    out.append(PREAMBLE % {"bincode_max": bmax, "bincode_line": bline,
                           "bstate": "InFile (remaining : N) | Ready | Finish"})
    methods = {}
    for item in ITEMS:
        try:
            out.append("  " + translate_item(item, srcs, methods, enums))
            if item[9] is not None:
                methods[item[9]] = (item[0], item[6], item[8])
        except Exception as e:  # fail closed, per item
            out.append("  (* %s: %s *)" % (item[0], str(e).replace("*)", "* )")))
            out.append("  Definition %s_untranslatable : unit := tt." % item[0])
    out.append("End ReaderSrc.")
    out.append("")
    try:
        out.append(serialize_into_item(lib).replace("\n  ", "\n"))
    except Exception as e:
        out.append("(* footer_serialize_into: %s *)" % str(e).replace("*)", "* )"))
        out.append("Definition footer_serialize_into_untranslatable : unit := tt.")
    out.append("")
    return "\n".join(out) + "\n"


def main():
    try:
        text = generate()
    except Exception as e:  # fail closed as a whole
        text = "(* GENERATED: tools/src2v3_reader.py failed: %s *)\nDefinition src3d_untranslatable : unit := tt.\n" % str(e).replace("*)", "* )")
    outp = os.path.normpath(OUT)
    old = None
    if os.path.exists(outp):
        with open(outp) as f:
            old = f.read()
    if old != text:
        with open(outp, "w") as f:
            f.write(text)
        print("src2v3_reader: wrote", outp)
    else:
        print("src2v3_reader: unchanged", outp)


if __name__ == "__main__":
    main()
