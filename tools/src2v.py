#!/usr/bin/env python3
"""Tie A: regenerate coq/gen/Src.v from /repo's working tree.

Understands a deliberately tiny Rust subset and FAILS CLOSED: anything it cannot translate
becomes `Definition <name>_untranslatable : unit := tt.`, so the SrcTie lemma that mentions
the real name no longer compiles and the check goes to its failing-input search.

Translated:
  * integer / byte-string constants (both arms of cfg(feature = "mla_verif"))
  * enum discriminants of ArchiveFileBlockType, bitflags of Layers
  * straight-line arithmetic functions over u64/u32 (let-bindings, + - * / %, min, if/else,
    checked_sub(..).ok_or_else(..)?, `as`/`from` casts), with `-` translated to a CHECKED
    subtraction (res monad) so that an added or removed guard is visible
  * the Component match of get_extracted_path
"""
import os
import re
import sys

REPO = os.environ.get("VERIF_REPO", "/repo")
OUT = os.path.join(os.path.dirname(os.path.abspath(__file__)), "..", "coq", "gen", "Src.v")


def read(rel):
    with open(os.path.join(REPO, rel), encoding="utf-8") as f:
        return f.read()


def strip_tests(src):
    i = src.find("#[cfg(test)]\nmod tests")
    if i < 0:
        i = src.find("#[cfg(test)]\npub(crate) mod tests")
    return src if i < 0 else src[:i]


# ---------------------------------------------------------------- expression parser

TOK = re.compile(r"\s*(?:(\d[\d_]*)(?:u8|u32|u64|usize|i64)?|([A-Za-z_][A-Za-z0-9_:]*)|(==|!=|<=|>=|&&|\|\||[-+*/%()<>,{}.;=?!|])|(\"[^\"]*\"))")


class ParseError(Exception):
    pass


def tokenize(s):
    s = re.sub(r"//[^\n]*", "", s)
    out, pos = [], 0
    s = s.strip()
    while pos < len(s):
        m = TOK.match(s, pos)
        if not m:
            raise ParseError("token at %r" % s[pos:pos + 20])
        if m.group(1) is not None:
            out.append(("int", int(m.group(1).replace("_", ""))))
        elif m.group(2) is not None:
            out.append(("id", m.group(2)))
        elif m.group(3) is not None:
            out.append(("op", m.group(3)))
        else:
            out.append(("str", m.group(4)))
        pos = m.end()
        while pos < len(s) and s[pos].isspace():
            pos += 1
    return out


class P:
    """Pratt parser producing a small AST:
       ('int',n) ('var',x) ('bin',op,a,b) ('min',a,b) ('if',c,a,b) ('csub_err',a,b) ('let',x,e,body)"""

    def __init__(self, toks):
        self.t, self.i = toks, 0

    def peek(self):
        return self.t[self.i] if self.i < len(self.t) else ("eof", None)

    def next(self):
        tok = self.peek()
        self.i += 1
        return tok

    def expect(self, kind, val=None):
        tok = self.next()
        if tok[0] != kind or (val is not None and tok[1] != val):
            raise ParseError("expected %s %s got %s" % (kind, val, tok))
        return tok

    def block(self):
        """ { let x = e; ... e } """
        self.expect("op", "{")
        e = self.stmts()
        self.expect("op", "}")
        return e

    def stmts(self):
        tok = self.peek()
        if tok == ("id", "let"):
            self.next()
            name = self.expect("id")[1]
            self.expect("op", "=")
            e = self.expr(0)
            self.expect("op", ";")
            body = self.stmts()
            return ("let", name, e, body)
        return self.expr(0)

    PREC = {"||": 1, "&&": 2, "==": 3, "!=": 3, "<": 3, ">": 3, "<=": 3, ">=": 3,
            "+": 5, "-": 5, "*": 6, "/": 6, "%": 6}

    def expr(self, minp):
        lhs = self.unary()
        while True:
            tok = self.peek()
            if tok[0] == "op" and tok[1] in self.PREC and self.PREC[tok[1]] >= minp:
                op = self.next()[1]
                rhs = self.expr(self.PREC[op] + 1)
                lhs = ("bin", op, lhs, rhs)
            elif tok == ("id", "as"):
                self.next()
                self.expect("id")  # cast: identity on N
            else:
                return lhs

    def unary(self):
        e = self.atom()
        while self.peek() == ("op", "."):
            self.next()
            meth = self.expect("id")[1]
            if meth == "checked_sub":
                self.expect("op", "(")
                arg = self.expr(0)
                self.expect("op", ")")
                # .ok_or_else(|| ...)?   — swallow up to the matching '?'
                self.expect("op", ".")
                self.expect("id", "ok_or_else")
                depth = 0
                while True:
                    tok = self.next()
                    if tok[0] == "eof":
                        raise ParseError("unterminated ok_or_else")
                    if tok == ("op", "("):
                        depth += 1
                    elif tok == ("op", ")"):
                        depth -= 1
                        if depth == 0:
                            break
                self.expect("op", "?")
                e = ("csub_err", e, arg)
            elif meth == "len":
                self.expect("op", "(")
                self.expect("op", ")")
                e = ("len", e)
            else:
                raise ParseError("method " + meth)
        return e

    def atom(self):
        tok = self.next()
        if tok[0] == "int":
            return ("int", tok[1])
        if tok == ("op", "("):
            e = self.expr(0)
            self.expect("op", ")")
            return e
        if tok == ("id", "if"):
            c = self.expr(0)
            a = self.block()
            self.expect("id", "else")
            b = self.block()
            return ("if", c, a, b)
        if tok[0] == "id":
            name = tok[1]
            if name in ("std::cmp::min", "cmp::min", "min"):
                self.expect("op", "(")
                a = self.expr(0)
                self.expect("op", ",")
                b = self.expr(0)
                self.expect("op", ")")
                return ("min", a, b)
            if name in ("u64::from", "u32::from", "usize::from"):
                self.expect("op", "(")
                a = self.expr(0)
                self.expect("op", ")")
                return a
            if name == "self":
                self.expect("op", ".")
                fld = self.expect("id")[1]
                # self.a.b() : a no-argument accessor chain is an opaque input variable
                while (self.peek() == ("op", ".") and self.i + 3 < len(self.t) + 1
                       and self.t[self.i + 1][0] == "id"
                       and self.t[self.i + 1][1] not in ("checked_sub", "len")
                       and self.t[self.i + 2:self.i + 4] == [("op", "("), ("op", ")")]):
                    fld += "_" + self.t[self.i + 1][1]
                    self.i += 4
                return ("var", "self_" + fld)
            return ("var", name)
        raise ParseError("atom %s" % (tok,))


class Gen:
    """AST -> Gallina in the res monad (checked subtraction)."""

    def __init__(self, site):
        self.site = site
        self.n = 0

    def pure(self, e):
        """True when e contains no checked operation."""
        k = e[0]
        if k in ("int", "var"):
            return True
        if k == "len":
            return self.pure(e[1])
        if k == "bin":
            return e[1] != "-" and self.pure(e[2]) and self.pure(e[3])
        if k == "min":
            return self.pure(e[1]) and self.pure(e[2])
        return False

    def pexpr(self, e):
        k = e[0]
        if k == "int":
            return "%d" % e[1]
        if k == "var":
            return e[1].replace("::", "_")
        if k == "len":
            return "(len %s)" % self.pexpr(e[1])
        if k == "min":
            return "(N.min %s %s)" % (self.pexpr(e[1]), self.pexpr(e[2]))
        if k == "bin":
            op = {"+": "+", "*": "*", "/": "/", "%": "mod", "==": "=?", "<": "<?", "<=": "<=?",
                  "&&": "&&", "||": "||"}.get(e[1])
            if e[1] == ">":
                return "(%s <? %s)" % (self.pexpr(e[3]), self.pexpr(e[2]))
            if e[1] == ">=":
                return "(%s <=? %s)" % (self.pexpr(e[3]), self.pexpr(e[2]))
            if e[1] == "!=":
                return "(negb (%s =? %s))" % (self.pexpr(e[2]), self.pexpr(e[3]))
            if op is None:
                raise ParseError("op " + e[1])
            return "(%s %s %s)" % (self.pexpr(e[2]), op, self.pexpr(e[3]))
        raise ParseError("not pure: %s" % (e,))

    def fresh(self):
        self.n += 1
        return "t%d" % self.n

    def mexpr(self, e, k):
        """CPS: translate e, bind its value to a name, call k(name_or_expr)."""
        if self.pure(e):
            return k(self.pexpr(e))
        kind = e[0]
        if kind == "bin" and e[1] == "-":
            def k1(a):
                def k2(b):
                    v = self.fresh()
                    return "do %s <- csub %d %s %s; %s" % (v, self.site, a, b, k(v))
                return self.mexpr(e[3], k2)
            return self.mexpr(e[2], k1)
        if kind == "csub_err":
            def k1(a):
                def k2(b):
                    v = self.fresh()
                    return "do %s <- (if %s <=? %s then Ok (%s - %s) else Err EInval); %s" % (v, b, a, a, b, k(v))
                return self.mexpr(e[2], k2)
            return self.mexpr(e[1], k1)
        if kind == "bin":
            def k1(a):
                def k2(b):
                    return k(self.pexpr(("bin", e[1], ("var", a), ("var", b))))
                return self.mexpr(e[3], k2)
            return self.mexpr(e[2], k1)
        if kind == "min":
            def k1(a):
                def k2(b):
                    return k("(N.min %s %s)" % (a, b))
                return self.mexpr(e[2], k2)
            return self.mexpr(e[1], k1)
        if kind == "if":
            v = self.fresh()
            c = self.pexpr(e[1])
            return "do %s <- (if %s then %s else %s); %s" % (
                v, c, self.mexpr(e[2], lambda x: "Ok %s" % x), self.mexpr(e[3], lambda x: "Ok %s" % x), k(v))
        if kind == "let":
            return self.mexpr(e[2], lambda x: "let %s := %s in %s" % (e[1], x, self.mexpr(e[3], k)))
        raise ParseError("mexpr %s" % (e,))

    def top(self, e):
        return self.mexpr(e, lambda x: "Ok %s" % x)


def translate_body(body, site):
    toks = tokenize(body)
    p = P(toks)
    ast = p.stmts()
    if p.peek()[0] != "eof":
        raise ParseError("trailing tokens %s" % (p.peek(),))
    return Gen(site).top(ast)


# ---------------------------------------------------------------- extraction helpers

def find_fn_body(src, name):
    m = re.search(r"fn\s+%s\s*(?:<[^>]*>)?\s*\(" % re.escape(name), src)
    if not m:
        return None
    i = src.index("{", m.end())
    depth, j = 0, i
    while True:
        if src[j] == "{":
            depth += 1
        elif src[j] == "}":
            depth -= 1
            if depth == 0:
                break
        j += 1
    return src[i + 1:j], src.count("\n", 0, m.start()) + 1


def eval_int(expr, env):
    expr = re.sub(r"\b(\d[\d_]*)(u8|u32|u64|usize)\b", r"\1", expr).replace("_", "") if re.fullmatch(r"[\d_\s*+\-/()uUsize0-9]*", expr) else expr
    expr = re.sub(r"\s+as\s+\w+", "", expr)
    expr = re.sub(r"\b(u64|u32|usize)::from\(([^()]*)\)", r"(\2)", expr)
    if not re.fullmatch(r"[\w\s*+\-/()]*", expr):
        raise ParseError("const expr " + expr)
    return int(eval(expr.replace("/", "//"), {"__builtins__": {}}, dict(env)))


def consts(src, names, env, out, prefix=""):
    """integer constants, both cfg arms; returns nothing, appends definitions."""
    for name in names:
        pat = re.compile(r"((?:#\[cfg\((?:not\()?feature = \"mla_verif\"\)?\)\]\s*)?)(?:pub(?:\(crate\))?\s+)?const\s+%s\s*:\s*\w+\s*=\s*([^;]+);" % name)
        found = pat.findall(src)
        if not found:
            out.append("Definition %s%s_untranslatable : unit := tt." % (prefix, name))
            continue
        for cfg, expr in found:
            try:
                v = eval_int(expr.strip(), env)
            except Exception as e:  # fail closed
                out.append("(* %s: %s *)" % (name, e))
                out.append("Definition %s%s_untranslatable : unit := tt." % (prefix, name))
                continue
            if "not(feature" in cfg:
                suffix = ["_prod"]
            elif "feature" in cfg:
                suffix = ["_verif"]
            else:
                suffix = ["_prod", "_verif"]
            for sfx in suffix:
                out.append("Definition %s%s%s : N := %d." % (prefix, name, sfx, v))
                env[name + sfx] = v
            if suffix == ["_prod", "_verif"] or "not(feature" in cfg:
                env[name] = v  # later constant expressions see the production value


def bytestr(src, name, out):
    m = re.search(r"const\s+%s\s*:\s*&\[u8(?:;\s*\d+)?\]\s*=\s*b\"([^\"]*)\";" % name, src)
    if not m:
        out.append("Definition %s_untranslatable : unit := tt." % name)
        return
    b = m.group(1).encode("ascii")
    out.append("Definition %s : list N := [%s]. (* %r *)" % (name, "; ".join(str(x) for x in b), m.group(1)))


def main():
    out = []
    out.append("(* GENERATED by tools/src2v.py from %s — do not edit. *)" % REPO)
    out.append("From MLA Require Import Base.")
    out.append("Open Scope N_scope.")
    out.append("")
    env = {}

    aes = strip_tests(read("mla/src/crypto/aesgcm.rs"))
    enc = strip_tests(read("mla/src/layers/encrypt.rs"))
    comp = strip_tests(read("mla/src/layers/compress.rs"))
    lib = strip_tests(read("mla/src/lib.rs"))
    ecc = strip_tests(read("mla/src/crypto/ecc.rs"))

    out.append("(* mla/src/crypto/aesgcm.rs *)")
    consts(aes, ["BLOCK_SIZE", "TAG_LENGTH", "KEY_SIZE", "NONCE_AES_SIZE"], env, out)
    out.append("(* mla/src/layers/encrypt.rs *)")
    consts(enc, ["CIPHER_BUF_SIZE", "NONCE_SIZE", "CHUNK_SIZE"], env, out)
    # CHUNK_TAG_SIZE depends on the flavour
    m = re.search(r"const\s+CHUNK_TAG_SIZE\s*:\s*u64\s*=\s*CHUNK_SIZE\s*\+\s*TAG_LENGTH\s+as\s+u64\s*;", enc)
    if m and "CHUNK_SIZE_prod" in env and "TAG_LENGTH_prod" in env:
        out.append("Definition CHUNK_TAG_SIZE_prod : N := CHUNK_SIZE_prod + TAG_LENGTH_prod.")
        out.append("Definition CHUNK_TAG_SIZE_verif : N := CHUNK_SIZE_verif + TAG_LENGTH_verif.")
    else:
        out.append("Definition CHUNK_TAG_SIZE_untranslatable : unit := tt.")
    out.append("(* mla/src/layers/compress.rs *)")
    consts(comp, ["UNCOMPRESSED_DATA_SIZE", "DEFAULT_COMPRESSION_LEVEL", "BROTLI_LOG_WINDOW", "FAIL_SAFE_BUFFER_SIZE"], env, out)
    out.append("(* mla/src/lib.rs *)")
    consts(lib, ["MLA_FORMAT_VERSION", "FILENAME_MAX_SIZE", "BINCODE_MAX_DESERIALIZE", "CACHE_SIZE"], env, out)
    m = re.search(r"const\s+MLA_MAGIC\s*:\s*&\[u8;\s*3\]\s*=\s*b\"([^\"]*)\";", lib)
    if m:
        out.append("Definition MLA_MAGIC : list N := [%s]." % "; ".join(str(x) for x in m.group(1).encode()))
    else:
        out.append("Definition MLA_MAGIC_untranslatable : unit := tt.")
    # block type discriminants
    m = re.search(r"enum ArchiveFileBlockType\s*\{([^}]*)\}", lib)
    if m:
        for nm, val in re.findall(r"(\w+)\s*=\s*(0x[0-9A-Fa-f]+|\d+)", m.group(1)):
            out.append("Definition BT_%s : N := %d." % (nm, int(val, 0)))
    else:
        out.append("Definition BT_untranslatable : unit := tt.")
    for nm in ("ENCRYPT", "COMPRESS"):
        m = re.search(r"const %s = (0b[01_]+);" % nm, lib)
        if m:
            out.append("Definition LAYER_%s : N := %d." % (nm, int(m.group(1).replace("_", ""), 0)))
        else:
            out.append("Definition LAYER_%s_untranslatable : unit := tt." % nm)
    out.append("(* mla/src/crypto/ecc.rs *)")
    bytestr(ecc, "DERIVE_KEY_INFO", out)
    bytestr(ecc, "ECIES_NONCE", out)
    # ---- where the writer's secrets come from (C07): 1 = a ChaCha generator seeded by the OS
    out.append("(* entropy sources of the writer's secrets: 1 = drawn from ChaChaRng::from_os_rng() *)")

    def flag(name, ok):
        if ok:
            out.append("Definition %s : N := 1." % name)
        else:
            out.append("Definition %s : N := 0." % name)
    nc = lambda t: re.sub(r"//[^\n]*", "", t)
    try:
        m = re.search(r"impl\s+std::default::Default\s+for\s+EncryptionConfig\s*\{", enc)
        d = nc(find_fn_body(enc[m.start():], "default")[0])
        gens = re.findall(r"let\s+mut\s+(\w+)\s*=\s*([^;]+);", d)
        os_gens = [g for g, rhs in gens if rhs.strip() == "ChaChaRng::from_os_rng()"]
        key_src = re.search(r"let\s+key\s*=\s*(\w+)\.random::<Key>\(\)\s*;", d)
        nonce_src = re.search(r"let\s+nonce\s*=\s*(\w+)\.random::<\[u8;\s*NONCE_SIZE\]>\(\)\s*;", d)
        flag("ENTROPY_key_from_os_seeded_csprng", bool(key_src and key_src.group(1) in os_gens and len(gens) == len(os_gens)))
        flag("ENTROPY_nonce_from_os_seeded_csprng", bool(nonce_src and nonce_src.group(1) in os_gens and len(gens) == len(os_gens)))
    except Exception as e:  # fail closed
        out.append("(* EncryptionConfig::default: %s *)" % e)
        out.append("Definition ENTROPY_default_untranslatable : unit := tt.")
    try:
        tp = nc(find_fn_body(enc, "to_persistent")[0])
        g = re.findall(r"let\s+mut\s+(\w+)\s*=\s*([^;]+);", tp)
        call = re.search(r"store_key_for_multi_recipients\(\s*&self\.ecc_keys\s*,\s*&self\.key\s*,\s*&mut\s+(\w+)\s*\)", tp)
        flag("ENTROPY_wrap_rng_from_os", bool(call and [x for x in g if x[0] == call.group(1) and x[1].strip() == "ChaChaRng::from_os_rng()"]))
        sk = nc(find_fn_body(ecc, "store_key_for_multi_recipients")[0])
        e1 = re.search(r"let\s+mut\s+bytes\s*=\s*\[0u8;\s*32\]\s*;\s*csprng\.fill_bytes\(&mut\s+bytes\)\s*;\s*let\s+ephemeral\s*=\s*StaticSecret::from\(bytes\)\s*;", sk)
        e2 = re.search(r"let\s+public\s*=\s*PublicKey::from\(&ephemeral\)\s*;", sk)
        flag("ENTROPY_ephemeral_from_wrap_rng", bool(e1 and e2))
    except Exception as e:  # fail closed
        out.append("(* to_persistent / store_key_for_multi_recipients: %s *)" % e)
        out.append("Definition ENTROPY_wrap_untranslatable : unit := tt.")
    out.append("")

    # ---- kernels, parametric in the constants they mention
    out.append("(* ---- arithmetic kernels (checked subtraction = `csub site`) ---- *)")
    out.append("Section Kernels.")
    out.append("  Variables CHUNK_SIZE TAG_LENGTH CHUNK_TAG_SIZE UNCOMPRESSED_DATA_SIZE : N.")

    def kernel(src, fname, args, coqname, rel):
        fb = find_fn_body(src, fname)
        if fb is None:
            out.append("  Definition %s_untranslatable : unit := tt." % coqname)
            return
        body, line = fb
        try:
            g = translate_body(body, line)
            out.append("  (* %s:%d fn %s *)" % (rel, line, fname))
            out.append("  Definition %s %s : res N :=\n    %s." % (coqname, " ".join("(%s : N)" % a for a in args), g))
        except ParseError as e:
            out.append("  (* %s: %s *)" % (fname, e))
            out.append("  Definition %s_untranslatable : unit := tt." % coqname)

    kernel(enc, "no_tag_position_to_tag_position", ["position"], "no_tag_position_to_tag_position", "mla/src/layers/encrypt.rs")
    kernel(enc, "tag_position_to_no_tag_position", ["position"], "tag_position_to_no_tag_position", "mla/src/layers/encrypt.rs")

    # the SeekFrom::End arithmetic: the statements between `let end_inner_pos = ...;` and `let pos_adjusted`
    m = re.search(r"let end_inner_pos = self\.inner\.seek\(SeekFrom::End\(0\)\)\?;(.*?)let pos_adjusted", enc, re.S)
    if m:
        body = m.group(1).strip() + "\nend_pos"
        line = enc.count("\n", 0, m.start()) + 1
        try:
            g = translate_body(body, line)
            out.append("  (* mla/src/layers/encrypt.rs:%d SeekFrom::End arithmetic *)" % line)
            out.append("  Definition seek_end_pos (end_inner_pos : N) : res N :=\n    %s." % g)
        except ParseError as e:
            out.append("  (* seek_end_pos: %s *)" % e)
            out.append("  Definition seek_end_pos_untranslatable : unit := tt.")
    else:
        out.append("  Definition seek_end_pos_untranslatable : unit := tt.")

    # the SeekFrom::Current position: `let current = ...;`
    m = re.search(r"SeekFrom::Current\(value\) => \{(.*?)if value == 0", enc, re.S)
    if m:
        body = re.sub(r"//[^\n]*", "", m.group(1)).strip()
        line = enc.count("\n", 0, m.start()) + 1
        try:
            g = translate_body(body + "\ncurrent", line)
            out.append("  (* mla/src/layers/encrypt.rs:%d SeekFrom::Current position *)" % line)
            out.append("  Definition seek_cur_pos (self_current_chunk_number self_chunk_cache_position : N) : res N :=\n    %s." % g)
        except ParseError as e:
            out.append("  (* seek_cur_pos: %s *)" % e)
            out.append("  Definition seek_cur_pos_untranslatable : unit := tt.")
    else:
        out.append("  Definition seek_cur_pos_untranslatable : unit := tt.")

    out.append("End Kernels.")
    out.append("")

    # ---- mlar: the Component match of get_extracted_path
    out.append("(* mlar/src/main.rs get_extracted_path: what each path component does *)")
    out.append("Inductive src_component := SPrefix | SRootDir | SCurDir | SParentDir | SNormal.")
    out.append("Inductive src_action := SSkip | SRefuse | SPush.")
    try:
        main_rs = read("mlar/src/main.rs")
        fb = find_fn_body(main_rs, "get_extracted_path")
        body = re.sub(r"//[^\n]*", "", fb[0])
        m = re.search(r"match part \{(.*)\}\s*\}\s*Some\(file_dst\)", body, re.S)
        arms_txt = m.group(1)
        # split arms: patterns "=>" body, body = balanced { ... } (string literals skipped) or up to ','
        arms = []
        i = 0
        while True:
            j = arms_txt.find("=>", i)
            if j < 0:
                break
            pats = arms_txt[i:j]
            k = j + 2
            while arms_txt[k].isspace():
                k += 1
            if arms_txt[k] == "{":
                depth, q, instr = 0, k, False
                while True:
                    ch = arms_txt[q]
                    if instr:
                        if ch == "\\":
                            q += 1
                        elif ch == '"':
                            instr = False
                    elif ch == '"':
                        instr = True
                    elif ch == "{":
                        depth += 1
                    elif ch == "}":
                        depth -= 1
                        if depth == 0:
                            break
                    q += 1
                rhs = arms_txt[k:q + 1]
                i = q + 1
            else:
                q = arms_txt.find(",", k)
                q = len(arms_txt) if q < 0 else q
                rhs = arms_txt[k:q]
                i = q + 1
            arms.append((pats, rhs))
        table = {}
        for pats, rhs in arms:
            rhs = rhs.strip()
            if re.fullmatch(r"\{\s*\}", rhs.strip()):
                act = "SSkip"
            elif "return None" in rhs:
                act = "SRefuse"
            elif re.search(r"file_dst\.push\(part\)", rhs):
                act = "SPush"
            else:
                raise ParseError("arm body " + rhs[:40])
            for pat in re.findall(r"Component::(\w+)", pats):
                table["S" + pat] = act
        names = ["SPrefix", "SRootDir", "SCurDir", "SParentDir", "SNormal"]
        if sorted(table) != sorted(names):
            raise ParseError("arms %s" % sorted(table))
        if not re.search(r"let mut file_dst = output_dir\.to_path_buf\(\);", body):
            raise ParseError("base is not output_dir")
        out.append("Definition component_action (c : src_component) : src_action :=\n  match c with %s end." % " | ".join("%s => %s" % (n, table[n]) for n in names))
    except Exception as e:  # fail closed
        out.append("(* get_extracted_path: %s *)" % e)
        out.append("Definition component_action_untranslatable : unit := tt.")
    out.append("")

    text = "\n".join(out) + "\n"
    outp = os.path.normpath(OUT)
    os.makedirs(os.path.dirname(outp), exist_ok=True)
    old = None
    if os.path.exists(outp):
        with open(outp) as f:
            old = f.read()
    if old != text:
        with open(outp, "w") as f:
            f.write(text)
        print("src2v: wrote", outp)
    else:
        print("src2v: unchanged", outp)


if __name__ == "__main__":
    main()
