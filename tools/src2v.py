#!/usr/bin/env python3
"""Tie A: regenerate coq/gen/Src.v from /repo's working tree.

Understands a deliberately tiny Rust subset and FAILS CLOSED: anything it cannot translate
becomes `Definition <name>_untranslatable : unit := tt.`, so the SrcTie lemma that mentions
the real name no longer compiles and the check goes to its failing-input search.

Translated:
  * integer / byte-string constants (both arms of cfg(feature = "mla_verif"))
  * enum discriminants of ArchiveFileBlockType, bitflags of Layers
  * straight-line arithmetic functions over u64/u32 (let-bindings, + - * / %, min, if/else,
    checked_sub(..).ok_or_else(..)?, `as`/`from` casts), with `-` translated to a CHECKED
    subtraction (res monad) so that an added or removed guard is visible
  * the Component match of get_extracted_path
  * the three methods of `impl SizesInfo` (compress.rs) and the checked subtraction of the
    compression reader's SeekFrom::End arm.  Narrow extra forms, each only where named:
      usize::try_from(x).map_err(..)?            identity (u64 -> usize on a 64-bit target)
      v.get(i).copied().ok_or_else(|| ..InvalidData..)   `match vec_get v i with Some x => Ok x | None => Err EInval`
      a.saturating_sub(b)                        N's (truncated) subtraction
      u64::try_from(d).map_err(..)?              identity, ONLY in the SeekFrom::End kernel and only when
                                                 the guard `if distance_from_end >= 0` is found around it
"""
import os
import re
import sys

REPO = os.environ.get("VERIF_REPO", "/repo")
OUT = os.environ.get("VERIF_SRC_OUT") or os.path.join(os.path.dirname(os.path.abspath(__file__)), "..", "coq", "gen", "Src.v")


def read(rel):
    with open(os.path.join(REPO, rel), encoding="utf-8") as f:
        return f.read()


def strip_tests(src):
    i = src.find("#[cfg(test)]\nmod tests")
    if i < 0:
        i = src.find("#[cfg(test)]\npub(crate) mod tests")
    return src if i < 0 else src[:i]


# ---------------------------------------------------------------- expression parser

TOK = re.compile(r"\s*(?:(\d[\d_]*)(?:u8|u32|u64|usize|i64)?|([A-Za-z_][A-Za-z0-9_:]*)|(==|!=|<=|>=|&&|\|\||[-+*/%()<>,{}.;=?!|])|(\"[^\"]*\"))")


class ParseError(Exception):
    pass


def tokenize(s):
    s = re.sub(r"//[^\n]*", "", s)
    out, pos = [], 0
    s = s.strip()
    while pos < len(s):
        m = TOK.match(s, pos)
        if not m:
            raise ParseError("token at %r" % s[pos:pos + 20])
        if m.group(1) is not None:
            out.append(("int", int(m.group(1).replace("_", ""))))
        elif m.group(2) is not None:
            out.append(("id", m.group(2)))
        elif m.group(3) is not None:
            out.append(("op", m.group(3)))
        else:
            out.append(("str", m.group(4)))
        pos = m.end()
        while pos < len(s) and s[pos].isspace():
            pos += 1
    return out


class P:
    """Pratt parser producing a small AST:
       ('int',n) ('var',x) ('bin',op,a,b) ('min',a,b) ('if',c,a,b) ('csub_err',a,b) ('let',x,e,body)"""

    def __init__(self, toks, ident_casts=()):
        self.t, self.i = toks, 0
        self.ident_casts = set(ident_casts)

    def swallow_call(self, must_contain=None):
        """after `name` of `.name(...)`: skip the balanced argument list; optionally require an
        identifier containing `must_contain` inside it"""
        depth, seen = 0, must_contain is None
        while True:
            tok = self.next()
            if tok[0] == "eof":
                raise ParseError("unterminated call")
            if tok[0] == "id" and must_contain and must_contain in tok[1]:
                seen = True
            if tok == ("op", "("):
                depth += 1
            elif tok == ("op", ")"):
                depth -= 1
                if depth == 0:
                    break
        if not seen:
            raise ParseError("expected %s in the closure" % must_contain)

    def peek(self):
        return self.t[self.i] if self.i < len(self.t) else ("eof", None)

    def next(self):
        tok = self.peek()
        self.i += 1
        return tok

    def expect(self, kind, val=None):
        tok = self.next()
        if tok[0] != kind or (val is not None and tok[1] != val):
            raise ParseError("expected %s %s got %s" % (kind, val, tok))
        return tok

    def block(self):
        """ { let x = e; ... e } """
        self.expect("op", "{")
        e = self.stmts()
        self.expect("op", "}")
        return e

    def stmts(self):
        tok = self.peek()
        if tok == ("id", "let"):
            self.next()
            name = self.expect("id")[1]
            self.expect("op", "=")
            e = self.expr(0)
            self.expect("op", ";")
            body = self.stmts()
            return ("let", name, e, body)
        return self.expr(0)

    PREC = {"||": 1, "&&": 2, "==": 3, "!=": 3, "<": 3, ">": 3, "<=": 3, ">=": 3,
            "+": 5, "-": 5, "*": 6, "/": 6, "%": 6}

    def expr(self, minp):
        lhs = self.unary()
        while True:
            tok = self.peek()
            if tok[0] == "op" and tok[1] in self.PREC and self.PREC[tok[1]] >= minp:
                op = self.next()[1]
                rhs = self.expr(self.PREC[op] + 1)
                lhs = ("bin", op, lhs, rhs)
            elif tok == ("id", "as"):
                self.next()
                self.expect("id")  # cast: identity on N
            else:
                return lhs

    def unary(self):
        e = self.atom()
        while self.peek() == ("op", "."):
            self.next()
            meth = self.expect("id")[1]
            if meth == "checked_sub":
                self.expect("op", "(")
                arg = self.expr(0)
                self.expect("op", ")")
                # .ok_or_else(|| ...)?   — swallow up to the matching '?'
                self.expect("op", ".")
                self.expect("id", "ok_or_else")
                depth = 0
                while True:
                    tok = self.next()
                    if tok[0] == "eof":
                        raise ParseError("unterminated ok_or_else")
                    if tok == ("op", "("):
                        depth += 1
                    elif tok == ("op", ")"):
                        depth -= 1
                        if depth == 0:
                            break
                self.expect("op", "?")
                e = ("csub_err", e, arg)
            elif meth == "len":
                self.expect("op", "(")
                self.expect("op", ")")
                e = ("len", e)
            elif meth == "saturating_sub":
                self.expect("op", "(")
                arg = self.expr(0)
                self.expect("op", ")")
                e = ("satsub", e, arg)
            elif meth == "get":
                # v.get(i).copied().ok_or_else(|| <InvalidData error>)   (no `?`: the value IS the Result)
                self.expect("op", "(")
                arg = self.expr(0)
                self.expect("op", ")")
                self.expect("op", ".")
                self.expect("id", "copied")
                self.expect("op", "(")
                self.expect("op", ")")
                self.expect("op", ".")
                self.expect("id", "ok_or_else")
                self.swallow_call(must_contain="InvalidData")
                if self.peek() == ("op", "?"):
                    self.next()
                e = ("get_err", e, arg)
            else:
                raise ParseError("method " + meth)
        return e

    def atom(self):
        tok = self.next()
        if tok[0] == "int":
            return ("int", tok[1])
        if tok == ("op", "("):
            e = self.expr(0)
            self.expect("op", ")")
            return e
        if tok == ("id", "if"):
            c = self.expr(0)
            a = self.block()
            self.expect("id", "else")
            b = self.block()
            return ("if", c, a, b)
        if tok[0] == "id":
            name = tok[1]
            if name in ("std::cmp::min", "cmp::min", "min"):
                self.expect("op", "(")
                a = self.expr(0)
                self.expect("op", ",")
                b = self.expr(0)
                self.expect("op", ")")
                return ("min", a, b)
            if name in self.ident_casts:
                # <int>::try_from(x).map_err(..)?  — identity under the conditions stated in the docstring
                self.expect("op", "(")
                a = self.expr(0)
                self.expect("op", ")")
                self.expect("op", ".")
                self.expect("id", "map_err")
                self.swallow_call()
                self.expect("op", "?")
                return a
            if name in ("u64::from", "u32::from", "usize::from"):
                self.expect("op", "(")
                a = self.expr(0)
                self.expect("op", ")")
                return a
            if name == "self":
                self.expect("op", ".")
                fld = self.expect("id")[1]
                # self.a.b() : a no-argument accessor chain is an opaque input variable
                while (self.peek() == ("op", ".") and self.i + 3 < len(self.t) + 1
                       and self.t[self.i + 1][0] == "id"
                       and self.t[self.i + 1][1] not in ("checked_sub", "len")
                       and self.t[self.i + 2:self.i + 4] == [("op", "("), ("op", ")")]):
                    fld += "_" + self.t[self.i + 1][1]
                    self.i += 4
                return ("var", "self_" + fld)
            return ("var", name)
        raise ParseError("atom %s" % (tok,))


class Gen:
    """AST -> Gallina in the res monad (checked subtraction)."""

    def __init__(self, site):
        self.site = site
        self.n = 0

    def pure(self, e):
        """True when e contains no checked operation."""
        k = e[0]
        if k in ("int", "var"):
            return True
        if k == "len":
            return self.pure(e[1])
        if k == "bin":
            return e[1] != "-" and self.pure(e[2]) and self.pure(e[3])
        if k in ("min", "satsub"):
            return self.pure(e[1]) and self.pure(e[2])
        return False

    def pexpr(self, e):
        k = e[0]
        if k == "int":
            return "%d" % e[1]
        if k == "var":
            return e[1].replace("::", "_")
        if k == "len":
            return "(len %s)" % self.pexpr(e[1])
        if k == "min":
            return "(N.min %s %s)" % (self.pexpr(e[1]), self.pexpr(e[2]))
        if k == "satsub":
            return "(%s - %s)" % (self.pexpr(e[1]), self.pexpr(e[2]))
        if k == "bin":
            op = {"+": "+", "*": "*", "/": "/", "%": "mod", "==": "=?", "<": "<?", "<=": "<=?",
                  "&&": "&&", "||": "||"}.get(e[1])
            if e[1] == ">":
                return "(%s <? %s)" % (self.pexpr(e[3]), self.pexpr(e[2]))
            if e[1] == ">=":
                return "(%s <=? %s)" % (self.pexpr(e[3]), self.pexpr(e[2]))
            if e[1] == "!=":
                return "(negb (%s =? %s))" % (self.pexpr(e[2]), self.pexpr(e[3]))
            if op is None:
                raise ParseError("op " + e[1])
            return "(%s %s %s)" % (self.pexpr(e[2]), op, self.pexpr(e[3]))
        raise ParseError("not pure: %s" % (e,))

    def fresh(self):
        self.n += 1
        return "t%d" % self.n

    def mexpr(self, e, k):
        """CPS: translate e, bind its value to a name, call k(name_or_expr)."""
        if self.pure(e):
            return k(self.pexpr(e))
        kind = e[0]
        if kind == "bin" and e[1] == "-":
            def k1(a):
                def k2(b):
                    v = self.fresh()
                    return "do %s <- csub %d %s %s; %s" % (v, self.site, a, b, k(v))
                return self.mexpr(e[3], k2)
            return self.mexpr(e[2], k1)
        if kind == "csub_err":
            def k1(a):
                def k2(b):
                    v = self.fresh()
                    return "do %s <- (if %s <=? %s then Ok (%s - %s) else Err EInval); %s" % (v, b, a, a, b, k(v))
                return self.mexpr(e[2], k2)
            return self.mexpr(e[1], k1)
        if kind == "get_err":
            def k1(a):
                def k2(b):
                    v = self.fresh()
                    return "do %s <- (match vec_get %s %s with Some x => Ok x | None => Err EInval end); %s" % (v, a, b, k(v))
                return self.mexpr(e[2], k2)
            return self.mexpr(e[1], k1)
        if kind == "satsub":
            def k1(a):
                def k2(b):
                    return k("(%s - %s)" % (a, b))
                return self.mexpr(e[2], k2)
            return self.mexpr(e[1], k1)
        if kind == "bin":
            def k1(a):
                def k2(b):
                    return k(self.pexpr(("bin", e[1], ("var", a), ("var", b))))
                return self.mexpr(e[3], k2)
            return self.mexpr(e[2], k1)
        if kind == "min":
            def k1(a):
                def k2(b):
                    return k("(N.min %s %s)" % (a, b))
                return self.mexpr(e[2], k2)
            return self.mexpr(e[1], k1)
        if kind == "if":
            v = self.fresh()
            c = self.pexpr(e[1])
            return "do %s <- (if %s then %s else %s); %s" % (
                v, c, self.mexpr(e[2], lambda x: "Ok %s" % x), self.mexpr(e[3], lambda x: "Ok %s" % x), k(v))
        if kind == "let":
            return self.mexpr(e[2], lambda x: "let %s := %s in %s" % (e[1], x, self.mexpr(e[3], k)))
        raise ParseError("mexpr %s" % (e,))

    def top(self, e):
        return self.mexpr(e, lambda x: "Ok %s" % x)


def translate_body(body, site, ident_casts=()):
    toks = tokenize(body)
    p = P(toks, ident_casts)
    ast = p.stmts()
    if p.peek()[0] != "eof":
        raise ParseError("trailing tokens %s" % (p.peek(),))
    return Gen(site).top(ast)


# ---------------------------------------------------------------- extraction helpers

def find_fn_body(src, name):
    m = re.search(r"fn\s+%s\s*(?:<[^>]*>)?\s*\(" % re.escape(name), src)
    if not m:
        return None
    i = src.index("{", m.end())
    depth, j = 0, i
    while True:
        if src[j] == "{":
            depth += 1
        elif src[j] == "}":
            depth -= 1
            if depth == 0:
                break
        j += 1
    return src[i + 1:j], src.count("\n", 0, m.start()) + 1


def eval_int(expr, env):
    expr = re.sub(r"\b(\d[\d_]*)(u8|u32|u64|usize)\b", r"\1", expr).replace("_", "") if re.fullmatch(r"[\d_\s*+\-/()uUsize0-9]*", expr) else expr
    expr = re.sub(r"\s+as\s+\w+", "", expr)
    expr = re.sub(r"\b(u64|u32|usize)::from\(([^()]*)\)", r"(\2)", expr)
    if not re.fullmatch(r"[\w\s*+\-/()]*", expr):
        raise ParseError("const expr " + expr)
    return int(eval(expr.replace("/", "//"), {"__builtins__": {}}, dict(env)))


def consts(src, names, env, out, prefix=""):
    """integer constants, both cfg arms; returns nothing, appends definitions."""
    for name in names:
        pat = re.compile(r"((?:#\[cfg\((?:not\()?feature = \"mla_verif\"\)?\)\]\s*)?)(?:pub(?:\(crate\))?\s+)?const\s+%s\s*:\s*\w+\s*=\s*([^;]+);" % name)
        found = pat.findall(src)
        if not found:
            out.append("Definition %s%s_untranslatable : unit := tt." % (prefix, name))
            continue
        for cfg, expr in found:
            try:
                v = eval_int(expr.strip(), env)
            except Exception as e:  # fail closed
                out.append("(* %s: %s *)" % (name, e))
                out.append("Definition %s%s_untranslatable : unit := tt." % (prefix, name))
                continue
            if "not(feature" in cfg:
                suffix = ["_prod"]
            elif "feature" in cfg:
                suffix = ["_verif"]
            else:
                suffix = ["_prod", "_verif"]
            for sfx in suffix:
                out.append("Definition %s%s%s : N := %d." % (prefix, name, sfx, v))
                env[name + sfx] = v
            if suffix == ["_prod", "_verif"] or "not(feature" in cfg:
                env[name] = v  # later constant expressions see the production value


def bytestr(src, name, out):
    m = re.search(r"const\s+%s\s*:\s*&\[u8(?:;\s*\d+)?\]\s*=\s*b\"([^\"]*)\";" % name, src)
    if not m:
        out.append("Definition %s_untranslatable : unit := tt." % name)
        return
    b = m.group(1).encode("ascii")
    out.append("Definition %s : list N := [%s]. (* %r *)" % (name, "; ".join(str(x) for x in b), m.group(1)))


# ---------------------------------------------------------------- C06: format tie

def coq_str(x):
    return '"%s"%%string' % x.replace('"', '""')


def all_fn_bodies(src, name):
    res = []
    for m in re.finditer(r"fn\s+%s\s*(?:<[^>]*>)?\s*\(" % re.escape(name), src):
        i = src.index("{", m.end())
        depth, j = 0, i
        while True:
            if src[j] == "{":
                depth += 1
            elif src[j] == "}":
                depth -= 1
                if depth == 0:
                    break
            j += 1
        res.append(src[i + 1:j])
    return res


def split_args(s):
    """top-level comma split of a call's argument text"""
    out, depth, cur = [], 0, ""
    for ch in s:
        if ch in "([{":
            depth += 1
        elif ch in ")]}":
            depth -= 1
        if ch == "," and depth == 0:
            out.append(cur)
            cur = ""
        else:
            cur += ch
    if cur.strip():
        out.append(cur)
    return [re.sub(r"\s+", " ", a).strip() for a in out]


def calls(src, fname):
    """argument lists of every call `fname(...)` (balanced parentheses)"""
    res = []
    for m in re.finditer(re.escape(fname) + r"\s*\(", src):
        i = m.end()
        depth, j = 1, i
        while depth:
            if src[j] == "(":
                depth += 1
            elif src[j] == ")":
                depth -= 1
            j += 1
        res.append(split_args(src[i:j - 1]))
    return res


def struct_fields(src, name):
    m = re.search(r"struct\s+%s\s*\{(.*?)\n\}" % name, src, re.S)
    if not m:
        raise ParseError("struct " + name)
    body = re.sub(r"//[^\n]*", "", m.group(1))
    fields = re.findall(r"(?:pub(?:\(crate\))?\s+)?(\w+)\s*:\s*([^,\n]+(?:<[^>]*>)?)\s*,", body)
    if not fields:
        raise ParseError("struct fields " + name)
    return [(a, re.sub(r"\s+", " ", b).strip()) for a, b in fields]


def format_tie(out, enc, ecc, lib, comp, config):
    nocom = lambda t: re.sub(r"//[^\n]*", "", t)
    enc, ecc, lib, comp, config = map(nocom, (enc, ecc, lib, comp, config))
    out.append("(* ---- format v1 (C06): nonce construction, counters, key wrapping, layer order, layouts ---- *)")
    # build_nonce: slice copies into the 12-byte array -> concatenation
    fb = find_fn_body(enc, "build_nonce")
    sig = re.search(r"fn\s+build_nonce\s*\(\s*(\w+)\s*:\s*\[u8;\s*NONCE_SIZE\]\s*,\s*(\w+)\s*:\s*u32\s*\)\s*->\s*Nonce", enc)
    if not fb or not sig:
        raise ParseError("build_nonce signature")
    a_pre, a_ctr = sig.group(1), sig.group(2)
    stmts = [x.strip() for x in fb[0].split(";") if x.strip()]
    if len(stmts) != 4 or stmts[0] != "let mut nonce = Nonce::default()" or stmts[3] != "nonce":
        raise ParseError("build_nonce body shape")
    m1 = re.fullmatch(r"nonce\[\.\.NONCE_SIZE\]\.copy_from_slice\(&(\w+)\)", stmts[1])
    m2 = re.fullmatch(r"nonce\[NONCE_SIZE\.\.\]\.copy_from_slice\(&(\w+)\.to_(be|le)_bytes\(\)\)", stmts[2])
    if not m1 or not m2 or m1.group(1) != a_pre or m2.group(1) != a_ctr:
        raise ParseError("build_nonce copies")
    conv = "be_bytes" if m2.group(2) == "be" else "(fun w v => le_bytes w v)"
    out.append("(* mla/src/layers/encrypt.rs:%d fn build_nonce *)" % fb[1])
    out.append("Definition build_nonce (%s : list N) (%s : N) : list N := %s ++ %s 4 %s." % (a_pre, a_ctr, a_pre, conv, a_ctr))
    if not re.search(r"pub type Nonce = \[u8; NONCE_AES_SIZE\];", read("mla/src/crypto/aesgcm.rs")):
        raise ParseError("type Nonce")

    def str_list(name, items):
        out.append("Definition %s : list string := [%s]." % (name, "; ".join(coq_str(i) for i in items)))

    def triple_list(name, items):
        out.append("Definition %s : list (string * string * string) := [%s]." % (
            name, "; ".join("(%s, %s, %s)" % tuple(coq_str(x) for x in it) for it in items)))

    # every cipher construction of the encryption layer and of the key wrapping: (key, nonce, associated data)
    for nm, src in (("ENC_AESGCM_NEW", enc), ("ECC_AESGCM_NEW", strip_tests(ecc))):
        cs = calls(src, "AesGcm256::new")
        if not cs or any(len(c) != 3 for c in cs):
            raise ParseError(nm)
        triple_list(nm, [(c[0], c[1], "EMPTY" if c[2] == 'b""' else c[2]) for c in cs])
    # counter fields: initial values and steps
    inits = re.findall(r"\b(current_ctr|current_chunk_number)\s*:\s*(\d+)\s*,", enc)
    steps = re.findall(r"self\.(current_ctr|current_chunk_number)\s*(\+=|-=|=)\s*(\d+)\s*;", enc)
    out.append("Definition ENC_CTR_INITS : list (string * N) := [%s]." % "; ".join("(%s, %s)" % (coq_str(a), b) for a, b in inits))
    out.append("Definition ENC_CTR_STEPS : list (string * string * N) := [%s]." % "; ".join("(%s, %s, %s)" % (coq_str(a), coq_str(o), b) for a, o, b in steps))
    # derive_key: D-H, then HKDF<hash>(salt, shared).expand(info) into [0u8; size]
    fb = find_fn_body(ecc, "derive_key")
    if not fb:
        raise ParseError("derive_key")
    body = fb[0]
    m_dh = re.search(r"let mut shared_secret = (\w+)\.diffie_hellman\((\w+)\);", body)
    m_h = re.search(r"let hkdf: Hkdf<(\w+)> = Hkdf::new\((\w+), shared_secret\.as_bytes\(\)\);", body)
    m_o = re.search(r"let mut output = \[0u8; (\w+)\];", body)
    m_e = re.search(r"hkdf\.expand\((\w+), &mut output\)\?;", body)
    m_r = re.search(r"Ok\(output\)\s*$", body.strip())
    if not (m_dh and m_h and m_o and m_e and m_r):
        raise ParseError("derive_key body")
    use = re.search(r"use\s+(\w+)::%s;" % m_h.group(1), ecc)
    str_list("DERIVE_KEY", [m_dh.group(1), m_dh.group(2), (use.group(1) + "::" if use else "") + m_h.group(1), m_h.group(2), m_e.group(1), m_o.group(1)])
    # layer stacking order, from the raw file upwards, in the three from_config functions
    bodies = all_fn_bodies(lib, "from_config")
    if len(bodies) != 3:
        raise ParseError("from_config x%d" % len(bodies))
    for nm, body in zip(("WRITER", "READER", "FAILSAFE"), bodies):
        tests = re.findall(r"if\s+config\.(?:is_layers_enabled|layers_enabled\.contains)\(Layers::(\w+)\)\s*\{\s*(\w+)\s*=\s*Box::new\((\w+)::new\(\s*(\w+)", body)
        if not tests or any(t[1] != t[3] for t in tests):
            raise ParseError("layer tests of " + nm)
        out.append("Definition %s_LAYER_ORDER : list N := [%s]." % (nm, "; ".join("LAYER_" + t[0] for t in tests)))
        str_list("%s_LAYER_TYPES" % nm, [t[2] for t in tests])
    # layouts (bincode serialises the fields in declaration order)
    for nm, src in (("KeyAndTag", ecc), ("MultiRecipientPersistent", ecc), ("EncryptionPersistentConfig", enc),
                    ("ArchivePersistentConfig", config), ("SizesInfo", comp), ("FileInfo", lib)):
        f = struct_fields(src, nm)
        out.append("Definition STRUCT_%s : list (string * string) := [%s]." % (nm, "; ".join("(%s, %s)" % (coq_str(a), coq_str(b)) for a, b in f)))
    # bincode options of the header and of the two footers
    out.append("Definition BINCODE_FIXINT_SITES : N := %d." % len(re.findall(r"\.with_fixint_encoding\(\)", lib)))
    out.append("Definition BINCODE_FIXINT_SITES_COMPRESS : N := %d." % len(re.findall(r"\.with_fixint_encoding\(\)", comp)))
    out.append("Definition BINCODE_VARINT_SITES : N := %d." % len(re.findall(r"\.with_varint_encoding\(\)", lib + comp)))
    m = re.search(r"let format_version = src\.read_u32::<(\w+)>\(\)\?;", lib)
    m2 = re.search(r"dest\.write_u32::<(\w+)>\(self\.format_version\)\?;", lib)
    str_list("VERSION_ENDIAN", [m.group(1) if m else "?", m2.group(1) if m2 else "?"])
    # work package hdrsrc: the ORDER of the source reads of ArchiveHeader::from (magic, version, then
    # the bounded fixint bincode deserialisation straight from the source, every failure of which
    # becomes DeserializationError) and of the writes of ArchiveHeader::dump
    mf = re.search(r"impl ArchiveHeader \{\s*pub fn from<T: Read>\(src: &mut T\)(.*?)\n    fn dump<T: Write>\(&self, dest: &mut T\)(.*?)\n\}\n", lib, re.S)
    if mf:
        toks = [("read_exact(magic)", r"vec!\[00u8; MLA_MAGIC\.len\(\)\];\s*src\.read_exact\(buf\.as_mut_slice\(\)\)\?;"),
                ("WrongMagic", r"if buf != MLA_MAGIC \{\s*return Err\(Error::WrongMagic\);"),
                ("read_u32", r"src\.read_u32::<\w+>\(\)\?;"),
                ("UnsupportedVersion", r"if format_version != MLA_FORMAT_VERSION \{\s*return Err\(Error::UnsupportedVersion\);"),
                ("with_limit(BINCODE_MAX_DESERIALIZE)", r"\.with_limit\(BINCODE_MAX_DESERIALIZE\)"),
                ("with_fixint_encoding", r"\.with_fixint_encoding\(\)"),
                ("deserialize_from(src)", r"\.deserialize_from\(src\)"),
                ("else=>DeserializationError", r"_ => \{\s*return Err\(Error::DeserializationError\);")]
        found = []
        for name, rx in toks:
            for mm in re.finditer(rx, mf.group(1)):
                found.append((mm.start(), name))
        str_list("HEADER_FROM_CALLS", [n for _, n in sorted(found)])
        out.append("Definition HEADER_FROM_SRC_USES : N := %d." % len(re.findall(r"\bsrc\b", mf.group(1))))
        toks = [("write_all(MLA_MAGIC)", r"dest\.write_all\(MLA_MAGIC\)\?;"), ("write_u32", r"dest\.write_u32::<\w+>\(self\.format_version\)\?;"),
                ("with_limit(BINCODE_MAX_DESERIALIZE)", r"\.with_limit\(BINCODE_MAX_DESERIALIZE\)"),
                ("with_fixint_encoding", r"\.with_fixint_encoding\(\)"), ("serialize_into(dest)", r"\.serialize_into\(dest, &self\.config\)")]
        found = []
        for name, rx in toks:
            for mm in re.finditer(rx, mf.group(2)):
                found.append((mm.start(), name))
        str_list("HEADER_DUMP_CALLS", [n for _, n in sorted(found)])
    else:
        out.append("Definition HEADER_FROM_CALLS_untranslatable : unit := tt.")


def keys_c19(out):
    """C19: constants and call shapes of `mlar keygen --seed` / `mlar keyderive` and of
    curve25519-parser's generate_keypair.  Fails closed like everything else here."""
    import codecs

    def blist(b):
        return "[%s]" % "; ".join(str(x) for x in b)

    def ident(name, val):
        out.append("Definition %s : list N := %s. (* %r *)" % (name, blist(val.encode()), val))

    def bad(name, why=""):
        if why:
            out.append("(* %s: %s *)" % (name, why))
        out.append("Definition %s_untranslatable : unit := tt." % name)

    out.append("(* mlar/src/main.rs keygen / apply_derive / keyderive (C19) *)")
    try:
        main_rs = strip_tests(read("mlar/src/main.rs"))
    except OSError as e:
        bad("C19_main_rs", str(e))
        return
    m = re.search(r"const\s+DERIVE_PATH_SALT\s*:\s*&\[u8;\s*(\d+)\]\s*=\s*b\"([^\"\\]*)\";", main_rs)
    if m and int(m.group(1)) == len(m.group(2)):
        out.append("Definition DERIVE_PATH_SALT : list N := %s. (* %r *)" % (blist(m.group(2).encode("ascii")), m.group(2)))
    else:
        bad("DERIVE_PATH_SALT")
    out.append("Section KeysKernels.")
    out.append("  Variable hash_digest : list N -> list N -> list N.   (* hash name -> data -> digest *)")
    out.append("  Variable hkdf_new_expand : list N -> option (list N) -> list N -> list N -> N -> list N.   (* hash name, salt, ikm, info, L *)")
    # keygen: hseed = [0u8; n]; hseed.copy_from_slice(&H::digest(seed.as_bytes())[a..b]); R::from_seed(hseed)
    fb = find_fn_body(main_rs, "keygen")
    ok = False
    if fb:
        body = re.sub(r"//[^\n]*", "", fb[0])
        m1 = re.search(r"let mut hseed = \[0u8; (\d+)\];\s*hseed\.copy_from_slice\(&(\w+)::digest\(seed\.as_bytes\(\)\)\[(\d+)\.\.(\d+)\]\);\s*(\w+)::from_seed\(hseed\)", body)
        m2 = re.search(r"let key_pair = generate_keypair\(&mut csprng\)", body)
        m3 = re.search(r"output_pub\s*\.write_all\(key_pair\.public_as_pem\(\)\.as_bytes\(\)\)", body)
        m4 = re.search(r"output_priv\s*\.write_all\(&key_pair\.private_der\)", body)
        if m1 and m2 and m3 and m4 and int(m1.group(4)) - int(m1.group(3)) == int(m1.group(1)):
            ok = True
            out.append("  (* mlar/src/main.rs:%d keygen: the generator seed *)" % fb[1])
            out.append("  Definition keygen_hseed (seed_as_bytes : list N) : list N * N * N :=\n    (hash_digest %s seed_as_bytes, %s, %s)." % (blist(m1.group(2).encode()), m1.group(3), m1.group(4)))
            out.append("  Definition KEYGEN_RNG : list N := %s. (* %r *)" % (blist(m1.group(5).encode()), m1.group(5)))
    if not ok:
        bad("  keygen_hseed", "keygen has not the expected shape")
    # apply_derive
    fb = find_fn_body(main_rs, "apply_derive")
    ok = False
    if fb:
        body = re.sub(r"//[^\n]*", "", fb[0])
        m1 = re.fullmatch(
            r"\s*let hkdf: Hkdf<(\w+)> = Hkdf::new\(Some\((\w+)\), &src\.to_bytes\(\)\);\s*"
            r"let mut seed = \[0u8; (\d+)\];\s*"
            r"hkdf\s*\.expand\(path\.as_bytes\(\), &mut seed\)\s*\.expect\(\"[^\"]*\"\);\s*"
            r"src\.zeroize\(\);\s*seed\s*", body)
        if m1 and m1.group(2) == "DERIVE_PATH_SALT":
            ok = True
            out.append("  (* mlar/src/main.rs:%d apply_derive *)" % fb[1])
            out.append("  Definition apply_derive (path_as_bytes src_to_bytes : list N) : list N :=\n    hkdf_new_expand %s (Some DERIVE_PATH_SALT) src_to_bytes path_as_bytes %s." % (blist(m1.group(1).encode()), m1.group(3)))
    if not ok:
        bad("  apply_derive", "apply_derive has not the expected shape")
    out.append("End KeysKernels.")
    # keyderive: the loop
    fb = find_fn_body(main_rs, "keyderive")
    ok = False
    if fb:
        body = re.sub(r"//[^\n]*", "", fb[0])
        m1 = re.search(r"let mut csprng = (\w+)::from_seed\(apply_derive\(path, secret\)\);\s*"
                       r"key_pair =\s*Some\(generate_keypair\(&mut csprng\)\.expect\(\"[^\"]*\"\)\);\s*"
                       r"secret = parse_openssl_25519_privkey\(&key_pair\.as_ref\(\)\.unwrap\(\)\.private_der\)\.unwrap\(\);", body)
        m2 = re.search(r"parse_openssl_25519_privkey\(&buf\)\.expect\(", body)
        m3 = re.search(r"output_pub\s*\.write_all\(key_pair\.public_as_pem\(\)\.as_bytes\(\)\)", body)
        m4 = re.search(r"output_priv\s*\.write_all\(&key_pair\.private_der\)", body)
        if m1 and m2 and m3 and m4:
            ok = True
            out.append("Definition KEYDERIVE_RNG : list N := %s. (* %r *)" % (blist(m1.group(1).encode()), m1.group(1)))
    if not ok:
        bad("KEYDERIVE_RNG", "keyderive has not the expected shape")
    m = re.search(r"^use rand_chacha::(\w+);", main_rs, re.M)
    if m:
        ident("RNG_IMPORT", m.group(1))
    else:
        bad("RNG_IMPORT")
    m = re.search(r"^use sha2::\{([^}]*)\};", main_rs, re.M)
    if m:
        ident("SHA2_IMPORT", ",".join(sorted(x.strip() for x in m.group(1).split(","))))
    else:
        bad("SHA2_IMPORT")
    out.append("(* curve25519-parser/src/lib.rs: export prefixes, generate_keypair *)")
    try:
        cp = strip_tests(read("curve25519-parser/src/lib.rs"))
    except OSError as e:
        bad("C19_lib_rs", str(e))
        return
    for nm in ("PRIV_KEY_PREFIX", "PUB_KEY_PREFIX"):
        m = re.search(r"const\s+%s\s*:\s*&\[u8\]\s*=\s*b\"((?:\\x[0-9a-fA-F]{2})*)\";" % nm, cp)
        if m:
            out.append("Definition %s : list N := %s." % (nm, blist(codecs.decode(m.group(1), "unicode_escape").encode("latin1"))))
        else:
            bad(nm)
    for nm in ("PRIV_KEY_TAG", "PUB_KEY_TAG"):
        m = re.search(r"const\s+%s\s*:\s*&str\s*=\s*\"([^\"\\]*)\";" % nm, cp)
        if m:
            ident(nm, m.group(1))
        else:
            bad(nm)
    fb = find_fn_body(cp, "generate_keypair")
    ok = False
    if fb:
        body = re.sub(r"//[^\n]*", "", fb[0])
        m1 = re.search(r"let mut private = \[0u8; (\d+)\];\s*csprng\.fill_bytes\(&mut private\);\s*"
                       r"let priv_key = StaticSecret::from\(private\);\s*let pubkey = PublicKey::from\(&priv_key\);", body)
        m2 = re.search(r"private_der\[\.\.PRIV_KEY_PREFIX\.len\(\)\]\.copy_from_slice\(PRIV_KEY_PREFIX\);\s*"
                       r"private_der\[PRIV_KEY_PREFIX\.len\(\)\.\.\]\.copy_from_slice\(&private\);", body)
        m3 = re.search(r"public_der\[\.\.PUB_KEY_PREFIX\.len\(\)\]\.copy_from_slice\(PUB_KEY_PREFIX\);\s*"
                       r"public_der\[PUB_KEY_PREFIX\.len\(\)\.\.\]\.copy_from_slice\(&public\[\.\.\]\);", body)
        if m1 and m2 and m3:
            ok = True
            out.append("Definition GENERATE_PRIVATE_LEN : N := %s. (* lib.rs:%d *)" % (m1.group(1), fb[1]))
    if not ok:
        bad("GENERATE_PRIVATE_LEN", "generate_keypair has not the expected shape")
    out.append("")


def main():
    out = []
    out.append("(* GENERATED by tools/src2v.py from %s — do not edit. *)" % REPO)
    out.append("From MLA Require Import Base.")
    out.append("From Coq Require Import String.")
    out.append("Open Scope N_scope.")
    out.append("")
    out.append("(* Vec::get *)")
    out.append("Fixpoint vec_get {A} (l : list A) (i : N) : option A :=")
    out.append("  match l with [] => None | x :: r => if i =? 0 then Some x else vec_get r (i - 1) end.")
    out.append("")
    env = {}

    aes = strip_tests(read("mla/src/crypto/aesgcm.rs"))
    enc = strip_tests(read("mla/src/layers/encrypt.rs"))
    comp = strip_tests(read("mla/src/layers/compress.rs"))
    lib = strip_tests(read("mla/src/lib.rs"))
    ecc = strip_tests(read("mla/src/crypto/ecc.rs"))

    out.append("(* mla/src/crypto/aesgcm.rs *)")
    consts(aes, ["BLOCK_SIZE", "TAG_LENGTH", "KEY_SIZE", "NONCE_AES_SIZE"], env, out)
    out.append("(* mla/src/layers/encrypt.rs *)")
    consts(enc, ["CIPHER_BUF_SIZE", "NONCE_SIZE", "CHUNK_SIZE"], env, out)
    # CHUNK_TAG_SIZE depends on the flavour
    m = re.search(r"const\s+CHUNK_TAG_SIZE\s*:\s*u64\s*=\s*CHUNK_SIZE\s*\+\s*TAG_LENGTH\s+as\s+u64\s*;", enc)
    if m and "CHUNK_SIZE_prod" in env and "TAG_LENGTH_prod" in env:
        out.append("Definition CHUNK_TAG_SIZE_prod : N := CHUNK_SIZE_prod + TAG_LENGTH_prod.")
        out.append("Definition CHUNK_TAG_SIZE_verif : N := CHUNK_SIZE_verif + TAG_LENGTH_verif.")
    else:
        out.append("Definition CHUNK_TAG_SIZE_untranslatable : unit := tt.")
    out.append("(* mla/src/layers/compress.rs *)")
    consts(comp, ["UNCOMPRESSED_DATA_SIZE", "DEFAULT_COMPRESSION_LEVEL", "BROTLI_LOG_WINDOW", "FAIL_SAFE_BUFFER_SIZE"], env, out)
    out.append("(* mla/src/lib.rs *)")
    consts(lib, ["MLA_FORMAT_VERSION", "FILENAME_MAX_SIZE", "BINCODE_MAX_DESERIALIZE", "CACHE_SIZE"], env, out)
    m = re.search(r"const\s+MLA_MAGIC\s*:\s*&\[u8;\s*3\]\s*=\s*b\"([^\"]*)\";", lib)
    if m:
        out.append("Definition MLA_MAGIC : list N := [%s]." % "; ".join(str(x) for x in m.group(1).encode()))
    else:
        out.append("Definition MLA_MAGIC_untranslatable : unit := tt.")
    # block type discriminants
    m = re.search(r"enum ArchiveFileBlockType\s*\{([^}]*)\}", lib)
    if m:
        for nm, val in re.findall(r"(\w+)\s*=\s*(0x[0-9A-Fa-f]+|\d+)", m.group(1)):
            out.append("Definition BT_%s : N := %d." % (nm, int(val, 0)))
    else:
        out.append("Definition BT_untranslatable : unit := tt.")
    for nm in ("ENCRYPT", "COMPRESS"):
        m = re.search(r"const %s = (0b[01_]+);" % nm, lib)
        if m:
            out.append("Definition LAYER_%s : N := %d." % (nm, int(m.group(1).replace("_", ""), 0)))
        else:
            out.append("Definition LAYER_%s_untranslatable : unit := tt." % nm)
    out.append("(* mla/src/crypto/ecc.rs *)")
    bytestr(ecc, "DERIVE_KEY_INFO", out)
    bytestr(ecc, "ECIES_NONCE", out)
    # ---- where the writer's secrets come from (C07): 1 = a ChaCha generator seeded by the OS
    out.append("(* entropy sources of the writer's secrets: 1 = drawn from ChaChaRng::from_os_rng() *)")

    def flag(name, ok):
        if ok:
            out.append("Definition %s : N := 1." % name)
        else:
            out.append("Definition %s : N := 0." % name)
    nc = lambda t: re.sub(r"//[^\n]*", "", t)
    try:
        m = re.search(r"impl\s+std::default::Default\s+for\s+EncryptionConfig\s*\{", enc)
        d = nc(find_fn_body(enc[m.start():], "default")[0])
        gens = re.findall(r"let\s+mut\s+(\w+)\s*=\s*([^;]+);", d)
        os_gens = [g for g, rhs in gens if rhs.strip() == "ChaChaRng::from_os_rng()"]
        key_src = re.search(r"let\s+key\s*=\s*(\w+)\.random::<Key>\(\)\s*;", d)
        nonce_src = re.search(r"let\s+nonce\s*=\s*(\w+)\.random::<\[u8;\s*NONCE_SIZE\]>\(\)\s*;", d)
        flag("ENTROPY_key_from_os_seeded_csprng", bool(key_src and key_src.group(1) in os_gens and len(gens) == len(os_gens)))
        flag("ENTROPY_nonce_from_os_seeded_csprng", bool(nonce_src and nonce_src.group(1) in os_gens and len(gens) == len(os_gens)))
    except Exception as e:  # fail closed
        out.append("(* EncryptionConfig::default: %s *)" % e)
        out.append("Definition ENTROPY_default_untranslatable : unit := tt.")
    try:
        tp = nc(find_fn_body(enc, "to_persistent")[0])
        g = re.findall(r"let\s+mut\s+(\w+)\s*=\s*([^;]+);", tp)
        call = re.search(r"store_key_for_multi_recipients\(\s*&self\.ecc_keys\s*,\s*&self\.key\s*,\s*&mut\s+(\w+)\s*\)", tp)
        flag("ENTROPY_wrap_rng_from_os", bool(call and [x for x in g if x[0] == call.group(1) and x[1].strip() == "ChaChaRng::from_os_rng()"]))
        sk = nc(find_fn_body(ecc, "store_key_for_multi_recipients")[0])
        e1 = re.search(r"let\s+mut\s+bytes\s*=\s*\[0u8;\s*32\]\s*;\s*csprng\.fill_bytes\(&mut\s+bytes\)\s*;\s*let\s+ephemeral\s*=\s*StaticSecret::from\(bytes\)\s*;", sk)
        e2 = re.search(r"let\s+public\s*=\s*PublicKey::from\(&ephemeral\)\s*;", sk)
        flag("ENTROPY_ephemeral_from_wrap_rng", bool(e1 and e2))
    except Exception as e:  # fail closed
        out.append("(* to_persistent / store_key_for_multi_recipients: %s *)" % e)
        out.append("Definition ENTROPY_wrap_untranslatable : unit := tt.")
    out.append("")

    # ---- kernels, parametric in the constants they mention
    out.append("(* ---- arithmetic kernels (checked subtraction = `csub site`) ---- *)")
    out.append("Section Kernels.")
    out.append("  Variables CHUNK_SIZE TAG_LENGTH CHUNK_TAG_SIZE UNCOMPRESSED_DATA_SIZE : N.")

    def kernel(src, fname, args, coqname, rel, line_off=0, ident_casts=()):
        fb = find_fn_body(src, fname) if src is not None else None
        if fb is None:
            out.append("  Definition %s_untranslatable : unit := tt." % coqname)
            return
        body, line = fb
        line += line_off
        try:
            g = translate_body(body, line, ident_casts)
            out.append("  (* %s:%d fn %s *)" % (rel, line, fname))
            typed = " ".join("(%s : %s)" % (a if isinstance(a, tuple) else (a, "N")) for a in args)
            out.append("  Definition %s %s : res N :=\n    %s." % (coqname, typed, g))
        except ParseError as e:
            out.append("  (* %s: %s *)" % (fname, e))
            out.append("  Definition %s_untranslatable : unit := tt." % coqname)

    kernel(enc, "no_tag_position_to_tag_position", ["position"], "no_tag_position_to_tag_position", "mla/src/layers/encrypt.rs")
    kernel(enc, "tag_position_to_no_tag_position", ["position"], "tag_position_to_no_tag_position", "mla/src/layers/encrypt.rs")

    # the SeekFrom::End arithmetic: the statements between `let end_inner_pos = ...;` and `let pos_adjusted`
    m = re.search(r"let end_inner_pos = self\.inner\.seek\(SeekFrom::End\(0\)\)\?;(.*?)let pos_adjusted", enc, re.S)
    if m:
        body = m.group(1).strip() + "\nend_pos"
        line = enc.count("\n", 0, m.start()) + 1
        try:
            g = translate_body(body, line)
            out.append("  (* mla/src/layers/encrypt.rs:%d SeekFrom::End arithmetic *)" % line)
            out.append("  Definition seek_end_pos (end_inner_pos : N) : res N :=\n    %s." % g)
        except ParseError as e:
            out.append("  (* seek_end_pos: %s *)" % e)
            out.append("  Definition seek_end_pos_untranslatable : unit := tt.")
    else:
        out.append("  Definition seek_end_pos_untranslatable : unit := tt.")

    # the SeekFrom::Current position: `let current = ...;`
    m = re.search(r"SeekFrom::Current\(value\) => \{(.*?)if value == 0", enc, re.S)
    if m:
        body = re.sub(r"//[^\n]*", "", m.group(1)).strip()
        line = enc.count("\n", 0, m.start()) + 1
        try:
            g = translate_body(body + "\ncurrent", line)
            out.append("  (* mla/src/layers/encrypt.rs:%d SeekFrom::Current position *)" % line)
            out.append("  Definition seek_cur_pos (self_current_chunk_number self_chunk_cache_position : N) : res N :=\n    %s." % g)
        except ParseError as e:
            out.append("  (* seek_cur_pos: %s *)" % e)
            out.append("  Definition seek_cur_pos_untranslatable : unit := tt.")
    else:
        out.append("  Definition seek_cur_pos_untranslatable : unit := tt.")

    # ---- compress.rs: impl SizesInfo (only that impl block is searched: the reader has a
    # method of the same name)
    m = re.search(r"impl SizesInfo\s*\{", comp)
    si_src, si_off = None, 0
    if m:
        depth, j = 0, m.end() - 1
        while j < len(comp):
            if comp[j] == "{":
                depth += 1
            elif comp[j] == "}":
                depth -= 1
                if depth == 0:
                    break
            j += 1
        si_src = comp[m.start():j + 1]
        si_off = comp.count("\n", 0, m.start())
    crel = "mla/src/layers/compress.rs"
    kernel(si_src, "uncompressed_block_size_at",
           [("self_compressed_sizes", "list N"), "self_last_block_size", "block_num"],
           "si_uncompressed_block_size_at", crel, si_off)
    kernel(si_src, "compressed_block_size_at", [("self_compressed_sizes", "list N"), "uncompressed_pos"],
           "si_compressed_block_size_at", crel, si_off, ident_casts=("usize::try_from",))
    kernel(si_src, "max_uncompressed_pos", [("self_compressed_sizes", "list N"), "self_last_block_size"],
           "si_max_uncompressed_pos", crel, si_off)

    # ---- compress.rs: the SeekFrom::End arm: end_pos.checked_sub(distance).ok_or_else(..)?
    try:
        m = re.search(r"SeekFrom::End\(pos\) => \{(.*?)\n                    \}\n                \}\n            \}\n            None =>", comp, re.S)
        if not m:
            raise ParseError("SeekFrom::End arm not found")
        arm = re.sub(r"//[^\n]*", "", m.group(1))
        line = comp.count("\n", 0, m.start()) + 1
        for need in (r"if pos > 0 \{\s*return Err\(Error::EndOfStream\.into\(\)\);\s*\}",
                     r"let end_pos = self\.sizes_info\.as_ref\(\)\.unwrap\(\)\.max_uncompressed_pos\(\);",
                     r"let distance_from_end = -pos;",
                     r"if distance_from_end >= 0 \{\s*self\.seek\(SeekFrom::Start\("):
            if not re.search(need, arm):
                raise ParseError("SeekFrom::End arm: missing " + need[:30])
        m2 = re.search(r"self\.seek\(SeekFrom::Start\(\s*(end_pos\s*\.checked_sub\(.*\)\?),\s*\)\)\s*\} else \{", arm, re.S)
        if not m2:
            raise ParseError("SeekFrom::End arm: target expression")
        g = translate_body(m2.group(1), line, ident_casts=("u64::try_from",))
        out.append("  (* %s:%d SeekFrom::End target (under pos <= 0, distance_from_end = -pos >= 0) *)" % (crel, line))
        out.append("  Definition comp_seek_end_target (end_pos distance_from_end : N) : res N :=\n    %s." % g)
    except ParseError as e:
        out.append("  (* comp_seek_end_target: %s *)" % e)
        out.append("  Definition comp_seek_end_target_untranslatable : unit := tt.")

    out.append("End Kernels.")
    out.append("")

    # ---- mlar: the Component match of get_extracted_path
    out.append("(* mlar/src/main.rs get_extracted_path: what each path component does *)")
    out.append("Inductive src_component := SPrefix | SRootDir | SCurDir | SParentDir | SNormal.")
    out.append("Inductive src_action := SSkip | SRefuse | SPush.")
    try:
        main_rs = read("mlar/src/main.rs")
        fb = find_fn_body(main_rs, "get_extracted_path")
        body = re.sub(r"//[^\n]*", "", fb[0])
        m = re.search(r"match part \{(.*)\}\s*\}\s*Some\(file_dst\)", body, re.S)
        arms_txt = m.group(1)
        # split arms: patterns "=>" body, body = balanced { ... } (string literals skipped) or up to ','
        arms = []
        i = 0
        while True:
            j = arms_txt.find("=>", i)
            if j < 0:
                break
            pats = arms_txt[i:j]
            k = j + 2
            while arms_txt[k].isspace():
                k += 1
            if arms_txt[k] == "{":
                depth, q, instr = 0, k, False
                while True:
                    ch = arms_txt[q]
                    if instr:
                        if ch == "\\":
                            q += 1
                        elif ch == '"':
                            instr = False
                    elif ch == '"':
                        instr = True
                    elif ch == "{":
                        depth += 1
                    elif ch == "}":
                        depth -= 1
                        if depth == 0:
                            break
                    q += 1
                rhs = arms_txt[k:q + 1]
                i = q + 1
            else:
                q = arms_txt.find(",", k)
                q = len(arms_txt) if q < 0 else q
                rhs = arms_txt[k:q]
                i = q + 1
            arms.append((pats, rhs))
        table = {}
        for pats, rhs in arms:
            rhs = rhs.strip()
            if re.fullmatch(r"\{\s*\}", rhs.strip()):
                act = "SSkip"
            elif "return None" in rhs:
                act = "SRefuse"
            elif re.search(r"file_dst\.push\(part\)", rhs):
                act = "SPush"
            else:
                raise ParseError("arm body " + rhs[:40])
            for pat in re.findall(r"Component::(\w+)", pats):
                table["S" + pat] = act
        names = ["SPrefix", "SRootDir", "SCurDir", "SParentDir", "SNormal"]
        if sorted(table) != sorted(names):
            raise ParseError("arms %s" % sorted(table))
        if not re.search(r"let mut file_dst = output_dir\.to_path_buf\(\);", body):
            raise ParseError("base is not output_dir")
        out.append("Definition component_action (c : src_component) : src_action :=\n  match c with %s end." % " | ".join("%s => %s" % (n, table[n]) for n in names))
    except Exception as e:  # fail closed
        out.append("(* get_extracted_path: %s *)" % e)
        out.append("Definition component_action_untranslatable : unit := tt.")
    out.append("")

    # ---- C06: format v1 facts that are not plain constants (tools/src2v.py: format_tie)
    try:
        format_tie(out, enc, ecc, lib, comp, read("mla/src/config.rs"))
    except Exception as e:  # fail closed
        out.append("(* format_tie: %s *)" % e)
        out.append("Definition format_tie_untranslatable : unit := tt.")
    out.append("")

    keys_c19(out)

    # ---- C17: mlar refuses to open an unencrypted archive when a private key is supplied
    out.append("(* mlar/src/main.rs: key policy of open_mla_file / readerconfig_from_matches; 1 = as documented *)")
    try:
        mrs = read("mlar/src/main.rs")
        rc = re.sub(r"//[^\n]*", "", find_fn_body(mrs, "readerconfig_from_matches")[0])
        om = re.sub(r"//[^\n]*", "", find_fn_body(mrs, "open_mla_file")[0])
        k1 = re.search(r"if\s+matches\.contains_id\(\"private_keys\"\)\s*\{.*config\.add_private_keys\(&private_keys\)\s*;\s*config\.layers_enabled\.insert\(Layers::ENCRYPT\)\s*;\s*\}", rc, re.S)
        k2 = re.search(r"if\s+config\.layers_enabled\.contains\(Layers::ENCRYPT\)\s*&&\s*!header\.config\.layers_enabled\.contains\(Layers::ENCRYPT\)\s*\{[^}]*return\s+Err\(MlarError::PrivateKeyProvidedButNotUsed\)\s*;\s*\}", om, re.S)
        k3 = om.find("ArchiveHeader::from(&mut file)") >= 0 and om.find("ArchiveReader::from_config(file, config)") > om.find("PrivateKeyProvidedButNotUsed")
        out.append("Definition CLI_key_sets_encrypt_expectation : N := %d." % (1 if k1 else 0))
        out.append("Definition CLI_refuses_key_on_unencrypted_before_reading : N := %d." % (1 if (k2 and k3) else 0))
    except Exception as e:  # fail closed
        out.append("(* open_mla_file: %s *)" % e)
        out.append("Definition CLI_key_policy_untranslatable : unit := tt.")
    out.append("")
    # ---- work package cli17: order of "input archive opened" (1) / "output created" (2) events per command
    out.append("(* mlar/src/main.rs: per command function, in source order, 1 = open_mla_file / open_failsafe_mla_file,")
    out.append("   2 = an output is created (writer_from_matches, destination_from_output_argument, fs::create_dir, create_file) *)")
    try:
        mrs = read("mlar/src/main.rs")
        nc = lambda s: re.sub(r"//[^\n]*", "", s)
        # the helpers must be what the event names say they are
        wfm = nc(find_fn_body(mrs, "writer_from_matches")[0])
        dfo = nc(find_fn_body(mrs, "destination_from_output_argument")[0])
        mcf = re.search(r"\nfn create_file<.*?\n\}\n", mrs, re.S)   # generic bounds nest <>: find_fn_body does not apply
        if not mcf:
            raise ParseError("create_file not found")
        crf = nc(mcf.group(0))
        omf = nc(find_fn_body(mrs, "open_mla_file")[0])
        ofs = nc(find_fn_body(mrs, "open_failsafe_mla_file")[0])
        if not ("destination_from_output_argument(output)?" in wfm and wfm.find("destination_from_output_argument") < wfm.find("ArchiveWriter::from_config")):
            raise ParseError("writer_from_matches: output creation not found before ArchiveWriter::from_config")
        if "File::create(path)?" not in dfo or 'as_os_str() == "-"' not in dfo:
            raise ParseError("destination_from_output_argument: unexpected shape")
        if "File::create(&extracted_path)" not in crf:
            raise ParseError("create_file: File::create not found")
        if not ("File::open(path)?" in omf and "ArchiveReader::from_config(file, config)" in omf):
            raise ParseError("open_mla_file: unexpected shape")
        if not ("File::open(path)?" in ofs and "ArchiveFailSafeReader::from_config(file, config)" in ofs):
            raise ParseError("open_failsafe_mla_file: unexpected shape")
        # open_failsafe_mla_file (repair 9ea79db): header read, then the key-policy test returning
        # PrivateKeyProvidedButNotUsed, then rewind, and only then ArchiveFailSafeReader::from_config
        r2 = re.search(r"if\s+config\.layers_enabled\.contains\(Layers::ENCRYPT\)\s*&&\s*!header\.config\.layers_enabled\.contains\(Layers::ENCRYPT\)\s*\{[^}]*return\s+Err\(MlarError::PrivateKeyProvidedButNotUsed\)\s*;\s*\}", ofs, re.S)
        i_hdr, i_pol, i_rew, i_cfg = (ofs.find("ArchiveHeader::from(&mut file)"), ofs.find("PrivateKeyProvidedButNotUsed"),
                                      ofs.find("file.rewind()?"), ofs.find("ArchiveFailSafeReader::from_config(file, config)"))
        r3 = 0 <= i_hdr < i_pol < i_rew < i_cfg and "readerconfig_from_matches(matches)" in ofs
        out.append("Definition CLI_repair_refuses_key_on_unencrypted_before_reading : N := %d." % (1 if (r2 and r3) else 0))
        # add_file_to_tar (repair 6302e72): the dry run on a scratch builder, with `?`, before the real append_data
        aft = nc(find_fn_body(mrs, "add_file_to_tar")[0])
        i_dry = aft.find("Builder::new(io::sink()).append_data(&mut header.clone(), &filename, io::empty())?;")
        i_real = aft.find("tar_file.append_data(&mut header, &filename, sub_file.data)")
        out.append("Definition CLI_to_tar_dry_run_before_append : N := %d." % (1 if 0 <= i_dry < i_real else 0))
        toks = [(r"\bopen_mla_file\(", 1), (r"\bopen_failsafe_mla_file\(", 1), (r"\bwriter_from_matches\(", 2),
                (r"\bdestination_from_output_argument\(", 2), (r"\bfs::create_dir\(", 2), (r"\bcreate_file\(", 2),
                (r"\bFile::create\(", 2)]
        rows = []
        for fn in ("create", "list", "extract", "cat", "to_tar", "repair", "convert"):
            fb = find_fn_body(mrs, fn)
            if fb is None:
                raise ParseError("command function %s not found" % fn)
            body = nc(fb[0])
            ev = sorted((m.start(), code) for pat, code in toks for m in re.finditer(pat, body))
            rows.append((fn, [c for _, c in ev]))
        out.append("Definition CLI_EVENTS : list (list N * list N) := [%s]." % "; ".join(
            "([%s], [%s])" % ("; ".join(str(b) for b in fn.encode()), "; ".join(str(c) for c in ev)) for fn, ev in rows))
        # cat (non-glob arm): a name that is not found is reported and the loop goes on, no error returned
        catb = nc(find_fn_body(mrs, "cat")[0])
        k4 = re.search(r"Ok\(None\)\s*=>\s*\{\s*eprintln!\(\" \[!\] File not found: [^;]*;\s*\}", catb)
        out.append("Definition CLI_cat_missing_name_continues : N := %d." % (1 if k4 else 0))
        # to_tar: an add_file_to_tar error is reported and swallowed; the function ends with Ok(())
        ttb = nc(find_fn_body(mrs, "to_tar")[0])
        k5 = re.search(r"if let Err\(err\) = add_file_to_tar\(&mut tar_file, sub_file\)\s*\{\s*eprintln!\([^;]*;\s*\}\s*\}\s*Ok\(\(\)\)\s*$", ttb.strip())
        out.append("Definition CLI_to_tar_swallows_add_errors : N := %d." % (1 if k5 else 0))
        # tar crate version pinned by Cargo.lock (Tar.v models 0.4.44)
        lock = read("Cargo.lock")
        mt = re.search(r'name = "tar"\s*\nversion = "(\d+)\.(\d+)\.(\d+)"', lock)
        if not mt:
            raise ParseError("tar crate not found in Cargo.lock")
        out.append("Definition TAR_CRATE_VERSION : list N := [%s; %s; %s]." % mt.groups())
    except Exception as e:  # fail closed
        out.append("(* cli17 events: %s *)" % e)
        out.append("Definition CLI_events_untranslatable : unit := tt.")
    out.append("")

    # ---- work package info: `mlar info` — ArchiveInfoReader::from_config makes the calls of
    # ArchiveReader::from_config in the same order (C11), the reader is built only when the archive
    # is compressed, the sums / the rate expression / the printed lines (C17)
    out.append("(* mlar/src/main.rs info / ArchiveInfoReader; mla/src/lib.rs ArchiveReader::from_config *)")
    try:
        nc = lambda t: re.sub(r"//[^\n]*", "", t)
        mrs = read("mlar/src/main.rs")
        lib_rs = read("mla/src/lib.rs")
        m_info = re.search(r"impl ArchiveInfoReader \{(.*?)\n\}\n", mrs, re.S)
        if not m_info:
            raise ParseError("impl ArchiveInfoReader not found")
        ifc = find_fn_body(m_info.group(1), "from_config")
        rbodies = all_fn_bodies(lib_rs, "from_config")
        if ifc is None or len(rbodies) != 3:
            raise ParseError("from_config bodies")

        def open_events(body, kind):
            """statement by statement; anything unexpected raises (fail closed)"""
            t = nc(body).strip()
            ev, order, types = [], [], []

            def eat(pat, code=None):
                nonlocal t
                m = re.match(pat, t, re.S)
                if not m:
                    raise ParseError("%s from_config: expected /%s/ at %r" % (kind, pat[:50], t[:60]))
                t = t[m.end():].lstrip()
                if code is not None:
                    ev.append(code)
                return m
            eat(r"src\.rewind\(\)\?;", 1)
            eat(r"let header = ArchiveHeader::from\(&mut src\)\?;", 2)
            eat(r"config\.load_persistent\(header\.config\)\?;", 3)
            eat(r"let mut raw_src = Box::new\(RawLayerReader::new\(src\)\);", 4)
            eat(r"raw_src\.reset_position\(\)\?;", 5)
            eat(r"let mut src: Box<dyn '\w+ \+ LayerReader<'\w+, R>> = raw_src;", 6)
            m = eat(r"if config\.layers_enabled\.contains\(Layers::(\w+)\) \{\s*src = Box::new\((\w+)::new\(src, &config\.encrypt\)\?\);\s*\}")
            ev.append(10 + {"ENCRYPT": 1, "COMPRESS": 2}[m.group(1)]); order.append(m.group(1)); types.append(m.group(2))
            if kind == "READER":
                m = eat(r"if config\.layers_enabled\.contains\(Layers::(\w+)\) \{\s*src = Box::new\((\w+)::new\(src\)\?\);\s*\}")
                ev.append(10 + {"ENCRYPT": 1, "COMPRESS": 2}[m.group(1)]); order.append(m.group(1)); types.append(m.group(2))
                eat(r"src\.initialize\(\)\?;", 7)
                csz = 0
            else:
                # then-branch: new on src, initialize of the NEW top layer, the size, src = the new layer;
                # else-branch: initialize of the top layer.  Either way: [new if COMPRESS]; initialize(top)
                m = eat(r"let compressed_size = if config\.layers_enabled\.contains\(Layers::(\w+)\) \{\s*"
                        r"let mut src_compress = Box::new\((\w+)::new\(src\)\?\);\s*"
                        r"src_compress\.initialize\(\)\?;\s*"
                        r"let size = src_compress\s*\.sizes_info\s*\.as_ref\(\)\s*\.map\(mla::layers::compress::SizesInfo::get_compressed_size\);\s*"
                        r"src = src_compress;\s*size\s*\} else \{\s*src\.initialize\(\)\?;\s*None\s*\};")
                ev.append(10 + {"ENCRYPT": 1, "COMPRESS": 2}[m.group(1)]); order.append(m.group(1)); types.append(m.group(2))
                ev.append(7)
                csz = 1
            eat(r"let metadata = Some\(ArchiveFooter::deserialize_from\(&mut src\)\?\);", 8)
            eat(r"src\.rewind\(\)\?;", 9)
            if kind == "READER":
                eat(r"Ok\(ArchiveReader \{\s*config,\s*src,\s*metadata,\s*\}\)$")
            else:
                eat(r"Ok\(Self \{\s*config,\s*compressed_size,\s*metadata,\s*\}\)$")
            return ev, order, types, csz
        rev, rorder, rtypes, _ = open_events(rbodies[1], "READER")
        iev, iorder, itypes, icsz = open_events(ifc[0], "INFO")
        out.append("Definition READER_OPEN_EVENTS : list N := [%s]." % "; ".join(map(str, rev)))
        out.append("Definition INFO_OPEN_EVENTS : list N := [%s]." % "; ".join(map(str, iev)))
        out.append("Definition INFO_LAYER_ORDER : list N := [%s]." % "; ".join("LAYER_" + x for x in iorder))
        out.append("Definition INFO_LAYER_TYPES : list string := [%s]." % "; ".join(coq_str(x) for x in itypes))
        out.append("Definition INFO_compressed_size_from_sizes_info : N := %d." % icsz)
        # get_files_size, get_compressed_size, count_keys
        gfs = nc(find_fn_body(m_info.group(1), "get_files_size")[0])
        k1 = re.search(r"if let Some\(ArchiveFooter \{ files_info, \.\. \}\) = &self\.metadata \{\s*Ok\(files_info\.values\(\)\.map\(\|f\| f\.size\)\.sum\(\)\)", gfs)
        comp_rs = read("mla/src/layers/compress.rs")
        gcs = nc(find_fn_body(comp_rs, "get_compressed_size")[0]).strip()
        k2 = gcs == "self.compressed_sizes.iter().map(|v| u64::from(*v)).sum()"
        ecc_rs = read("mla/src/crypto/ecc.rs")
        k3 = nc(find_fn_body(ecc_rs, "count_keys")[0]).strip() == "self.encrypted_keys.len()"
        out.append("Definition INFO_sums_as_modelled : N := %d." % (1 if (k1 and k2 and k3) else 0))
        # info: the reader is built only under `if compression`, from readerconfig_from_matches (no key policy test)
        ib = nc(find_fn_body(mrs, "info")[0])
        k4 = re.search(r"let header = ArchiveHeader::from\(&mut file\)\?;\s*"
                       r"let encryption = header\.config\.layers_enabled\.contains\(Layers::ENCRYPT\);\s*"
                       r"let compression = header\.config\.layers_enabled\.contains\(Layers::COMPRESS\);\s*"
                       r"let mla = if compression \{\s*let config = readerconfig_from_matches\(matches\);\s*"
                       r"Some\(ArchiveInfoReader::from_config\(file, config\)\?\)\s*\} else \{\s*None\s*\};", ib)
        out.append("Definition INFO_reader_only_if_compression : N := %d." % (1 if (k4 and "PrivateKeyProvidedButNotUsed" not in ib) else 0))
        k5 = re.search(r"let compression_rate = output_size as f64 / compressed_size as f64;", ib)
        out.append("Definition INFO_rate_is_f64_division : N := %d." % (1 if k5 else 0))
        # the printed lines, in source order, with the condition that guards each (0 = none, 1 = encryption && verbose,
        # 2 = compression && verbose): the text up to the first `{`
        prints = []
        guard = 0
        for m in re.finditer(r"if (encryption|compression) && matches\.get_flag\(\"verbose\"\) \{|println!\(\s*\"([^\"]*)\"|\n    \}", ib):
            if m.group(1):
                guard = 1 if m.group(1) == "encryption" else 2
            elif m.group(2) is not None:
                prints.append((guard, m.group(2)))
            else:
                guard = 0
        if len(prints) != 5:
            raise ParseError("info: %d println! found" % len(prints))
        out.append("Definition INFO_PRINTS : list (N * list N * list N) := [%s]." % "; ".join(
            "(%d, [%s], [%s])" % (g, "; ".join(str(b) for b in f.split("{")[0].encode()), "; ".join(str(b) for b in ("{" + f.split("{", 1)[1]).encode()))
            for g, f in prints))
        # the expect sites
        exp = re.findall(r"\.expect\(\"([^\"]*)\"\)", ib)
        out.append("Definition INFO_EXPECTS : N := %d." % len(exp))
    except Exception as e:  # fail closed
        out.append("(* mlar info: %s *)" % e)
        out.append("Definition INFO_untranslatable : unit := tt.")
    # ---- work package extract: the on-demand writer pool of `mlar extract` (C16 / C12)
    out.append("(* mlar/src/main.rs: FileWriter pool — capacity, open flags of the miss path, order put / get_mut / write,")
    out.append("   the pre-pass of `extract` (create_file for every name, handle dropped) before linear_extract *)")
    try:
        mrs = read("mlar/src/main.rs")
        nc = lambda s: re.sub(r"//[^\n]*", "", s)
        mcap = re.search(r"\bconst\s+FILE_WRITER_POOL_SIZE\s*:\s*usize\s*=\s*([0-9_]+)\s*;", mrs)
        if not mcap:
            raise ParseError("FILE_WRITER_POOL_SIZE not found")
        mw = re.search(r"impl\s+Write\s+for\s+FileWriter<'_>\s*\{\s*fn\s+write\(&mut self,\s*buf:\s*&\[u8\]\)\s*->\s*io::Result<usize>\s*\{(.*?)\n    \}\n", mrs, re.S)
        if not mw:
            raise ParseError("impl Write for FileWriter: write not found")
        wb = nc(mw.group(1))
        mo = re.search(r"if\s+!cache\.contains\(&self\.path\)\s*\{\s*let\s+file\s*=\s*fs::OpenOptions::new\(\)((?:\s*\.\s*\w+\(\s*\w+\s*\))*)\s*\.\s*open\(&self\.path\)\?\s*;\s*cache\.put\(self\.path\.clone\(\),\s*file\)\s*;", wb, re.S)
        if not mo:
            raise ParseError("FileWriter::write: miss path (contains / OpenOptions / put) has an unexpected shape")
        flags = re.findall(r"\.\s*(\w+)\(\s*(\w+)\s*\)", mo.group(1))
        if any(v not in ("true", "false") for _, v in flags):
            raise ParseError("FileWriter::write: OpenOptions flag with a non-literal argument")
        on = sorted(n for n, v in flags if v == "true")
        i_put, i_get, i_wr = wb.find("cache.put("), wb.find("cache.get_mut(&self.path).unwrap()"), wb.find("file.write(buf)")
        order_ok = 0 <= i_put < i_get < i_wr and wb.count("OpenOptions") == 1 and "File::create" not in wb and "set_len" not in wb and "seek" not in wb.lower()
        exb = nc(find_fn_body(mrs, "extract")[0])
        mlin = re.search(r"if\s+matches!\(file_name_matcher,\s*ExtractFileNameMatcher::Anything\)\s*\{(.*?)return\s+Ok\(linear_extract\(&mut mla,\s*&mut export\)\?\)\s*;\s*\}", exb, re.S)
        if not mlin:
            raise ParseError("extract: whole-archive arm not found")
        lin = mlin.group(1)
        mpre = re.search(r"for\s+fname\s+in\s+&iter\s*\{\s*if\s+let\s+Some\(\((\w+),\s*path\)\)\s*=\s*create_file\(&output_dir,\s*fname\)\?\s*\{\s*export\.insert\(\s*fname,\s*FileWriter\s*\{([^}]*)\}\s*,?\s*\)\s*;\s*\}\s*\}\s*$", lin.strip(), re.S)
        cache_ok = re.search(r"LruCache::new\(\s*NonZeroUsize::new\(FILE_WRITER_POOL_SIZE\)\.unwrap\(\)\s*,?\s*\)", lin) is not None
        if not cache_ok:
            raise ParseError("extract: the cache is not LruCache::new(NonZeroUsize::new(FILE_WRITER_POOL_SIZE))")
        i_list, i_sort = exb.find("mla.list_files()?"), exb.find("iter.sort()")
        prepass = mpre is not None and 0 <= i_list < i_sort < exb.find("ExtractFileNameMatcher::Anything)")
        fields = sorted(x.strip().split(":")[0].strip() for x in (mpre.group(2).split(",") if mpre else []) if x.strip())
        mst = re.search(r"struct\s+FileWriter<'a>\s*\{(.*?)\n\}", mrs, re.S)
        sfields = sorted(re.findall(r"^\s*(\w+)\s*:", nc(re.sub(r"///[^\n]*", "", mst.group(1))), re.M)) if mst else []
        dropped = (mpre is not None and mpre.group(1).startswith("_") and fields == ["cache", "fname", "path", "verbose"]
                   and sfields == ["cache", "fname", "path", "verbose"])
        out.append("Definition FILE_WRITER_POOL_SIZE : N := %d." % int(mcap.group(1).replace("_", "")))
        out.append("Definition POOL_reopen_flags : list (list N) := [%s]." % "; ".join("[%s]" % "; ".join(str(b) for b in n.encode()) for n in on))
        out.append("Definition POOL_miss_then_put_then_get_mut : bool := %s." % ("true" if order_ok else "false"))
        out.append("Definition EXTRACT_prepass_create_file_for_every_name_before_linear_extract : bool := %s." % ("true" if prepass else "false"))
        out.append("Definition EXTRACT_prepass_handle_dropped : bool := %s." % ("true" if dropped else "false"))
    except Exception as e:  # fail closed
        out.append("(* extract pool: %s *)" % str(e).replace("*)", "* )"))
        out.append("Definition POOL_untranslatable : unit := tt.")
    out.append("")

    # ---- C bindings: MLAStatus discriminants and the null checks of every entry point (C20)
    out.append("(* bindings/C/src/lib.rs *)")
    try:
        capi = read("bindings/C/src/lib.rs")
        m = re.search(r"#\[repr\(u64\)\]\s*pub enum MLAStatus\s*\{(.*?)\n\}", capi, re.S)
        if not m:
            raise ParseError("enum MLAStatus not found")
        body = re.sub(r"//[^\n]*", "", m.group(1))
        items = re.findall(r"(\w+)\s*=\s*(0x[0-9A-Fa-f_]+|\d+)\s*,", body)
        if not items or len(items) != len([l for l in body.split("\n") if l.strip()]):
            raise ParseError("MLAStatus: unexpected variant syntax")
        out.append("Definition MLA_STATUS : list (list N * N) := [%s]." % "; ".join(
            "([%s], %d)" % ("; ".join(str(b) for b in nm.encode()), int(v.replace("_", ""), 0)) for nm, v in items))
        # per function (source order): number of `.is_null()` tests and `None => return BadAPIArgument` arms
        fns = list(re.finditer(r"\nfn (mla_\w+)|\npub extern \"C\" fn (mla_\w+)", capi))
        rows = []
        for i, fm in enumerate(fns):
            end = fns[i + 1].start() if i + 1 < len(fns) else len(capi)
            fbody = capi[fm.start():end]
            n = len(re.findall(r"\.is_null\(\)", fbody)) + len(re.findall(r"None => return MLAStatus::BadAPIArgument", fbody))
            rows.append((fm.group(1) or fm.group(2), n))
        out.append("Definition CAPI_NULLCHECKS : list (list N * N) := [%s]." % "; ".join(
            "([%s], %d)" % ("; ".join(str(b) for b in nm.encode()), n) for nm, n in rows))
    except Exception as e:  # fail closed
        out.append("(* C bindings: %s *)" % e)
        out.append("Definition MLA_STATUS_untranslatable : unit := tt.")
    out.append("")

    # ---- C bindings, reading side (C20, work package capiread): the whence codes of the three
    # SeekFrom arms, the u32 clamp of the read adapter, `iter.sort()` before the callback loop
    try:
        capi = read("bindings/C/src/lib.rs")
        m = re.search(r"impl Seek for CallbackInputRead \{(.*?)\n\}\n", capi, re.S)
        if not m:
            raise ParseError("impl Seek for CallbackInputRead not found")
        sbody = m.group(1)
        w0 = re.search(r"SeekFrom::Start\(n\) => \(\s*(\d+),\s*i64::try_from\(n\)", sbody)
        w1 = re.search(r"SeekFrom::Current\(n\) => \((\d+), n\)", sbody)
        w2 = re.search(r"SeekFrom::End\(n\) => \((\d+), n\)", sbody)
        if not (w0 and w1 and w2) or len(re.findall(r"SeekFrom::\w+\(n\) =>", sbody)) != 3:
            raise ParseError("SeekFrom arms of CallbackInputRead::seek")
        m = re.search(r"impl Read for CallbackInputRead \{(.*?)\n\}\n", capi, re.S)
        if not m:
            raise ParseError("impl Read for CallbackInputRead not found")
        cl = re.search(r"let len = u32::try_from\(buf\.len\(\)\)\.map_or\(u32::MAX - (\d+), \|n\| n\);", m.group(1))
        if not cl or not re.search(r"\n\s*0 => Ok\(len_read as usize\),", m.group(1)):
            raise ParseError("clamp / Ok arm of CallbackInputRead::read")
        m = re.search(r"\nfn mla_roarchive_extract_internal.*?\n\}\n", capi, re.S)
        if not m:
            raise ParseError("mla_roarchive_extract_internal not found")
        xb = m.group(0)
        i_sort, i_loop = xb.find("iter.sort();"), xb.find("for fname in &iter")
        if i_loop < 0:
            raise ParseError("callback loop of mla_roarchive_extract_internal")
        out.append("Definition CAPI_SEEK_WHENCE : list N := [%s; %s; %s]." % (w0.group(1), w1.group(1), w2.group(1)))
        out.append("Definition CAPI_READ_CLAMP : N := %d." % (2 ** 32 - 1 - int(cl.group(1))))
        out.append("Definition CAPI_SORT_BEFORE_CALLBACKS : bool := %s." % ("true" if 0 <= i_sort < i_loop else "false"))
    except Exception as e:  # fail closed
        out.append("(* C bindings, reading side: %s *)" % e)
        out.append("Definition CAPI_READ_SIDE_untranslatable : unit := tt.")
    out.append("")

    text = "\n".join(out) + "\n"
    outp = os.path.normpath(OUT)
    os.makedirs(os.path.dirname(outp), exist_ok=True)
    old = None
    if os.path.exists(outp):
        with open(outp) as f:
            old = f.read()
    if old != text:
        with open(outp, "w") as f:
            f.write(text)
        print("src2v: wrote", outp)
    else:
        print("src2v: unchanged", outp)


def main2():
    """second part of Tie A (decision logic): tools/src2v2.py -> coq/gen/Src2.v; fails closed as a whole"""
    sys.path.insert(0, os.path.dirname(os.path.abspath(__file__)))
    try:
        import src2v2
        src2v2.main()
    except Exception as e:  # fail closed: the lemmas of SrcTie2*.v stop compiling
        outp = os.environ.get("VERIF_SRC2_OUT") or os.path.join(os.path.dirname(os.path.normpath(OUT)), "Src2.v")
        with open(outp, "w") as f:
            f.write("(* GENERATED: tools/src2v2.py failed: %s *)\nDefinition src2_untranslatable : unit := tt.\n" % str(e).replace("*)", "* )"))
        print("src2v2: FAILED", e)


def main3():
    """third part of Tie A (work package c07rng: entropy sites, what reaches the encryption layer's inner
    writer): tools/src2v3_fresh.py -> coq/gen/Src3.v; fails closed as a whole"""
    sys.path.insert(0, os.path.dirname(os.path.abspath(__file__)))
    try:
        import src2v3_fresh
        src2v3_fresh.main()
    except Exception as e:  # fail closed: the lemmas of SrcTie3Fresh.v stop compiling
        outp = os.environ.get("VERIF_SRC3_OUT") or os.path.join(os.path.dirname(os.path.normpath(OUT)), "Src3.v")
        with open(outp, "w") as f:
            f.write("(* GENERATED: tools/src2v3_fresh.py failed: %s *)\nDefinition src3_untranslatable : unit := tt.\n" % str(e).replace("*)", "* )"))
        print("src2v3_fresh: FAILED", e)


def main3r():
    """Tie A level 1 for the repair loop: tools/src2v3_repair.py -> coq/gen/Src3r.v (fails closed inside)"""
    sys.path.insert(0, os.path.dirname(os.path.abspath(__file__)))
    import src2v3_repair
    src2v3_repair.main(os.environ.get("VERIF_REPO", "/repo"),
                       os.environ.get("VERIF_SRC3R_OUT") or os.path.join(os.path.dirname(os.path.normpath(OUT)), "Src3r.v"))


if __name__ == "__main__":
    main()
    main2()
    import src2v3_block  # work package blockT: coq/gen/Src3b.v (ArchiveFileBlock::from, fails closed per item)
    src2v3_block.main()
    import src2v3_reader  # work package readerT: coq/gen/Src3d.v (fails closed per item)
    src2v3_reader.main()
    main3()
    main3r()
    import src2v3_linear  # work package linearT: coq/gen/Src3l.v (helpers::linear_extract, StreamWriter; fails closed per item)
    src2v3_linear.main()
    import src2v3_cli  # work package linearT: coq/gen/Src3x.v (mlar extraction path; fails closed per item)
    src2v3_cli.main()
    import src2v3_capi  # work package capiT: coq/gen/Src3a.v (C interface, fails closed per item)
    src2v3_capi.main()
    import src2v3_keys  # work package capiT: coq/gen/Src3k.v (curve25519-parser, fails closed per item)
    src2v3_keys.main()
    import src2v3_enc  # work package encT: coq/gen/Src3e.v, reading side of the encryption layer (fails closed per item)
    src2v3_enc.main()
    import src2v3_cmds  # work package cmdsT: coq/gen/Src3m.v (mlar commands other than extract, keygen, keyderive; fails closed per item)
    src2v3_cmds.main()
    import src2v3_comp  # work package compT: coq/gen/Src3c.v (compress.rs, fails closed per item)
    src2v3_comp.main()
    import src2v3_crypto  # work package cryptoT: coq/gen/Src3g.v (aesgcm.rs, ecc.rs; fails closed per item)
    src2v3_crypto.main()
    import src2v3_encw  # work package encW: coq/gen/Src3w.v (writer side of the encryption layer over the translated AesGcm256; fails closed per item)
    src2v3_encw.main()
    import src2v3_header  # work package blockT/B: coq/gen/Src3h.v (ArchiveHeader::{from, dump}, bincode reader from the struct definitions; fails closed per item)
    src2v3_header.main()
    import src2v3_cfg  # work package cfgT: coq/gen/Src3f.v (config.rs builders, the three from_config; fails closed per item)
    src2v3_cfg.main()
