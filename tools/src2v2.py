#!/usr/bin/env python3
"""Tie A, second part: regenerate coq/gen/Src2.v from /repo's working tree.

Where tools/src2v.py translates constants and arithmetic kernels, this file translates the
DECISION LOGIC of a list of functions: guard order, early returns, match arms, state updates,
loop bounds.  Function bodies are parsed by tools/rustmini.py (a real recursive-descent parser
for the Rust subset these functions use) and then

  (1) `ArchiveWriter` methods, the two state-check macros (expanded at their call sites) and
      `ArchiveFileBlock::dump` are translated statement by statement into Gallina over a record
      mirroring the Rust struct (HashMap = association list, Vec = list, Sha256 state = bytes
      absorbed).  theories/SrcTie2.v proves a simulation with the hand-written Writer model.
  (2) small pure pieces (TryFrom<u8>, size computations, counter steps, config bit operations)
      become Gallina functions proved equal to the model's.
  (3) for the large state machines the body is flattened into its ordered list of EVENTS
      (guards with their translated outcome, calls, assignments, arm heads) and SrcTie2.v
      proves order / shape facts that the model relies on.

FAILS CLOSED: whatever is not recognised raises and the item becomes
`Definition <name>_untranslatable : unit := tt.`; the lemma naming the real item stops compiling.
A harmless rewrite of a translated function may break the lemma too: accepted.
"""
import os
import re
import sys

sys.path.insert(0, os.path.dirname(os.path.abspath(__file__)))
import rustmini as R  # noqa: E402
from rustmini import ParseError, strip_paren, show  # noqa: E402

REPO = os.environ.get("VERIF_REPO", "/repo")
OUT = os.environ.get("VERIF_SRC2_OUT") or os.path.join(os.path.dirname(os.path.abspath(__file__)), "..", "coq", "gen", "Src2.v")


def read(rel):
    with open(os.path.join(REPO, rel), encoding="utf-8") as f:
        return f.read()


def strip_tests(src):
    i = src.find("#[cfg(test)]\nmod tests")
    if i < 0:
        i = src.find("#[cfg(test)]\npub(crate) mod tests")
    return src if i < 0 else src[:i]


def coq_str(x):
    return '"%s"%%string' % x.replace('"', '""')


# ------------------------------------------------------------------ errors

ERR_NAMES = {
    "Error::WrongWriterState": "EState", "Error::WrongArchiveWriterState": "EState",
    "Error::WrongReaderState": "EState", "Error::FilenameTooLong": "ENameTooLong",
    "Error::DuplicateFilename": "EDup", "Error::AuthenticatedDecryptionWrongTag": "EWrongTag",
    "Error::DeserializationError": "EDeser", "Error::EndOfStream": "EEos",
    "Error::WrongBlockSubFileType": "EBlockType", "Error::AssertionError": "EState",
    "Error::SerializationError": "EDeser",
    "ConfigError::EncryptionKeyIsMissing": "EKey", "ConfigError::PrivateKeyNotSet": "EKey",
    "ConfigError::PrivateKeyNotFound": "EKey", "ConfigError::IncoherentPersistentConfig": "EInval",
    "ConfigError::ECIESComputationError": "EKey",
}
IOKINDS = {"UnexpectedEof": "EUnexpectedEof", "InvalidData": "EInval", "InvalidInput": "EInval"}


def err_of(e):
    """the model's error class of a Rust error VALUE expression"""
    e = strip_paren(e)
    if e[0] == "mcall" and e[2] == "into" and not e[3]:
        return err_of(e[1])
    if e[0] == "path" and e[1] in ERR_NAMES:
        return ERR_NAMES[e[1]]
    if e[0] == "call" and e[1][0] == "path" and e[1][1] in ERR_NAMES:
        return ERR_NAMES[e[1][1]]
    if e[0] == "struct" and e[1] in ERR_NAMES:
        return ERR_NAMES[e[1]]
    if e[0] == "call" and e[1][0] == "path" and e[1][1] in ("io::Error::new", "std::io::Error::new"):
        k = e[2][0]
        if k[0] == "path":
            kind = k[1].split("::")[-1]
            if kind in IOKINDS:
                return IOKINDS[kind]
    raise ParseError("error value " + show(e)[:60])


def is_call(e, name, nargs=None):
    e = strip_paren(e)
    return e[0] == "call" and e[1][0] == "path" and e[1][1] == name and (nargs is None or len(e[2]) == nargs)


def unref(e):
    e = strip_paren(e)
    while e[0] == "un" and e[1] in ("&", "&mut", "*"):
        e = strip_paren(e[2])
    return e


# ------------------------------------------------------------------ (1) ArchiveWriter

AW_FIELDS = [("config", "ArchiveWriterConfig"), ("dest", "Box<PositionLayerWriter<'a,W>>"),
             ("state", "ArchiveWriterState"), ("files_info", "HashMap<String,ArchiveFileID>"),
             ("ids_info", "HashMap<ArchiveFileID,FileInfo>"), ("next_id", "ArchiveFileID"),
             ("current_id", "ArchiveFileID")]
FI_FIELDS = [("offsets", "Vec<u64>"), ("size", "u64"), ("eof_offset", "u64")]

AW_PREAMBLE = r"""
(* ---- mirror of the Rust data (HashMap = association list in insertion order, Vec = list,
        Sha256 state = the bytes absorbed so far, PositionLayerWriter = the bytes written) ---- *)
Record FileInfo := mkFileInfo { offsets : list N; size : N; eof_offset : N }.
Inductive ArchiveWriterState := OpenedFiles (ids : list N) (hashes : list (N * bytes)) | Finalized.
Record ArchiveWriter := mkAW {
  dest : bytes; state : ArchiveWriterState; files_info : list (bytes * N);
  ids_info : list (N * FileInfo); next_id : N; current_id : N }.
Definition set_dest s v := mkAW v (state s) (files_info s) (ids_info s) (next_id s) (current_id s).
Definition set_state s v := mkAW (dest s) v (files_info s) (ids_info s) (next_id s) (current_id s).
Definition set_files_info s v := mkAW (dest s) (state s) v (ids_info s) (next_id s) (current_id s).
Definition set_ids_info s v := mkAW (dest s) (state s) (files_info s) v (next_id s) (current_id s).
Definition set_next_id s v := mkAW (dest s) (state s) (files_info s) (ids_info s) v (current_id s).
Definition set_current_id s v := mkAW (dest s) (state s) (files_info s) (ids_info s) (next_id s) v.
Definition set_offsets f v := mkFileInfo v (size f) (eof_offset f).
Definition set_size f v := mkFileInfo (offsets f) v (eof_offset f).
Definition set_eof_offset f v := mkFileInfo (offsets f) (size f) v.

(* HashMap<u64, V> / Vec<u64> / HashMap<String, V> operations *)
Fixpoint hm_get {V} (m : list (N * V)) (k : N) : option V :=
  match m with [] => None | (k', v) :: r => if k' =? k then Some v else hm_get r k end.
Definition hm_contains_key {V} (m : list (N * V)) (k : N) : bool :=
  match hm_get m k with Some _ => true | None => false end.
Fixpoint hm_set {V} (m : list (N * V)) (k : N) (v : V) : list (N * V) :=   (* write through get_mut *)
  match m with [] => [] | (k', v') :: r => if k' =? k then (k', v) :: r else (k', v') :: hm_set r k v end.
Definition hm_insert {V} (m : list (N * V)) (k : N) (v : V) : list (N * V) :=
  if hm_contains_key m k then hm_set m k v else m ++ [(k, v)].
Fixpoint hm_remove {V} (m : list (N * V)) (k : N) : list (N * V) :=
  match m with [] => [] | (k', v) :: r => if k' =? k then r else (k', v) :: hm_remove r k end.
Definition vec_contains (l : list N) (k : N) : bool := existsb (fun x => x =? k) l.
Fixpoint vec_remove_item (l : list N) (k : N) : list N :=
  match l with [] => [] | x :: r => if x =? k then r else x :: vec_remove_item r k end.
Definition is_empty {A} (l : list A) : bool := match l with [] => true | _ => false end.
Definition smap_contains_key {V} (m : list (bytes * V)) (k : bytes) : bool :=
  existsb (fun e => bytes_eqb (fst e) k) m.
Definition smap_insert {V} (m : list (bytes * V)) (k : bytes) (v : V) : list (bytes * V) :=
  if smap_contains_key m k then map (fun e => if bytes_eqb (fst e) k then (k, v) else e) m else m ++ [(k, v)].

(* state-and-result plumbing: `?` keeps the state reached so far *)
Definition bindS {St A B} (x : St * res A) (f : St -> A -> St * res B) : St * res B :=
  match x with (s, Ok a) => f s a | (s, Err e) => (s, Err e) | (s, Crash c) => (s, Crash c) end.
(* HashWrapperReader: the hash of file `id` absorbs the bytes that were read through it *)
Definition hash_absorb (s : ArchiveWriter) (id : N) (data : bytes) : ArchiveWriter :=
  match state s with
  | OpenedFiles ids hashes =>
    match hm_get hashes id with
    | Some h => set_state s (OpenedFiles ids (hm_set hashes id (h ++ data)))
    | None => s
    end
  | Finalized => s
  end.
"""


class Ctx:
    """translation state: Gallina name of the current struct value, immutable locals, aliases"""

    def __init__(self, s="s"):
        self.s = s
        self.n = 0
        self.locals = {}      # rust name -> gallina expr
        self.alias = {}       # rust name -> kind ('ids' | 'hashes' | 'file_info')

    def fresh(self, base):
        self.n += 1
        return "%s%d" % (base, self.n)

    def copy(self):
        c = Ctx(self.s)
        c.n = self.n
        c.locals = dict(self.locals)
        c.alias = dict(self.alias)
        c.hashed = getattr(self, "hashed", None)
        return c


class WriterTr:
    """ArchiveWriter methods -> Gallina `ArchiveWriter -> ... -> ArchiveWriter * res T`"""

    def __init__(self, macros, methods):
        self.macros = macros        # name -> (params, body text)
        self.methods = methods      # callee name -> number of arguments (besides self)
        self.counter = 0

    def fresh(self, base):
        self.counter += 1
        return "%s%d" % (base, self.counter)

    # ---- pure expressions
    def ex(self, e, c):
        e = strip_paren(e)
        k = e[0]
        if k == "int":
            return str(e[1])
        if k == "un" and e[1] in ("&", "&mut", "*"):
            return self.ex(e[2], c)
        if k == "un" and e[1] == "!":
            return "(negb %s)" % self.ex(e[2], c)
        if k == "cast" and e[2] in ("u64", "usize", "u32", "u8"):
            return self.ex(e[1], c)
        if k == "path":
            if e[1] in c.locals:
                return c.locals[e[1]]
            if e[1] == "FILENAME_MAX_SIZE":
                return "FILENAME_MAX_SIZE"
            raise ParseError("unknown name " + e[1])
        if k == "field" and strip_paren(e[1]) == ("path", "self") and e[2] in dict(AW_FIELDS) and e[2] != "config":
            return "(%s %s)" % (e[2], c.s)
        if k == "field" and e[1][0] == "path" and c.alias.get(e[1][1]) == "file_info" and e[2] in dict(FI_FIELDS):
            return "(%s %s)" % (e[2], c.locals[e[1][1]])
        if k == "mcall":
            recv, m, args = strip_paren(e[1]), e[2], e[3]
            rs = show(recv)
            if rs == "self.dest" and m == "position" and not args:
                return "(len (dest %s))" % c.s
            if m == "len" and not args:
                return "(len %s)" % self.ex(recv, c)
            if m in ("to_string", "clone", "to_vec") and not args:
                return self.ex(recv, c)
            if rs == "self.files_info" and m == "contains_key" and len(args) == 1:
                return "(smap_contains_key (files_info %s) %s)" % (c.s, self.ex(args[0], c))
            if rs == "self.ids_info" and m == "contains_key" and len(args) == 1:
                return "(hm_contains_key (ids_info %s) %s)" % (c.s, self.ex(args[0], c))
            if recv[0] == "path" and c.alias.get(recv[1]) == "ids":
                if m == "is_empty" and not args:
                    return "(is_empty %s)" % c.locals[recv[1]]
                if m == "contains" and len(args) == 1:
                    return "(vec_contains %s %s)" % (c.locals[recv[1]], self.ex(args[0], c))
            if recv[0] == "path" and c.alias.get(recv[1]) == "hashes":
                if m == "is_empty" and not args:
                    return "(is_empty %s)" % c.locals[recv[1]]
                if m == "contains_key" and len(args) == 1:
                    return "(hm_contains_key %s %s)" % (c.locals[recv[1]], self.ex(args[0], c))
            raise ParseError("method " + show(e)[:60])
        if k == "macro" and e[1] == "vec" and e[3] is not None and ";" not in e[2]:
            return "[%s]" % "; ".join(self.ex(x, c) for x in e[3])
        if k == "struct" and e[1] == "FileInfo":
            f = dict(e[2])
            if sorted(f) != sorted(dict(FI_FIELDS)):
                raise ParseError("FileInfo literal")
            return "(mkFileInfo %s %s %s)" % tuple(self.ex(f[n], c) for n, _ in FI_FIELDS)
        if k == "bin":
            a, b = self.ex(e[2], c), self.ex(e[3], c)
            op = e[1]
            tbl = {"+": "(%s + %s)", "==": "(%s =? %s)", "!=": "(negb (%s =? %s))", "<": "(%s <? %s)",
                   "<=": "(%s <=? %s)", "&&": "(%s && %s)", "||": "(%s || %s)"}
            if op == ">":
                return "(%s <? %s)" % (b, a)
            if op == ">=":
                return "(%s <=? %s)" % (b, a)
            if op in tbl:
                return tbl[op] % (a, b)
            raise ParseError("operator " + op)
        raise ParseError("expression " + show(e)[:60])

    # ---- results
    def result_value(self, e, c):
        """Ok(v) / Err(x) -> gallina `res` term"""
        e = strip_paren(e)
        if is_call(e, "Ok", 1):
            a = strip_paren(e[2][0])
            return "Ok %s" % ("tt" if a == ("unit",) else self.ex(a, c))
        if is_call(e, "Err", 1):
            return "Err %s" % err_of(e[2][0])
        raise ParseError("result " + show(e)[:60])

    # ---- statements, CPS.  k(c) gives the Gallina text of what follows (type St * res T)
    def block(self, b, c, k, tailk=None):
        """b = ('block', stmts, tail).  tailk(value_expr, c): continuation receiving the tail value
        (None: the tail must be a result expression ending the function)"""
        items = list(b[1])
        return self.stmts(items, b[2], c, k, tailk)

    def stmts(self, items, tail, c, k, tailk):
        if not items:
            if tail is None:
                return k(c)
            t0 = strip_paren(tail)
            if t0[0] == "if" and t0[3] is None and (tailk is not None or k is not None):
                # a unit-valued `if` without `else` closing a block is a statement
                return self.effect(t0, c, (lambda c2: tailk(None, c2)) if tailk is not None else k)
            return self.tail(tail, c, k, tailk)
        st, rest = items[0], items[1:]
        cont = lambda c2: self.stmts(rest, tail, c2, k, tailk)
        if st[0] == "let":
            _, pat, ty, e, els = st
            if els is not None or e is None:
                raise ParseError("let-else")
            pat = re.sub(r"^mut ", "", pat)
            if not re.fullmatch(r"\w+", pat):
                raise ParseError("let pattern " + pat)
            return self.bind_value(e, c, lambda v, c2: self.let_in(pat, v, c2, cont))
        e = strip_paren(st[1])
        return self.effect(e, c, cont)

    def let_in(self, name, v, c, cont):
        g = self.fresh(name + "_")
        c.locals[name] = g
        if getattr(c, "hashed", None) and c.hashed[1] is None:
            c.hashed = (c.hashed[0], g)
        return "let %s := %s in\n    %s" % (g, v, cont(c))

    def set_self(self, field, v, c, cont):
        s2 = self.fresh("s")
        txt = "let %s := set_%s %s %s in\n    " % (s2, field, c.s, v)
        c.s = s2
        return txt + cont(c)

    def bind_value(self, e, c, kv):
        """evaluate an expression that may have effects / early exits; kv(value, c)"""
        e = strip_paren(e)
        if e[0] == "match":
            return self.match(e, c, None, kv)
        if e[0] == "try":
            inner = strip_paren(e[1])
            # self.state.wrap_with_hash(id, src)?  -- the value is the source, marked as hashed under `id`
            if inner[0] == "mcall" and show(inner[1]) == "self.state" and inner[2] == "wrap_with_hash" and len(inner[3]) == 2:
                idv, srcv = self.ex(inner[3][0], c), self.ex(inner[3][1], c)
                if "wrap_with_hash" not in self.methods:
                    raise ParseError("wrap_with_hash not translated")
                c.hashed = (idv, None)
                return "match wrap_with_hash (state %s) %s with\n    | Err e => (%s, Err e) | Crash x => (%s, Crash x)\n    | Ok _ =>\n    %s\n    end" % (
                    c.s, idv, c.s, c.s, kv(srcv, c))
            # hashes.remove(&id).ok_or_else(|| <err>)?
            if (inner[0] == "mcall" and inner[2] == "ok_or_else" and len(inner[3]) == 1 and inner[3][0][0] == "closure"
                    and strip_paren(inner[1])[0] == "mcall"):
                rm = strip_paren(inner[1])
                recv = strip_paren(rm[1])
                if rm[2] == "remove" and recv[0] == "path" and c.alias.get(recv[1]) == "hashes" and len(rm[3]) == 1:
                    body = inner[3][0][2]
                    if body[0] == "block" and not body[1] and body[2] is not None:
                        body = body[2]
                    er = err_of(body)
                    key = self.ex(rm[3][0], c)
                    old = c.locals[recv[1]]
                    v = self.fresh("removed_")
                    new = self.fresh("hashes_")
                    c.locals[recv[1]] = new
                    return "match hm_get %s %s with\n    | None => (%s, Err %s)\n    | Some %s =>\n    let %s := hm_remove %s %s in\n    %s\n    end" % (
                        old, key, c.s, er, v, new, old, key, kv(v, c))
            # let v = self.<translated method>(args)?   (work package carry: add_file)
            if (inner[0] == "mcall" and strip_paren(inner[1]) == ("path", "self") and inner[2] in self.methods
                    and inner[2] != "wrap_with_hash" and len(inner[3]) == self.methods[inner[2]]):
                txt = "(%s %s %s)" % (inner[2], c.s, " ".join(self.ex(a, c) for a in inner[3]))
                s2, v = self.fresh("s"), self.fresh("v")
                c.s = s2
                return "bindS %s (fun %s %s =>\n    %s)" % (txt, s2, v, kv(v, c))
            raise ParseError("`?` on " + show(inner)[:60])
        if e[0] == "mcall" and e[2] == "into" and not e[3]:
            inner = strip_paren(e[1])
            if inner[0] == "mcall" and inner[2] == "finalize" and not inner[3]:
                return kv("(sha256_finalize %s)" % self.ex(inner[1], c), c)
        return kv(self.ex(e, c), c)

    def effect(self, e, c, cont):
        k = e[0]
        if k == "macro" and e[1] in self.macros:
            return self.expand_macro(e, c, cont)
        if k == "if":
            return self.if_(e, c, cont)
        if k == "match":
            return self.match(e, c, cont, None)
        if k == "return":
            return "(%s, %s)" % (c.s, self.result_value(e[1], c))
        if k == "assign":
            return self.assign(e, c, cont)
        if k == "try":
            return self.try_stmt(strip_paren(e[1]), c, cont)
        if k == "mcall":
            return self.mutating_call(e, c, cont)
        if k == "call" and is_call(e, "vec_remove_item", 2):
            a = unref(e[2][0])
            if a[0] == "path" and c.alias.get(a[1]) == "ids":
                new = self.fresh("ids_")
                old = c.locals[a[1]]
                c.locals[a[1]] = new
                return "let %s := vec_remove_item %s %s in\n    %s" % (new, old, self.ex(e[2][1], c), cont(c))
        raise ParseError("statement " + show(e)[:70])

    def assign(self, e, c, cont):
        op, lhs, rhs = e[1], strip_paren(e[2]), e[3]
        if lhs[0] == "field" and strip_paren(lhs[1]) == ("path", "self"):
            f = lhs[2]
            if f == "state" and op == "=" and strip_paren(rhs) == ("path", "ArchiveWriterState::Finalized"):
                return self.set_self("state", "Finalized", c, cont)
            if f in ("next_id", "current_id"):
                v = self.ex(rhs, c)
                if op == "+=":
                    v = "(%s %s + %s)" % (f, c.s, v)
                elif op != "=":
                    raise ParseError("assignment operator " + op)
                return self.set_self(f, v, c, cont)
        if lhs[0] == "field" and lhs[1][0] == "path" and c.alias.get(lhs[1][1]) == "file_info" and lhs[2] in ("size", "eof_offset"):
            old = c.locals[lhs[1][1]]
            v = self.ex(rhs, c)
            if op == "+=":
                v = "(%s %s + %s)" % (lhs[2], old, v)
            elif op != "=":
                raise ParseError("assignment operator " + op)
            new = self.fresh("file_info_")
            c.locals[lhs[1][1]] = new
            return "let %s := set_%s %s %s in\n    %s" % (new, lhs[2], old, v, cont(c))
        raise ParseError("assignment " + show(e)[:60])

    def mutating_call(self, e, c, cont):
        recv, m, args = strip_paren(e[1]), e[2], e[3]
        rs = show(recv)
        if rs == "self.files_info" and m == "insert" and len(args) == 2:
            return self.set_self("files_info", "(smap_insert (files_info %s) %s %s)" % (c.s, self.ex(args[0], c), self.ex(args[1], c)), c, cont)
        if rs == "self.ids_info" and m == "insert" and len(args) == 2:
            return self.set_self("ids_info", "(hm_insert (ids_info %s) %s %s)" % (c.s, self.ex(args[0], c), self.ex(args[1], c)), c, cont)
        if recv[0] == "path" and c.alias.get(recv[1]) == "ids" and m == "push" and len(args) == 1:
            new, old = self.fresh("ids_"), c.locals[recv[1]]
            c.locals[recv[1]] = new
            return "let %s := %s ++ [%s] in\n    %s" % (new, old, self.ex(args[0], c), cont(c))
        if recv[0] == "path" and c.alias.get(recv[1]) == "hashes" and m == "insert" and len(args) == 2:
            if show(args[1]) != "Sha256::default()":
                raise ParseError("initial hash state " + show(args[1]))
            new, old = self.fresh("hashes_"), c.locals[recv[1]]
            c.locals[recv[1]] = new
            return "let %s := hm_insert %s %s [] in\n    %s" % (new, old, self.ex(args[0], c), cont(c))
        if (recv[0] == "field" and recv[2] == "offsets" and recv[1][0] == "path" and c.alias.get(recv[1][1]) == "file_info"
                and m == "push" and len(args) == 1):
            old = c.locals[recv[1][1]]
            new = self.fresh("file_info_")
            c.locals[recv[1][1]] = new
            return "let %s := set_offsets %s (offsets %s ++ [%s]) in\n    %s" % (new, old, old, self.ex(args[0], c), cont(c))
        raise ParseError("call statement " + show(e)[:70])

    def dump_call(self, inner, c):
        """<ArchiveFileBlock literal>.dump(&mut self.dest)  ->  (text producing St * res unit, new ctx)"""
        if not (inner[0] == "mcall" and inner[2] == "dump" and len(inner[3]) == 1 and show(inner[3][0]) == "&mut self.dest"):
            return None
        lit = strip_paren(inner[1])
        if lit[0] != "struct" or not lit[1].startswith("ArchiveFileBlock::"):
            raise ParseError("dump receiver " + show(lit)[:50])
        var = lit[1].split("::")[1]
        f = dict(lit[2])
        s2 = self.fresh("s")
        if var == "FileStart" and sorted(f) == ["filename", "id"]:
            blk = "(BkFileStart %s %s)" % (self.ex(f["filename"], c), self.ex(f["id"], c))
        elif var == "EndOfFile" and sorted(f) == ["hash", "id"]:
            blk = "(BkEndOfFile %s %s)" % (self.ex(f["id"], c), self.ex(f["hash"], c))
        elif var == "EndOfArchiveData" and not f:
            blk = "BkEndOfArchiveData"
        elif var == "FileContent" and sorted(f) == ["data", "id", "length"]:
            d = strip_paren(f["data"])
            if not is_call(d, "Some", 1):
                raise ParseError("FileContent data")
            srcv = self.ex(d[2][0], c)
            hashed = getattr(c, "hashed", None)
            idv = self.ex(f["id"], c)
            if hashed is None or hashed != (idv, srcv):
                raise ParseError("FileContent source is not the hash wrapper of the same id")
            d2, rd, r = self.fresh("d"), self.fresh("rd"), self.fresh("r")
            txt = "(let '(%s, %s, %s) := dump (BkFileContent %s %s (Some %s)) (dest %s) in (hash_absorb (set_dest %s %s) %s %s, %s))" % (
                d2, rd, r, idv, self.ex(f["length"], c), srcv, c.s, c.s, d2, idv, rd, r)
            return txt
        else:
            raise ParseError("block literal " + show(lit)[:50])
        d2, rd, r = self.fresh("d"), self.fresh("rd"), self.fresh("r")
        return "(let '(%s, %s, %s) := dump %s (dest %s) in (set_dest %s %s, %s))" % (d2, rd, r, blk, c.s, c.s, d2, r)

    def call_text(self, inner, c):
        """a call returning Result<(), Error> with effects on self -> Gallina of type St * res unit"""
        d = self.dump_call(inner, c)
        if d is not None:
            return d
        if inner[0] == "mcall" and strip_paren(inner[1]) == ("path", "self") and inner[2] in self.methods \
                and len(inner[3]) == self.methods[inner[2]]:
            return "(%s %s %s)" % (inner[2], c.s, " ".join(self.ex(a, c) for a in inner[3]))
        if is_call(inner, "ArchiveFooter::serialize_into", 3) and [show(a) for a in inner[2]] == [
                "&mut self.dest", "&self.files_info", "&self.ids_info"]:
            d2, r = self.fresh("d"), self.fresh("r")
            return "(let '(%s, %s) := footer_serialize_into (dest %s) (files_info %s) (ids_info %s) in (set_dest %s %s, %s))" % (
                d2, r, c.s, c.s, c.s, c.s, d2, r)
        if inner[0] == "mcall" and show(inner[1]) == "self.dest" and inner[2] == "finalize" and not inner[3]:
            return "(%s, dest_finalize (dest %s))" % (c.s, c.s)
        if inner[0] == "mcall" and show(inner[1]) == "self.dest" and inner[2] == "flush" and not inner[3]:
            return "(%s, dest_flush (dest %s))" % (c.s, c.s)
        raise ParseError("call " + show(inner)[:70])

    def try_stmt(self, inner, c, cont):
        txt = self.call_text(inner, c)
        s2 = self.fresh("s")
        c.s = s2
        return "bindS %s (fun %s _ =>\n    %s)" % (txt, s2, cont(c))

    def if_(self, e, c, cont):
        _, cond, th, el = e
        if cond[0] == "letcond":
            raise ParseError("if let")
        cv = self.ex(cond, c)
        # the branches may fall through: the continuation is duplicated (bodies are small)
        c1, c2 = c.copy(), c.copy()
        a = self.block(th, c1, cont)
        if el is None:
            b = cont(c2)
        elif el[0] == "if":
            b = self.if_(el, c2, cont)
        else:
            b = self.block(el, c2, cont)
        return "if %s then\n    %s\n    else\n    %s" % (cv, a, b)

    def match(self, e, c, cont, kv):
        """cont: statement position (value ignored); kv: value position"""
        scrut = unref(e[1])
        arms = e[2]
        def after(c2, v):
            return kv(v, c2) if kv is not None else cont(c2)
        if show(scrut) == "self.state":
            out = []
            seen = set()
            for pat, guard, body in arms:
                if guard is not None:
                    raise ParseError("match guard")
                c2 = c.copy()
                m = re.fullmatch(r"ArchiveWriterState::OpenedFiles\{(ids,hashes|\.\.)\}", pat)
                if m:
                    seen.add("O")
                    if m.group(1) == "..":
                        head = "OpenedFiles _ _"
                        wb = False
                    else:
                        i0, h0 = self.fresh("ids_"), self.fresh("hashes_")
                        c2.locals["ids"], c2.locals["hashes"] = i0, h0
                        c2.alias["ids"], c2.alias["hashes"] = "ids", "hashes"
                        head = "OpenedFiles %s %s" % (i0, h0)
                        wb = True
                elif pat == "ArchiveWriterState::Finalized":
                    seen.add("F")
                    head, wb = "Finalized", False
                elif pat == "_":
                    seen.update("OF")
                    head, wb = "_", False
                else:
                    raise ParseError("state pattern " + pat)

                def arm_end(c3, v=None, wb=wb):
                    # write the (possibly updated) ids / hashes back before going on
                    if wb and (c3.locals["ids"], c3.locals["hashes"]) != (i0, h0):
                        s2 = self.fresh("s")
                        t = "let %s := set_state %s (OpenedFiles %s %s) in\n    " % (s2, c3.s, c3.locals["ids"], c3.locals["hashes"])
                        c3.s = s2
                    else:
                        t = ""
                    for nm in ("ids", "hashes"):
                        c3.alias.pop(nm, None)
                        c3.locals.pop(nm, None)
                    return t + after(c3, v)
                out.append("| %s =>\n    %s" % (head, self.arm_body(body, c2, arm_end)))
            if seen != set("OF"):
                raise ParseError("state match not exhaustive")
            return "match state %s with\n    %s\n    end" % (c.s, "\n    ".join(out))
        if scrut[0] == "mcall" and show(scrut[1]) == "self.ids_info" and scrut[2] == "get_mut" and len(scrut[3]) == 1:
            key = self.ex(scrut[3][0], c)
            out, seen = [], set()
            for pat, guard, body in arms:
                if guard is not None:
                    raise ParseError("match guard")
                c2 = c.copy()
                m = re.fullmatch(r"Some\((\w+)\)", pat)
                if m:
                    seen.add("S")
                    nm = m.group(1)
                    f0 = self.fresh("file_info_")
                    c2.locals[nm] = f0
                    c2.alias[nm] = "file_info"

                    def arm_end(c3, v=None, nm=nm, f0=f0):
                        t = ""
                        if c3.locals[nm] != f0:
                            s2 = self.fresh("s")
                            t = "let %s := set_ids_info %s (hm_set (ids_info %s) %s %s) in\n    " % (s2, c3.s, c3.s, key, c3.locals[nm])
                            c3.s = s2
                        c3.alias.pop(nm, None)
                        c3.locals.pop(nm, None)
                        return t + after(c3, v)
                    out.append("| Some %s =>\n    %s" % (f0, self.arm_body(body, c2, arm_end)))
                elif pat == "None":
                    seen.add("N")
                    out.append("| None =>\n    %s" % self.arm_body(body, c2, lambda c3, v=None: after(c3, v)))
                else:
                    raise ParseError("option pattern " + pat)
            if seen != set("SN"):
                raise ParseError("option match not exhaustive")
            return "match hm_get (ids_info %s) %s with\n    %s\n    end" % (c.s, key, "\n    ".join(out))
        raise ParseError("match on " + show(scrut)[:50])

    def arm_body(self, body, c, arm_end):
        """arm body: a block or a single expression; arm_end(c, value) continues after the match"""
        body = strip_paren(body)
        if body[0] == "block":
            return self.stmts(list(body[1]), body[2], c, lambda c2: arm_end(c2, None), lambda v, c2: arm_end(c2, v))
        if body == ("unit",):
            return arm_end(c, None)
        # a single effectful expression used as the arm (e.g. `file_info.offsets.push(offset)`)
        return self.stmts([("semi", body)], None, c, lambda c2: arm_end(c2, None), None)

    def tail(self, e, c, k, tailk):
        e = strip_paren(e)
        if tailk is not None:
            # value position (the value of a block): only pure / bindable values
            return self.bind_value(e, c, tailk)
        if is_call(e, "Ok", 1) or is_call(e, "Err", 1):
            return "(%s, %s)" % (c.s, self.result_value(e, c))
        if e[0] in ("mcall", "call"):
            return self.call_text(e, c)
        raise ParseError("tail " + show(e)[:60])

    def expand_macro(self, e, c, cont):
        params, body = self.macros[e[1]]
        if e[3] is None or len(e[3]) != len(params):
            raise ParseError("macro arguments of " + e[1])
        txt = body
        for p, a in zip(params, e[3]):
            txt = txt.replace("$" + p, " " + show(a) + " ")
        ast = R.parse_expr(txt)
        ast = strip_paren(ast)
        while ast[0] == "block" and not ast[1] and ast[2] is not None:
            ast = strip_paren(ast[2])
        if ast[0] != "match":
            raise ParseError("macro body of " + e[1])
        return self.match(ast, c, cont, None)

    def function(self, name, params, body_ast, rettype):
        c = Ctx("s")
        for p in params:
            c.locals[p] = p
        body = self.block(body_ast, c, None)
        return body


def macro_def(src, name):
    m = re.search(r"macro_rules!\s+%s\s*\{\s*\(\s*([^)]*)\)\s*=>\s*\{\{" % re.escape(name), src)
    if not m:
        raise ParseError("macro " + name)
    params = re.findall(r"\$(\w+)\s*:\s*\w+", m.group(1))
    i = m.end() - 1
    j = R.match_brace(src, i)
    return params, src[i:j + 1]


def fn_params(header):
    """parameter names (besides self) of a fn header text"""
    i = header.index("(")
    depth, j = 0, i
    while True:
        if header[j] == "(":
            depth += 1
        elif header[j] == ")":
            depth -= 1
            if depth == 0:
                break
        j += 1
    ps = []
    depth, cur = 0, ""
    for ch in header[i + 1:j]:
        if ch in "<([":
            depth += 1
        elif ch in ">)]":
            depth -= 1
        if ch == "," and depth == 0:
            ps.append(cur)
            cur = ""
        else:
            cur += ch
    if cur.strip():
        ps.append(cur)
    names = []
    for p in ps:
        p = p.strip()
        if re.fullmatch(r"&?\s*(mut\s+)?self", p) or p in ("&mut self", "&self", "self"):
            continue
        names.append(re.sub(r"^mut\s+", "", p.split(":")[0].strip()))
    return names


def struct_fields(src, name):
    m = re.search(r"struct\s+%s\b[^{;]*\{" % name, src)
    if not m:
        raise ParseError("struct " + name)
    j = R.match_brace(src, m.end() - 1)
    body = R.strip_comments(src[m.end():j])
    body = re.sub(r"#\[[^\]]*\]", "", body)
    out = []
    for part in split_top(body):
        part = part.strip()
        if not part:
            continue
        mm = re.fullmatch(r"(?:pub(?:\([^)]*\))?\s+)?(\w+)\s*:\s*(.+)", part, re.S)
        if not mm:
            raise ParseError("field of " + name + ": " + part[:30])
        out.append((mm.group(1), re.sub(r"\s+", "", mm.group(2))))
    return out


def split_top(s):
    out, depth, cur = [], 0, ""
    for ch in s:
        if ch in "<([{":
            depth += 1
        elif ch in ">)]}":
            depth -= 1
        if ch == "," and depth == 0:
            out.append(cur)
            cur = ""
        else:
            cur += ch
    out.append(cur)
    return out


# ---- ArchiveFileBlock::dump over a byte sink

def dump_translation(lib, out):
    r = R.fn_text(lib, "dump", 0, within=r"impl<T>\s+ArchiveFileBlock<T>")
    if r is None:
        raise ParseError("ArchiveFileBlock::dump not found")
    body = R.parse_body(r[0])
    if body[1] or body[2] is None or strip_paren(body[2])[0] != "match" or show(strip_paren(body[2])[1]) != "self":
        raise ParseError("dump: expected a single match on self")
    arms = strip_paren(body[2])[2]
    want = {"Self::FileStart{filename,id}": ("BkFileStart filename id", {"filename", "id"}),
            "Self::FileContent{length,data,id}": ("BkFileContent id length data", {"length", "data", "id"}),
            "Self::EndOfFile{id,hash}": ("BkEndOfFile id hash", {"id", "hash"}),
            "Self::EndOfArchiveData": ("BkEndOfArchiveData", set())}
    res = []
    seen = []
    for pat, guard, b in arms:
        if guard is not None or pat not in want:
            raise ParseError("dump arm " + pat)
        seen.append(pat)
        head, names = want[pat]
        res.append("  | %s =>\n    %s" % (head, dump_arm(b, names)))
    if sorted(seen) != sorted(want):
        raise ParseError("dump arms")
    out.append("(* mla/src/lib.rs:%d fn ArchiveFileBlock::dump, over a sink that accepts everything.\n"
               "   Result: (sink afterwards, bytes READ from the data source, result) *)" % r[1])
    out.append("Definition dump (b : Block) (dest : bytes) : bytes * bytes * res unit :=\n  match b with\n%s\n  end." % "\n".join(res))


def dump_arm(b, names):
    if b[0] != "block":
        raise ParseError("dump arm body")
    n = [0]

    def val(e, loc):
        e = strip_paren(e)
        if e[0] == "un" and e[1] in ("*", "&"):
            return val(e[2], loc)
        if e[0] == "path" and (e[1] in names or e[1] in loc):
            return loc.get(e[1], e[1])
        if e[0] == "cast" and e[2] in ("u8", "u64"):
            inner = strip_paren(e[1])
            if inner[0] == "path" and inner[1].startswith("ArchiveFileBlockType::"):
                return "BT_" + inner[1].split("::")[1]
            return val(inner, loc)
        if e[0] == "mcall" and e[2] == "as_bytes" and not e[3]:
            return val(e[1], loc)
        if e[0] == "mcall" and e[2] == "len" and not e[3]:
            return "(len %s)" % val(e[1], loc)
        if e[0] == "path" and e[1] == "FILENAME_MAX_SIZE":
            return "FILENAME_MAX_SIZE"
        raise ParseError("dump value " + show(e)[:50])

    def go(items, tail, d, rd, loc):
        if not items:
            if tail is None:
                raise ParseError("dump arm without result")
            t = strip_paren(tail)
            if is_call(t, "Ok", 1) and strip_paren(t[2][0]) == ("unit",):
                return "(%s, %s, Ok tt)" % (d, rd)
            raise ParseError("dump tail " + show(t)[:40])
        st, rest = items[0], items[1:]
        if st[0] == "let":
            _, pat, ty, e, els = st
            if els is not None or not re.fullmatch(r"\w+", pat):
                raise ParseError("dump let")
            e2 = strip_paren(e)
            # let copied = io::copy(&mut content.take(*length), dest)?;
            if e2[0] == "try" and is_call(e2[1], "io::copy", 2):
                a, bdest = strip_paren(e2[1])[2]
                a = unref(a)
                if show(bdest) != "dest" or not (a[0] == "mcall" and a[2] == "take" and len(a[3]) == 1):
                    raise ParseError("io::copy shape")
                src_v, len_v = val(a[1], loc), val(a[3][0], loc)
                n[0] += 1
                got = "got%d" % n[0]
                loc2 = dict(loc)
                loc2[pat] = "(len %s)" % got
                return "let %s := takeN %s %s in\n    %s" % (got, len_v, src_v, go(rest, tail, "(%s ++ %s)" % (d, got), "(%s ++ %s)" % (rd, got), loc2))
            loc2 = dict(loc)
            loc2[pat] = val(e, loc)
            return go(rest, tail, d, rd, loc2)
        e = strip_paren(st[1])
        if e[0] == "try":
            c = strip_paren(e[1])
            if c[0] == "mcall" and show(c[1]) == "dest" and len(c[3]) == 1:
                v = val(c[3][0], loc)
                if c[2] == "write_u8":
                    return go(rest, tail, "(%s ++ [%s])" % (d, v), rd, loc)
                if c[2] == "write_u64::<LittleEndian>":
                    return go(rest, tail, "(%s ++ le_bytes 8 %s)" % (d, v), rd, loc)
                if c[2] == "write_all":
                    return go(rest, tail, "(%s ++ %s)" % (d, v), rd, loc)
            raise ParseError("dump write " + show(c)[:50])
        if e[0] == "if" and e[3] is None and e[1][0] == "bin":
            th = e[2]
            if len(th[1]) == 1 and th[2] is None and strip_paren(th[1][0][1])[0] == "return":
                rv = strip_paren(th[1][0][1])[1]
                if not is_call(rv, "Err", 1):
                    raise ParseError("dump guard result")
                er = err_of(strip_paren(rv)[2][0])
                a, bb = val(e[1][2], loc), val(e[1][3], loc)
                op = e[1][1]
                cond = {">": "(%s <? %s)" % (bb, a), "!=": "(negb (%s =? %s))" % (a, bb)}.get(op)
                if cond is None:
                    raise ParseError("dump guard operator " + op)
                return "if %s then (%s, %s, Err %s) else\n    %s" % (cond, d, rd, er, go(rest, tail, d, rd, loc))
        if e[0] == "match" and show(strip_paren(e[1])) == "data":
            arms = {p: b2 for p, g, b2 in e[2] if g is None}
            if sorted(arms) != ["None", "Some(content)"]:
                raise ParseError("dump data arms")
            nb = arms["None"]
            if not (nb[0] == "block" and len(nb[1]) == 1 and strip_paren(nb[1][0][1])[0] == "return"):
                raise ParseError("dump None arm")
            er = err_of(strip_paren(strip_paren(nb[1][0][1])[1])[2][0])
            sb = arms["Some(content)"]
            if sb[0] != "block":
                raise ParseError("dump Some arm")
            sitems = list(sb[1])
            if sb[2] is not None:
                if strip_paren(sb[2])[0] != "if":
                    raise ParseError("dump Some arm tail")
                sitems.append(("expr", sb[2]))
            # the Some arm falls through to the statements after the match
            inner = go(sitems + rest, tail, d, rd, dict(loc, content="content"))
            return "match data with\n    | None => (%s, %s, Err %s)\n    | Some content =>\n    %s\n    end" % (d, rd, er, inner)
        raise ParseError("dump statement " + show(e)[:60])

    return go(list(b[1]), b[2], "dest", "[]", {})


def writer_section(lib, out):
    out.append("(* ================= mla/src/lib.rs: ArchiveWriter ================= *)")
    try:
        f = struct_fields(lib, "ArchiveWriter")
        if [(a, b) for a, b in f] != AW_FIELDS:
            raise ParseError("struct ArchiveWriter fields changed: %s" % f)
        f = struct_fields(lib, "FileInfo")
        if f != FI_FIELDS:
            raise ParseError("struct FileInfo fields changed: %s" % f)
        m = re.search(r"enum ArchiveWriterState\s*\{", lib)
        j = R.match_brace(lib, m.end() - 1)
        en = re.sub(r"\s+", "", R.strip_comments(lib[m.end():j]))
        if en != "OpenedFiles{ids:Vec<ArchiveFileID>,hashes:HashMap<ArchiveFileID,Sha256>,},Finalized,":
            raise ParseError("enum ArchiveWriterState changed: " + en)
        if not re.search(r"pub type ArchiveFileID = u64;", lib):
            raise ParseError("ArchiveFileID")
    except Exception as e:
        out.append("(* ArchiveWriter data: %s *)" % e)
        out.append("Definition ArchiveWriter_untranslatable : unit := tt.")
        return
    out.append(AW_PREAMBLE)
    out.append("Inductive Block := BkFileStart (filename : bytes) (id : N) | BkFileContent (id length : N) (data : option bytes)\n"
               "  | BkEndOfFile (id : N) (hash : bytes) | BkEndOfArchiveData.")
    out.append("Section ArchiveWriter.")
    out.append("  Variable FILENAME_MAX_SIZE : N.")
    out.append("  Variables BT_FileStart BT_FileContent BT_EndOfArchiveData BT_EndOfFile : N.")
    out.append("  Variable sha256_finalize : bytes -> bytes.")
    out.append("  Variable footer_serialize_into : bytes -> list (bytes * N) -> list (N * FileInfo) -> bytes * res unit.")
    out.append("  Variable dest_finalize : bytes -> res unit.   (* the layers below: not at this level *)")
    out.append("  Variable dest_flush : bytes -> res unit.      (* the layers below: not at this level *)")
    sub = []
    try:
        dump_translation(lib, sub)
        out.extend("  " + l.replace("\n", "\n  ") for l in sub)
        have_dump = True
    except Exception as e:
        out.append("  (* dump: %s *)" % e)
        out.append("  Definition dump_untranslatable : unit := tt.")
        have_dump = False
    # wrap_with_hash: only its decision (which state / id it accepts)
    methods = {}
    try:
        r = R.fn_text(lib, "wrap_with_hash")
        b = R.parse_body(r[0])
        st = b[1]
        if len(st) != 1 or st[0][0] != "let" or st[0][1] != "hash" or strip_paren(st[0][3])[0] != "match" \
                or show(strip_paren(st[0][3])[1]) != "self" or show(b[2]) != "Ok(HashWrapperReader::new(src, hash))":
            raise ParseError("wrap_with_hash shape")
        arms = {p: bb for p, g, bb in strip_paren(st[0][3])[2] if g is None}
        if sorted(arms) != ["Self::Finalized", "Self::OpenedFiles{hashes,..}"]:
            raise ParseError("wrap_with_hash arms %s" % sorted(arms))
        inner = strip_paren(arms["Self::OpenedFiles{hashes,..}"])
        if inner[0] != "match" or show(inner[1]) != "hashes.get_mut(&id)":
            raise ParseError("wrap_with_hash inner match")
        ia = {p: bb for p, g, bb in inner[2] if g is None}
        if sorted(ia) != ["None", "Some(hash)"] or show(ia["Some(hash)"]) != "hash":
            raise ParseError("wrap_with_hash inner arms")

        def ret_err(bb):
            bb = strip_paren(bb)
            if bb[0] == "block" and len(bb[1]) == 1 and bb[2] is None and strip_paren(bb[1][0][1])[0] == "return":
                return err_of(strip_paren(strip_paren(bb[1][0][1])[1])[2][0])
            raise ParseError("wrap_with_hash error arm")
        e_none, e_fin = ret_err(ia["None"]), ret_err(arms["Self::Finalized"])
        out.append("  (* mla/src/lib.rs:%d fn ArchiveWriterState::wrap_with_hash: which states it accepts *)" % r[1])
        out.append("  Definition wrap_with_hash (st : ArchiveWriterState) (id : N) : res unit :=\n"
                   "    match st with\n    | OpenedFiles _ hashes => match hm_get hashes id with Some _ => Ok tt | None => Err %s end\n"
                   "    | Finalized => Err %s\n    end." % (e_none, e_fin))
        methods["wrap_with_hash"] = 2
    except Exception as e:
        out.append("  (* wrap_with_hash: %s *)" % e)
        out.append("  Definition wrap_with_hash_untranslatable : unit := tt.")
    try:
        macros = {n: macro_def(lib, n) for n in ("check_state", "check_state_file_opened")}
    except Exception as e:
        out.append("  (* macros: %s *)" % e)
        macros = {}
    order = [("mark_continuous_block", "unit"), ("mark_eof", "unit"), ("extend_file_size", "unit"),
             ("start_file", "N"), ("append_file_content", "unit"), ("end_file", "unit"), ("finalize", "unit"),
             ("add_file", "unit"), ("flush", "unit")]
    for name, rty in order:
        try:
            r = R.fn_text(lib, name, 0, within=r"impl<W: InnerWriterTrait> ArchiveWriter<'_, W> \{")
            if r is None:
                raise ParseError("not found")
            if not have_dump and name in ("start_file", "append_file_content", "end_file", "finalize"):
                raise ParseError("needs dump")
            params = fn_params(r[2])
            tr = WriterTr(macros, methods)
            g = tr.function(name, params, R.parse_body(r[0]), rty)
            ptxt = " ".join("(%s : %s)" % (p, "bytes" if p in ("filename", "src") else "N") for p in params)
            out.append("  (* mla/src/lib.rs:%d fn ArchiveWriter::%s *)" % (r[1], name))
            out.append("  Definition %s (s : ArchiveWriter) %s : ArchiveWriter * res %s :=\n    %s." % (name, ptxt, rty, g))
            methods[name] = len(params)
        except Exception as e:
            out.append("  (* %s: %s *)" % (name, e))
            out.append("  Definition %s_untranslatable : unit := tt." % name)
    out.append("End ArchiveWriter.")
    out.append("")


def main():
    out = []
    out.append("(* GENERATED by tools/src2v2.py from %s — do not edit. *)" % REPO)
    out.append("From MLA Require Import Base.")
    out.append("From Coq Require Import String.")
    out.append("Open Scope N_scope.")
    out.append("")
    lib = strip_tests(read("mla/src/lib.rs"))
    writer_section(lib, out)
    import src2v2b
    src2v2b.rest(out, lib, read, strip_tests)
    text = "\n".join(out) + "\n"
    outp = os.path.normpath(OUT)
    old = None
    if os.path.exists(outp):
        with open(outp) as f:
            old = f.read()
    if old != text:
        with open(outp, "w") as f:
            f.write(text)
        print("src2v2: wrote", outp)
    else:
        print("src2v2: unchanged", outp)


if __name__ == "__main__":
    main()
