#!/usr/bin/env python3
"""Tie A, level 1 for mla/src/layers/compress.rs (work package compT): regenerate coq/gen/Src3c.v.

Translated statement by statement (parser: tools/rustmini.py; continuation-passing over the AST):
  module Rd  SizesInfo::{uncompressed_block_size_at, compressed_block_size_at, max_uncompressed_pos},
             CompressionLayerReaderState::into_inner, CompressionLayerReader::{new, pos_in_stream,
             new_decompressor_at, uncompressed_block_size_at, sync_inner_with_uncompressed_pos, initialize,
             Read::read, Seek::seek}
  module Wr  WriterWithCount::{new, into_inner, check_no_error, write, flush},
             CompressionLayerWriter::{new, finalize, write, flush}
  module Fs  CompressionLayerFailSafeReader::{new, read, read_pass}
theories/SrcTie3Comp*.v prove them equal to / simulated by CompLayer.v / CompFailSafe.v.

TRUSTED PRIMITIVE TABLE (what the translator maps without looking inside):
  x.seek(SeekFrom::Start(e)|End(k))?, x.stream_position()?    sk S x (FromStart e | FromEnd k | FromCur 0)
  x.read(&mut b[a..])                                         rd S x (len b - a)   (Crash site_index when a > len b)
  x.read_u32::<LittleEndian>()?                               read_exact S 5 x 4, le_val
  x.initialize()? / x.finalize()? / x.flush()                 section variables inner_initialize / w_finalize / w_flush
  x.write(buf) (inner writer) / x.write_u32::<LittleEndian>(v)?   section variables w_write / w_write_all x (le_bytes 4 v)
  bincode::options().with_limit(L).with_fixint_encoding().deserialize_from(x.take(n))
                                                              section variable bincode_deserialize_SizesInfo L n x
  ….serialize_into(&mut x, &sinfo) / bincode::serialized_size(&sinfo)
                                                              section variables bincode_serialize_SizesInfo L x sinfo / bincode_serialized_size sinfo
  brotli::Decompressor::new(x.take(n), bufsize)               Decompressor_new x n bufsize: the model's whole-block decompressor
                                                              (read_full of the n bytes, CompLayer.dec of them; the buffer size is unused)
  d.read(&mut buf[..size])? / io::copy(&mut (&mut d).take(n), &mut io::sink())?
                                                              CompLayer.dec_read d size (infallible: inner errors surface at creation)
  d.into_inner().into_inner()                                 CompLayer.d_in d
  brotli::CompressorWriter::new(w, 0, level, BROTLI_LOG_WINDOW)   mkCompressor w []   (the plaintext fed so far)
  c.write(&buf[..size])?                                      takes everything: cur ++ takeN size buf, Ok size
  c.get_mut().error = None                                    the error latch of the WriterWithCount inside c
  c.into_inner()                                              section variable compressor_finish (the WriterWithCount) (comp cur):
                                                              the compressor pushes comp(cur) through WriterWithCount::write, errors dropped
  c.flush()                                                   section variable compressor_flush
  BrotliState::new(..)  / brotli::BrotliDecompressStream(&mut available_in, &mut input_offset, &cache[ro..cfo],
        &mut available_out, &mut output_offset, buf, &mut written, &mut state)
                                                              dinit / dstep state (cache[ro..cfo]) available_out, checked to be called with
                                                              available_in = cfo - ro, input_offset = output_offset = 0
  e.kind() != io::ErrorKind::Interrupted                      negb (is_interrupted e)   (section variable)
  u32 `+`/`+=`: checked (Crash site_add_u32); i64 `+`, unary `-`: checked (site_add_i64, site_neg_i64);
  unsigned `-`: checked (site_sub); slices: checked (site_index); panic!/unwrap on None: Crash site_panic;
  u64/usize `+`, `*`, `sum()`: unbounded N (the model's convention, CompLayer.v l.62); `%`, `/` by the block size: N.modulo, N.div;
  u32::try_from(x).map_err(E)?: guard 2^32 <= x; usize::try_from(u64) / `as usize` / `as u64`: identity (64-bit);
  i64::try_from(u64): guard < 2^63; u64::try_from(i64): guard 0 <=;
  self.read(buf) / self.seek(..) / self.write(buf) / self.read_pass(buf) (recursion), `loop`: Fixpoint on a fuel (Err EFuel).

FAILS CLOSED per item: anything not recognised -> `Definition <name>_untranslatable : unit := tt.`
"""
import os
import re
import sys

sys.path.insert(0, os.path.dirname(os.path.abspath(__file__)))
import rustmini as R  # noqa: E402
from rustmini import ParseError, strip_paren, show  # noqa: E402

REPO = os.environ.get("VERIF_REPO", "/repo")
OUT = os.environ.get("VERIF_SRC3C_OUT") or os.path.join(os.path.dirname(os.path.abspath(__file__)), "..", "coq", "gen", "Src3c.v")

ERR_NAMES = {"Error::WrongReaderState": "EState", "Error::DeserializationError": "EDeser", "Error::SerializationError": "EIo",
             "Error::MissingMetadata": "EMissingMeta", "Error::EndOfStream": "EEos", "Error::BadAPIArgument": "EInval"}
IOKINDS = {"UnexpectedEof": "EUnexpectedEof", "InvalidData": "EInval", "InvalidInput": "EInval"}
WHENCE = {"SeekFrom::Start": ("FromStart", "N", "u64"), "SeekFrom::Current": ("FromCur", "Z", "i64"), "SeekFrom::End": ("FromEnd", "Z", "i64")}


def nows(s):
    return re.sub(r"\s+", "", s)


class V:
    def __init__(self, text, kind="N", ity=None, items=None):
        self.text, self.kind, self.ity, self.items = text, kind, ity, items

    def num(self):
        if self.kind == "count":
            return "(len %s)" % self.text
        if self.kind in ("N", "Z"):
            return self.text
        raise ParseError("not a number: %s (%s)" % (self.text, self.kind))


class Ctx:
    def __init__(self):
        self.mode = "res"         # plain | res | self | stream
        self.self = None
        self.struct = None
        self.locals = {}
        self.stream_out = None
        self.borrow = None        # (local, coq wrapper format) : self.state is borrowed as `wrapper % local`
        self.rec = {}             # rust method name -> (coq fix name, [kinds of args]) for recursion through the fuel
        self.ret = "N"
        self.wrap_ok = False      # the Rust function returns a plain value, the translation a `res`
        self.mutable = set()
        self.defs = {}            # Gallina let-name -> its defining text (shared)

    def copy(self):
        c = Ctx()
        c.__dict__.update(self.__dict__)
        c.locals = dict(self.locals)
        return c


def err_of(e):
    e = strip_paren(e)
    if e[0] == "closure":
        b = strip_paren(e[2])
        if b[0] == "block" and not b[1] and b[2] is not None:
            b = b[2]
        return err_of(b)
    if e[0] == "mcall" and e[2] == "into" and not e[3]:
        return err_of(e[1])
    if e[0] == "path" and e[1] in ERR_NAMES:
        return ERR_NAMES[e[1]]
    if e[0] == "call" and e[1][0] == "path" and e[1][1] in ERR_NAMES:
        return ERR_NAMES[e[1][1]]
    if e[0] == "call" and e[1][0] == "path" and e[1][1] in ("io::Error::new", "std::io::Error::new") and len(e[2]) == 2:
        k = strip_paren(e[2][0])
        if k[0] == "path" and k[1].split("::")[-1] in IOKINDS and k[1].startswith("io::ErrorKind::"):
            return IOKINDS[k[1].split("::")[-1]]
    raise ParseError("error value " + show(e)[:60])


def is_call(e, name, nargs=None):
    e = strip_paren(e)
    return e[0] == "call" and e[1][0] == "path" and e[1][1] == name and (nargs is None or len(e[2]) == nargs)


def unref(e):
    e = strip_paren(e)
    while True:
        if e[0] == "un" and e[1] in ("&", "&mut", "*"):
            e = strip_paren(e[2])
        elif e[0] == "mcall" and e[2] in ("by_ref", "as_ref") and not e[3]:
            e = strip_paren(e[1])
        else:
            return e


def is_self(e):
    return strip_paren(e) == ("path", "self")


def hoist_first(e):
    """replace the first (evaluation order) `x?` sub-expression by a temporary: -> (new expression, the try node | None)"""
    if not isinstance(e, tuple) or not e:
        return e, None
    if e[0] == "try":
        inner, f = hoist_first(e[1])
        if f is not None:
            return ("try", inner), f
        return ("path", "__t%d" % id(e)), e
    if e[0] in ("closure", "block", "if", "match", "loop", "while", "for", "macro", "int", "str", "char", "path"):
        return e, None
    out, found = [], None
    for x in e:
        if found is None and isinstance(x, tuple):
            x, found = hoist_first(x)
        elif found is None and isinstance(x, list):
            lst = []
            for y in x:
                if found is None and isinstance(y, tuple):
                    y, found = hoist_first(y)
                lst.append(y)
            x = lst
        out.append(x)
    return tuple(out), found


class Tr:
    """one translator per module (Rd / Wr / Fs): STRUCTS, ENUMS, consts and the method table differ"""

    def __init__(self, structs, enums, consts, prims):
        self.n = 0
        self.structs = structs    # rust struct -> (constructor, [(field, accessor, kind, ity)])
        self.enums = enums        # rust enum -> [(variant, coq constructor, [(field, kind, ity)], named?)]
        self.consts = consts      # name -> ity
        self.methods = {}         # (receiver kind, rust name) -> (coq name, shape, ret kind, ret ity, [arg kinds])
        self.prims = prims        # module-specific hooks

    def fresh(self, base):
        self.n += 1
        return "%s%d" % (re.sub(r"\W", "", base) or "v", self.n)

    # ------------------------------------------------------------ exits
    def self_out(self, c):
        if c.borrow is not None:
            acc = self.state_field(c)[1]
            return "(set_%s %s (%s))" % (acc, c.self, c.borrow[1] % c.locals[c.borrow[0]].text)
        return c.self

    def exit(self, c, what):
        if c.mode in ("res", "plain"):
            return what
        if c.mode == "self":
            return "(%s, %s)" % (self.self_out(c), what)
        return "(%s, %s)" % (c.locals[c.stream_out].text, what)

    def state_field(self, c):
        for f in self.structs[c.struct][1]:
            if f[0] == "state":
                return f
        raise ParseError("no state field")

    def field(self, c, name):
        for f in self.structs[c.struct][1]:
            if f[0] == name:
                return f
        raise ParseError("field self.%s" % name)

    def set_field(self, c, name, text):
        f = self.field(c, name)
        s1 = self.fresh("self")
        t = "let %s := set_%s %s %s in\n    " % (s1, f[1], c.self, text)
        c.self = s1
        return t

    def bind_fresh(self, c, name, v, force=False):
        """bind rust local `name` to v; emits a Gallina let unless v is already a variable"""
        if not force and (re.fullmatch(r"[\w']+", v.text) or v.kind in ("sres",)):
            c.locals[name] = v
            return ""
        g = self.fresh(name)
        c.locals[name] = V(g, v.kind, v.ity, v.items)
        c.defs[g] = v.text
        return "let %s := %s in\n    " % (g, v.text)

    def on_res(self, c, text, k, base="v", kind="N", ity=None):
        """match <res-valued text> with Ok v => k(v) | failures exit"""
        v1 = self.fresh(base)
        bad_e, bad_c = self.exit(c, "Err e"), self.exit(c, "Crash x")
        return "match %s with\n    | Ok %s =>\n    %s\n    | Err e => %s\n    | Crash x => %s\n    end" % (
            text, v1, k(V(v1, kind, ity), c.copy()), bad_e, bad_c)

    # ------------------------------------------------------------ streams (readers)
    def stream_local(self, e, c):
        e = unref(e)
        if e[0] == "path" and e[1] in c.locals and c.locals[e[1]].kind in ("stream", "wstream"):
            return e[1]
        return None

    def stream_op(self, name, op_text, c, k, base="v", kind="N", ity=None, on_err=None):
        """match op with (s', Ok v) => [name := s'] k | (s', Err e) => exit | (s', Crash x) => exit"""
        s1, v1 = self.fresh(name), self.fresh(base)
        c2 = c.copy()
        c2.locals[name] = V(s1, c.locals[name].kind)
        c3 = c2.copy()
        ok = k(V(v1, kind, ity), c2)
        bad = on_err(c3) if on_err is not None else self.exit(c3, "Err e")
        return "match %s with\n    | (%s, Ok %s) =>\n    %s\n    | (%s, Err e) => %s\n    | (%s, Crash x) => %s\n    end" % (
            op_text, s1, v1, ok, s1, bad, s1, self.exit(c3, "Crash x"))

    # ------------------------------------------------------------ pure expressions
    def pe(self, e, c):
        e = strip_paren(e)
        k = e[0]
        if k == "int":
            return V(str(e[1]))
        if k == "un" and e[1] in ("&", "&mut", "*"):
            return self.pe(e[2], c)
        if k == "un" and e[1] == "!":
            v = self.pe(e[2], c)
            if v.kind != "bool":
                raise ParseError("! on " + v.kind)
            return V("(negb %s)" % v.text, "bool")
        if k == "cast":
            v = self.pe(e[1], c)
            if e[2] in ("u64", "usize") and v.kind in ("N", "count") and v.ity in ("u32", "u64", "usize", None):
                return V(v.num(), "N", e[2])
            raise ParseError("cast " + show(e)[:50])
        if k == "call" and e[1][0] == "path" and e[1][1] == "u64::from" and len(e[2]) == 1:
            v = self.pe(e[2][0], c)
            if v.ity != "u32":
                raise ParseError("u64::from of a non-u32 " + show(e))
            return V(v.num(), "N", "u64")
        if k == "call" and e[1][0] == "path" and e[1][1] in ("std::cmp::min", "cmp::min") and len(e[2]) == 2:
            a, b = self.pe(e[2][0], c), self.pe(e[2][1], c)
            return V("(N.min %s %s)" % (a.num(), b.num()), "N", a.ity or b.ity)
        if k == "path":
            if e[1] in c.locals:
                return c.locals[e[1]]
            if e[1] in self.consts:
                return V(e[1], "N", self.consts[e[1]])
            if e[1] == "None":
                return V("None", "opt")
            if e[1] in ("true", "false"):
                return V(e[1], "bool")
            for en, vs in self.enums.items():
                for vn, con, fl, _ in vs:
                    if e[1] == "%s::%s" % (en, vn) and not fl:
                        return V(con, "enum:" + en)
            raise ParseError("unknown name " + e[1])
        if k == "field":
            base = strip_paren(e[1])
            if is_self(base) and c.struct:
                f = self.field(c, e[2])
                if f[2] == "stream":
                    raise ParseError("stream field used as a value")
                if f[0] == "state" and c.borrow is not None:
                    raise ParseError("self.state read while borrowed")
                return V("(%s %s)" % (f[1], c.self), f[2], f[3])
            bv = self.pe(base, c) if base[0] == "path" and base[1] in c.locals else None
            if bv is not None and bv.kind == "sinfo" and e[2] in ("compressed_sizes", "last_block_size"):
                return V("(%s %s)" % ({"compressed_sizes": "si_sizes", "last_block_size": "si_last"}[e[2]], bv.text),
                         "list" if e[2] == "compressed_sizes" else "N", None if e[2] == "compressed_sizes" else "u32")
            if bv is not None and bv.kind == "cfg" and e[2] == "compression_level":
                return V(bv.text + "_compression_level", "N", "u32")
            if bv is not None and bv.kind.startswith("rec:"):
                for f in self.structs[bv.kind[4:]][1]:
                    if f[0] == e[2] and f[2] not in ("stream", "wstream"):
                        return V("(%s %s)" % (f[1], bv.text), f[2], f[3])
        if k == "mcall":
            recv, m, args = e[1], e[2], e[3]
            if m == "len" and not args:
                r0 = unref(recv)
                r = self.pe(r0, c)
                if r.kind == "buf":
                    return V(r.text, "N", "usize")
                if r.kind in ("list", "bytes"):
                    return V("(len %s)" % r.text, "N", "usize")
            if m == "is_empty" and not args:
                r = self.pe(unref(recv), c)
                if r.kind == "buf":
                    return V("(%s =? 0)" % r.text, "bool")
                if r.kind == "bytes":
                    return V("(len %s =? 0)" % r.text, "bool")
            if m == "is_none" and not args:
                r = self.pe(recv, c)
                if r.kind in ("opterr", "optsinfo"):
                    return V("(match %s with None => true | Some _ => false end)" % r.text, "bool")
            if m == "saturating_sub" and len(args) == 1:
                a, b = self.pe(recv, c), self.pe(args[0], c)
                return V("(%s - %s)" % (a.num(), b.num()), "N", a.ity)
            if m == "kind" and not args:
                r = self.pe(recv, c)
                if r.kind == "err":
                    return V(r.text, "err")
            # sizes_info.as_ref().is_none_or(|x| body)
            if m == "is_none_or" and len(args) == 1 and strip_paren(args[0])[0] == "closure":
                r = self.pe(unref(recv), c)
                cl = strip_paren(args[0])
                if r.kind == "optsinfo" and re.fullmatch(r"\w+", cl[1]):
                    c2 = c.copy()
                    g = self.fresh(cl[1])
                    c2.locals[cl[1]] = V(g, "sinfo")
                    b = self.pe(cl[2], c2)
                    if b.kind != "bool":
                        raise ParseError("is_none_or body")
                    return V("(match %s with None => true | Some %s => %s end)" % (r.text, g, b.text), "bool")
            # compressed_sizes.iter().take(n).map(|size| u64::from(*size)).sum()
            if m == "sum" and not args and nows(show(e)).endswith(".map(|size|u64::from(*size)).sum()"):
                mp = strip_paren(recv)
                tk = strip_paren(mp[1])
                if tk[0] == "mcall" and tk[2] == "take" and len(tk[3]) == 1:
                    it = strip_paren(tk[1])
                    if it[0] == "mcall" and it[2] == "iter" and not it[3]:
                        lst = self.pe(it[1], c)
                        if lst.kind == "list":
                            return V("(sum_firstN %s %s)" % (lst.text, self.pe(tk[3][0], c).num()), "N", "u64")
            # plain methods of the table
            rk = None
            if is_self(recv):
                rk = "self"
            else:
                try:
                    rv = self.pe(unref(recv), c)
                    rk = rv.kind
                except ParseError:
                    rk = None
            if rk is not None and (rk, m) in self.methods and self.methods[(rk, m)][1] == "plain":
                coq, _, retk, reti, _ = self.methods[(rk, m)]
                rtxt = c.self if rk == "self" else self.pe(unref(recv), c).text
                if rk == "self" and c.borrow is not None:
                    raise ParseError("method of self while self.state is borrowed")
                avs = [self.pe(a, c).num() for a in args]
                return V("(%s %s%s)" % (coq, rtxt, "".join(" " + a for a in avs)), retk, reti)
        if k == "macro" and e[1] == "vec" and e[3] is not None and len(e[3]) == 2 and ";" in e[2] and e[3][0] == ("int", 0):
            n = self.pe(e[3][1], c)
            if n.ity != "usize":
                raise ParseError("vec! length")
            return V("(vec_zeros %s)" % n.text, "bytes")
        if k == "macro" and e[1] == "matches" and e[3] is not None and len(e[3]) == 2:
            v = self.pe(e[3][0], c)
            pat = self.pe(e[3][1], c)
            if v.kind.startswith("enum:") and pat.kind == v.kind:
                return V("(match %s with %s => true | _ => false end)" % (v.text, pat.text), "bool")
        if k == "bin":
            op = e[1]
            if op in ("&&", "||"):
                a, b = self.pe(e[2], c), self.pe(e[3], c)
                if a.kind != "bool" or b.kind != "bool":
                    raise ParseError("boolean operands " + show(e)[:50])
                return V("(%s %s %s)" % (a.text, op, b.text), "bool")
            if op == "!=" and nows(show(e[3])) == "io::ErrorKind::Interrupted":
                a = self.pe(e[2], c)
                if a.kind == "err":
                    return V("(negb (is_interrupted %s))" % a.text, "bool")
            a, b = self.pe(e[2], c), self.pe(e[3], c)
            if a.kind == "Z" or b.kind == "Z":
                if a.kind not in ("Z",) and not re.fullmatch(r"\d+", a.text) or b.kind not in ("Z",) and not re.fullmatch(r"\d+", b.text):
                    raise ParseError("mixed i64 comparison " + show(e)[:50])
                tz = {"==": "(%s =? %s)%%Z", "<": "(%s <? %s)%%Z", "<=": "(%s <=? %s)%%Z", ">": "(%s >? %s)%%Z_gt", ">=": "(%s >=? %s)%%Z_ge"}
                if op == ">":
                    return V("(%s <? %s)%%Z" % (b.text, a.text), "bool")
                if op == ">=":
                    return V("(%s <=? %s)%%Z" % (b.text, a.text), "bool")
                if op in ("==", "<", "<="):
                    return V(tz[op] % (a.text, b.text), "bool")
                raise ParseError("i64 operator " + op)
            an, bn = a.num(), b.num()
            ity = a.ity or b.ity
            if op == "%":
                return V("(%s mod %s)" % (an, bn), "N", ity)
            if op == "/":
                return V("(%s / %s)" % (an, bn), "N", ity)
            if op == "*" and ity in ("u64", "usize"):
                return V("(%s * %s)" % (an, bn), "N", ity)
            if op == "+" and ity in ("u64", "usize"):
                return V("(%s + %s)" % (an, bn), "N", ity)
            tbl = {"==": "(%s =? %s)", "!=": "(negb (%s =? %s))", "<": "(%s <? %s)", "<=": "(%s <=? %s)"}
            if op == ">":
                return V("(%s <? %s)" % (bn, an), "bool")
            if op == ">=":
                return V("(%s <=? %s)" % (bn, an), "bool")
            if op in tbl:
                return V(tbl[op] % (an, bn), "bool")
        raise ParseError("expression " + show(e)[:70])

    # ------------------------------------------------------------ values with effects / checks (CPS)
    def val(self, e, c, k):
        e = strip_paren(e)
        kind = e[0]
        if kind == "try":
            return self.try_val(strip_paren(e[1]), c, k)
        if kind == "call" and e[1][0] == "path" and e[1][1] == "Box::new" and len(e[2]) == 1:
            return self.val(e[2][0], c, k)
        if kind == "call" and e[1][0] == "path" and e[1][1] == "u64::from" and len(e[2]) == 1:
            def ku(v, c2):
                if v.ity != "u32":
                    raise ParseError("u64::from of a non-u32")
                return k(V(v.num(), "N", "u64"), c2)
            return self.val(e[2][0], c, ku)
        if kind == "cast":
            def kc(v, c2):
                if e[2] in ("u64", "usize") and v.kind in ("N", "count") and v.ity in ("u32", "u64", "usize", None):
                    return k(V(v.num(), "N", e[2]), c2)
                raise ParseError("cast " + show(e)[:50])
            return self.val(e[1], c, kc)
        if kind == "call" and e[1][0] == "path" and e[1][1] in ("std::cmp::min", "cmp::min") and len(e[2]) == 2:
            return self.val(e[2][0], c, lambda a, c1: self.val(e[2][1], c1, lambda b, c2: k(
                V("(N.min %s %s)" % (a.num(), b.num()), "N", a.ity or b.ity), c2)))
        if kind == "un" and e[1] == "-":
            def kn(v, c2):
                if v.kind != "Z":
                    raise ParseError("unary minus on " + v.kind)
                return "if (%s =? - 2 ^ 63)%%Z then %s else\n    %s" % (v.text, self.exit(c2, "Crash site_neg_i64"), k(V("(- %s)%%Z" % v.text, "Z", "i64"), c2))
            return self.val(e[2], c, kn)
        if kind == "bin" and e[1] == "-":
            def k1(a, c1):
                def k2(b, c2):
                    if a.kind == "Z" or b.kind == "Z":
                        raise ParseError("i64 subtraction")
                    return "if %s <? %s then %s else\n    %s" % (a.num(), b.num(), self.exit(c2, "Crash site_sub"),
                                                                  k(V("(%s - %s)" % (a.num(), b.num()), "N", a.ity or b.ity), c2))
                return self.val(e[3], c1, k2)
            return self.val(e[2], c, k1)
        if kind == "bin" and e[1] == "+":
            def k1(a, c1):
                def k2(b, c2):
                    if a.kind == "Z" and b.kind == "Z":
                        t = "(%s + %s)%%Z" % (a.text, b.text)
                        return "if ((2 ^ 63 <=? %s)%%Z || (%s <? - 2 ^ 63)%%Z) then %s else\n    %s" % (
                            t, t, self.exit(c2, "Crash site_add_i64"), k(V(t, "Z", "i64"), c2))
                    ity = a.ity or b.ity
                    if ity == "u32":
                        return "if 2 ^ 32 <=? %s + %s then %s else\n    %s" % (a.num(), b.num(), self.exit(c2, "Crash site_add_u32"),
                                                                              k(V("(%s + %s)" % (a.num(), b.num()), "N", "u32"), c2))
                    if ity in ("u64", "usize"):
                        return k(V("(%s + %s)" % (a.num(), b.num()), "N", ity), c2)
                    raise ParseError("addition of untyped integers " + show(e)[:50])
                return self.val(e[3], c1, k2)
            return self.val(e[2], c, k1)
        if kind == "bin" and e[1] in ("*", "/", "%", "==", "!=", "<", "<=", ">", ">=") and ("?" in show(e) or " - " in show(e)):
            def k1(a, c1):
                def k2(b, c2):
                    c3 = c2.copy()
                    c3.locals["__a"], c3.locals["__b"] = a, b
                    return k(self.pe(("bin", e[1], ("path", "__a"), ("path", "__b")), c3), c2)
                return self.val(e[3], c1, k2)
            return self.val(e[2], c, k1)
        if kind == "match":
            return self.match(e, c, None, k)
        if kind == "block":
            return self.stmts(list(e[1]), e[2], c, None, k)
        if kind == "struct":
            return self.struct_lit(e, c, k)
        if kind == "call" and e[1][0] == "path":
            for en, vs in self.enums.items():
                for vn, con, fl, named in vs:
                    if e[1][1] in ("%s::%s" % (en, vn), "Self::" + vn) and not named and fl and len(fl) == len(e[2]):
                        def go(items, acc, c1, con=con, en=en, fl=fl):
                            if not items:
                                return k(V("(%s %s)" % (con, " ".join(acc)), "enum:" + en), c1)
                            return self.val(items[0][0], c1, lambda v, c2: go(items[1:], acc + [self.coerce(v, items[0][1][1], items[0][1][2])], c2))
                        return go(list(zip(e[2], fl)), [], c)
            if e[1][1] == "Some" and len(e[2]) == 1:
                def ks(v, c2):
                    if v.kind == "sinfo":
                        return k(V("(Some %s)" % v.text, "optsinfo"), c2)
                    if v.kind == "err":
                        return k(V("(Some %s)" % v.text, "opterr"), c2)
                    raise ParseError("Some of " + v.kind)
                return self.val(e[2][0], c, ks)
            r = self.prims.call_val(self, e, c, k)
            if r is not None:
                return r
        if kind == "mcall":
            r = self.mcall_val(e, c, k)
            if r is not None:
                return r
        if kind == "path" and e[1] in c.locals and c.locals[e[1]].kind in ("stream", "wstream", "decomp", "comp", "wwc"):
            return k(c.locals[e[1]], c)
        new, found = hoist_first(e)
        if found is not None:
            tmp = "__t%d" % id(found)
            def kh(v, c2):
                c3 = c2.copy()
                c3.locals[tmp] = v
                def back(v2, c4):
                    c5 = c4.copy()
                    c5.locals.pop(tmp, None)
                    return k(v2, c5)
                return self.val(new, c3, back)
            return self.try_val(strip_paren(found[1]), c, kh)
        return k(self.pe(e, c), c)

    def mcall_val(self, e, c, k):
        recv, m, args = e[1], e[2], e[3]
        # panicking / res-valued translated methods used WITHOUT `?` (into_inner)
        try:
            rv = None if is_self(recv) else self.pe(unref(recv), c)
        except ParseError:
            rv = None
        if rv is not None and (rv.kind, m) in self.methods and self.methods[(rv.kind, m)][1] == "panics":
            coq, _, retk, reti, _ = self.methods[(rv.kind, m)]
            return self.on_res(c, "%s %s" % (coq, rv.text), k, "inner", retk, reti)
        if rv is not None and (rv.kind, m) in self.methods and self.methods[(rv.kind, m)][1] == "total":
            coq, _, retk, reti, _ = self.methods[(rv.kind, m)]
            return k(V("(%s %s)" % (coq, rv.text), retk, reti), c)
        return self.prims.mcall_val(self, e, c, k)

    def struct_lit(self, e, c, k):
        name, fields = e[1], e[2]
        sname = name
        if name == "Self":
            sname = c.struct_self
        if sname in self.structs:
            con, fl = self.structs[sname]
            if sorted(f for f, _ in fields) != sorted(f[0] for f in fl):
                raise ParseError("struct literal fields of " + sname)
            fdef = {f[0]: f for f in fl}
            def go(items, acc, c1):
                if not items:
                    return k(V("(%s %s)" % (con, " ".join(acc[f[0]] for f in fl)), "rec:" + sname), c1)
                fn, fe = items[0]
                f = fdef[fn]
                return self.val(fe, c1, lambda v, c2: go(items[1:], dict(acc, **{fn: self.coerce(v, f[2], f[3])}), c2))
            return go(list(fields), {}, c)
        if name == "SizesInfo":
            if [f for f, _ in fields] != ["compressed_sizes", "last_block_size"]:
                raise ParseError("SizesInfo literal")
            fd = dict(fields)
            a, b = self.pe(fd["compressed_sizes"], c), self.pe(fd["last_block_size"], c)
            if a.kind != "list" or b.kind != "N":
                raise ParseError("SizesInfo literal values")
            return k(V("(mkSI %s %s)" % (a.text, b.text), "sinfo"), c)
        # enum struct-variants: Enum::Variant { f: e, .. }
        for en, vs in self.enums.items():
            for vn, con, fl, named in vs:
                if name == "%s::%s" % (en, vn) and named:
                    if sorted(f for f, _ in fields) != sorted(f[0] for f in fl):
                        raise ParseError("fields of %s" % name)
                    fdef = {f[0]: f for f in fl}
                    def go(items, acc, c1, con=con, en=en, fl=fl, fdef=fdef):
                        if not items:
                            return k(V("(%s %s)" % (con, " ".join(acc[f[0]] for f in fl)), "enum:" + en), c1)
                        fn, fe = items[0]
                        f = fdef[fn]
                        return self.val(fe, c1, lambda v, c2: go(items[1:], dict(acc, **{fn: self.coerce(v, f[1], f[2])}), c2))
                    return go(list(fields), {}, c)
        raise ParseError("struct literal " + name)

    def coerce(self, v, kind, ity):
        if kind == "N":
            if v.kind not in ("N", "count"):
                raise ParseError("field of kind N from " + v.kind)
            if ity == "u32" and v.ity not in ("u32", None) or ity == "u32" and v.ity is None and not re.fullmatch(r"\d+", v.text):
                raise ParseError("u32 field from %s (%s)" % (v.text, v.ity))
            return v.num()
        if kind in ("optsinfo", "opterr") and v.kind == "opt":
            return v.text
        if v.kind != kind:
            raise ParseError("field of kind %s from %s" % (kind, v.kind))
        return v.text

    def try_from_guard(self, x, c, k):
        """x = T::try_from(a).map_err(|_| E) under `?`"""
        recv = strip_paren(x[1])
        fn = recv[1][1]
        er = err_of(x[3][0])
        def kv(v, c2):
            if fn == "u32::try_from" and v.kind in ("N", "count") and v.ity in ("u64", "usize"):
                return "if 2 ^ 32 <=? %s then %s else\n    %s" % (v.num(), self.exit(c2, "Err " + er), k(V(v.num(), "N", "u32"), c2))
            if fn == "usize::try_from" and v.kind == "N" and v.ity == "u64":
                return k(V(v.text, "N", "usize"), c2)
            if fn == "u64::try_from" and v.kind == "Z":
                return "if (%s <? 0)%%Z then %s else\n    %s" % (v.text, self.exit(c2, "Err " + er), k(V("(Z.to_N %s)" % v.text, "N", "u64"), c2))
            raise ParseError("%s of %s (%s)" % (fn, v.kind, v.ity))
        return self.val(recv[2][0], c, kv)

    def try_val(self, x, c, k):
        """value of `x?`"""
        if x[0] == "mcall":
            recv, m, args = x[1], x[2], x[3]
            r0 = strip_paren(recv)
            if m == "map_err" and len(args) == 1 and r0[0] == "call" and r0[1][0] == "path" and r0[1][1].endswith("::try_from") and len(r0[2]) == 1:
                return self.try_from_guard(x, c, k)
            if m in ("ok_or", "ok_or_else") and len(args) == 1 and r0[0] == "mcall" and r0[2] == "checked_sub" and len(r0[3]) == 1:
                er = err_of(args[0])
                def ka(a, c1):
                    def kb(b, c2):
                        return "if %s <? %s then %s else\n    %s" % (a.num(), b.num(), self.exit(c2, "Err " + er),
                                                                      k(V("(%s - %s)" % (a.num(), b.num()), "N", a.ity), c2))
                    return self.val(r0[3][0], c1, kb)
                return self.val(r0[1], c, ka)
            # translated methods
            rk, rtxt = None, None
            if is_self(recv):
                rk, rtxt = "self", None
            else:
                try:
                    rvv = self.pe(unref(recv), c)
                    rk, rtxt = rvv.kind, rvv.text
                except ParseError:
                    rk = None
            if rk is not None and (rk, m) in self.methods:
                coq, shape, retk, reti, akinds = self.methods[(rk, m)]
                if rk == "self" and c.borrow is not None:
                    raise ParseError("method of self while self.state is borrowed")
                base = c.self if rk == "self" else rtxt
                if shape == "res":
                    avs = [self.pe(a, c).num() for a in args]
                    return self.on_res(c, "%s %s%s" % (coq, base, "".join(" " + a for a in avs)), k, "v", retk, reti)
                if shape == "res-consumes":        # (self, inner by value, numbers…) -> res T
                    nm = self.stream_local(args[0], c)
                    if nm is None:
                        raise ParseError("stream argument of " + m)
                    avs = [self.pe(a, c).num() for a in args[1:]]
                    c1 = c.copy()
                    del c1.locals[nm]
                    return self.on_res(c1, "%s %s %s%s" % (coq, base, c.locals[nm].text, "".join(" " + a for a in avs)), k, "d", retk, reti)
                if shape == "stream":              # (self, &mut inner, numbers…) -> st S * res T
                    nm = self.stream_local(args[0], c)
                    if nm is None:
                        raise ParseError("stream argument of " + m)
                    avs = [self.pe(a, c).num() for a in args[1:]]
                    return self.stream_op(nm, "%s %s %s%s" % (coq, base, c.locals[nm].text, "".join(" " + a for a in avs)), c, k, "r", retk, reti)
        r = self.prims.try_val(self, x, c, k)
        if r is not None:
            return r
        raise ParseError("`?` on " + show(x)[:80])

    # ------------------------------------------------------------ results
    def result(self, e, c):
        """Ok(v) / Err(x) at an exit -> gallina `res` text (pure payloads)"""
        e = strip_paren(e)
        if e[0] == "mcall" and e[2] == "into" and not e[3]:
            e = strip_paren(e[1])
        if is_call(e, "Err", 1):
            a = strip_paren(e[2][0])
            if a[0] == "path" and a[1] in c.locals and c.locals[a[1]].kind == "err":
                return "Err %s" % c.locals[a[1]].text
            if is_call(a, "io::Error::new", 2):
                kd = strip_paren(a[2][0])
                if kd[0] == "path" and kd[1] in c.locals and c.locals[kd[1]].kind == "err":
                    return "Err %s" % c.locals[kd[1]].text
            return "Err %s" % err_of(a)
        if is_call(e, "Ok", 1):
            return "Ok %s" % self.payload(strip_paren(e[2][0]), c)
        raise ParseError("result " + show(e)[:60])

    def payload(self, a, c, ret=None):
        ret = ret or c.ret
        if a == ("unit",):
            if ret != "unit":
                raise ParseError("Ok(()) in a function returning " + ret)
            return "tt"
        if ret == "optcount":
            if a == ("path", "None"):
                return "None"
            if is_call(a, "Some", 1):
                return "(Some %s)" % self.payload(strip_paren(a[2][0]), c, "count")
            raise ParseError("Option<usize> payload " + show(a))
        if ret == "count":
            if a == ("int", 0):
                return "[]"
            v = self.pe(a, c)
            if v.kind != "count":
                raise ParseError("the count returned must be the length of the bytes handled: " + show(a))
            return v.text
        if ret == "size":
            v = self.pe(a, c)
            if v.kind != "N" or v.ity != "usize":
                raise ParseError("size payload")
            return v.text
        v = self.pe(a, c)
        if ret == "N" and v.kind in ("N",):
            return v.text
        if ret == v.kind:
            return v.text
        raise ParseError("payload %s of kind %s for %s" % (show(a)[:40], v.kind, ret))

    # ------------------------------------------------------------ statements
    def stmts(self, items, tail, c, k, tailk):
        if not items:
            if tail is None:
                if k is None:
                    raise ParseError("block without value")
                return k(c)
            t = strip_paren(tail)
            if tailk is not None:
                if t[0] in ("if", "return", "match"):
                    return self.effect(t, c, k, tailk)
                return self.val(t, c, tailk)
            if k is not None and t[0] in ("if", "match"):
                return self.effect(t, c, k, None)
            if k is not None:
                raise ParseError("value dropped at the end of a statement block: " + show(t)[:50])
            return self.exit_tail(t, c)
        st, rest = items[0], items[1:]
        cont = lambda c2: self.stmts(rest, tail, c2, k, tailk)
        if st[0] == "let":
            _, pat, ty, e, els = st
            if e is None or els is not None:
                raise ParseError("let without value / let-else")
            mut = pat.startswith("mut ")
            pat = re.sub(r"^mut ", "", pat)
            if pat == "_" and is_call(e, "io::Error::new", 2):
                err_of(e)
                return cont(c)
            if not re.fullmatch(r"\w+", pat):
                raise ParseError("let pattern " + pat)
            r = self.prims.let_hook(self, pat, mut, e, c, cont)
            if r is not None:
                return r
            def kb(v, c2):
                if mut:
                    c2.mutable = c2.mutable | {pat}
                if v.kind == "N" and v.ity is None and re.fullmatch(r"\d+", v.text) and ty is None:
                    v = V(v.text, "N", self.prims.literal_ity(pat))
                return self.bind_fresh(c2, pat, v) + cont(c2)
            return self.val(e, c, kb)
        return self.effect(strip_paren(st[1]), c, cont, None)

    def effect(self, e, c, cont, tailk):
        k = e[0]
        if k == "if":
            return self.if_(e, c, cont, tailk)
        if k == "match":
            return self.match(e, c, cont, tailk)
        if k == "return":
            if e[1] is None:
                raise ParseError("bare return")
            return self.exit_tail(strip_paren(e[1]), c)
        if k == "assign":
            return self.assign(e, c, cont)
        if k == "try":
            return self.try_val(strip_paren(e[1]), c, lambda v, c2: cont(c2))
        if k == "block":
            return self.stmts(list(e[1]), e[2], c, cont, tailk)
        r = self.prims.effect(self, e, c, cont)
        if r is not None:
            return r
        raise ParseError("statement " + show(e)[:70])

    def assign(self, e, c, cont):
        op, lhs, rhs = e[1], strip_paren(e[2]), e[3]
        r = self.prims.assign(self, e, c, cont)
        if r is not None:
            return r
        if lhs[0] == "field" and is_self(lhs[1]) and c.struct:
            f = self.field(c, lhs[2])
            if f[0] == "state" and c.borrow is not None:
                raise ParseError("self.state assigned while borrowed")
            if op == "=":
                return self.val(rhs, c, lambda v, c2: self.set_field(c2, f[0], self.coerce(v, f[2], f[3])) + cont(c2))
            if op == "+=" and f[2] == "N":
                def kv(v, c2):
                    cur = "(%s %s)" % (f[1], c2.self)
                    if f[3] == "u32":
                        if v.ity != "u32":
                            raise ParseError("u32 += non-u32")
                        return "if 2 ^ 32 <=? %s + %s then %s else\n    %s" % (cur, v.num(), self.exit(c2, "Crash site_add_u32"),
                                                                              self.set_field(c2, f[0], "(%s + %s)" % (cur, v.num())) + cont(c2))
                    if v.ity not in ("u64", "usize"):
                        raise ParseError("u64 += untyped")
                    return self.set_field(c2, f[0], "(%s + %s)" % (cur, v.num())) + cont(c2)
                return self.val(rhs, c, kv)
        if lhs[0] == "path" and lhs[1] in c.locals and lhs[1] in c.mutable:
            old = c.locals[lhs[1]]
            if op == "=":
                def kv(v, c2):
                    if v.kind == "opt":
                        v = V(v.text, old.kind)
                    if v.kind != old.kind and not (old.kind == "N" and v.kind == "count"):
                        raise ParseError("assignment changes the kind of " + lhs[1])
                    nv = V(v.num() if old.kind == "N" else v.text, old.kind, old.ity, v.items)
                    if old.kind == "N" and old.ity == "u32" and v.ity not in ("u32", None):
                        raise ParseError("u32 local from " + str(v.ity))
                    return self.bind_fresh(c2, lhs[1], nv) + cont(c2)
                return self.val(rhs, c, kv)
            if op == "+=" and old.kind == "N":
                def kv(v, c2):
                    cur = c2.locals[lhs[1]]
                    if cur.ity == "u32":
                        if v.ity != "u32":
                            raise ParseError("u32 += non-u32")
                        return "if 2 ^ 32 <=? %s + %s then %s else\n    %s" % (
                            cur.text, v.num(), self.exit(c2, "Crash site_add_u32"),
                            self.bind_fresh(c2, lhs[1], V("(%s + %s)" % (cur.text, v.num()), "N", "u32")) + cont(c2))
                    if cur.ity == "usize" and v.ity in ("usize", None) or cur.ity == "u64" and v.ity in ("u64",):
                        return self.bind_fresh(c2, lhs[1], V("(%s + %s)" % (cur.text, v.num()), "N", cur.ity)) + cont(c2)
                    raise ParseError("+= of %s and %s" % (cur.ity, v.ity))
                return self.val(rhs, c, kv)
        raise ParseError("assignment " + show(e)[:60])

    def exit_tail(self, t, c):
        t = strip_paren(t)
        if t[0] == "macro" and t[1] == "panic":
            return self.exit(c, "Crash site_panic")
        if t[0] in ("if", "match", "return"):
            return self.effect(t, c, None, None)
        if t[0] == "block":
            return self.stmts(list(t[1]), t[2], c, None, None)
        if c.mode == "plain":
            return self.val(t, c, lambda v, c2: v.text)
        if c.wrap_ok:
            return self.val(t, c, lambda v, c2: self.exit(c2, "Ok " + (v.num() if c2.ret == "N" else v.text)))
        if t[0] == "mcall" and t[2] == "into" and not t[3]:
            t0 = strip_paren(t[1])
        else:
            t0 = t
        # tail calls through the fuel
        if t0[0] == "mcall" and is_self(t0[1]) and t0[2] in c.rec:
            if c.borrow is not None:
                raise ParseError("recursion while self.state is borrowed")
            coq, akinds = c.rec[t0[2]]
            if len(akinds) != len(t0[3]):
                raise ParseError("arguments of the recursive call")
            def go(items, acc, c1):
                if not items:
                    return "%s fuel' %s%s" % (coq, c1.self, "".join(" " + a for a in acc))
                (a, kd) = items[0]
                if kd == "buf":
                    v = self.pe(unref(a), c1)
                    if v.kind != "buf":
                        raise ParseError("the recursive call must pass the caller's buffer")
                    return go(items[1:], acc + [v.text] + ([v.items] if v.items else []), c1)
                if kd == "bufbytes":
                    v = self.pe(unref(a), c1)
                    if v.kind != "bytes" or v.text != "buf":
                        raise ParseError("the recursive call must pass the caller's buffer")
                    return go(items[1:], acc + [v.text], c1)
                if kd == "whence":
                    return self.whence(a, c1, lambda w, c2: go(items[1:], acc + [w.text], c2))
                raise ParseError("recursive argument kind")
            return go(list(zip(t0[3], akinds)), [], c)
        if t0[0] == "mcall" and t0[2] == "ok_or_else" and len(t0[3]) == 1:
            cp = strip_paren(t0[1])
            if cp[0] == "mcall" and cp[2] == "copied" and not cp[3]:
                gt = strip_paren(cp[1])
                if gt[0] == "mcall" and gt[2] == "get" and len(gt[3]) == 1:
                    lst, idx = self.pe(gt[1], c), self.pe(gt[3][0], c)
                    if lst.kind == "list" and idx.ity == "usize" and c.ret == "N":
                        return self.exit(c, "match nthN %s %s with Some x => Ok x | None => Err %s end" % (lst.text, idx.text, err_of(t0[3][0])))
        r = self.prims.tail(self, t0, c)
        if r is not None:
            return r
        if is_call(t0, "Ok", 1):
            a = strip_paren(t0[2][0])
            try:
                return self.exit(c, self.result(t0, c))
            except ParseError:
                return self.val(a, c, lambda v, c2: self.exit(c2, "Ok " + v.text) if v.kind == c2.ret or c2.ret.startswith("rec:") and v.kind == c2.ret
                                else (_ for _ in ()).throw(ParseError("Ok payload kind %s for %s" % (v.kind, c2.ret))))
        if t0[0] == "path" and t0[1] in c.locals and c.locals[t0[1]].kind == "sres":
            v = c.locals[t0[1]]
            if v.items[0] == "Ok":
                return self.exit(c, "Ok " + self.payload(("path", "__p"), self.with_local(c, "__p", v.items[1])))
            return self.exit(c, "Err " + v.items[1])
        return self.exit(c, self.result(t0, c))

    def with_local(self, c, name, v):
        c2 = c.copy()
        c2.locals[name] = v
        return c2

    def whence(self, e, c, k):
        e = strip_paren(e)
        if e[0] == "call" and e[1][0] == "path" and e[1][1] in WHENCE and len(e[2]) == 1:
            con, ty, ity = WHENCE[e[1][1]]
            a = strip_paren(e[2][0])
            if ty == "Z":
                if a[0] == "un" and a[1] == "-" and strip_paren(a[2])[0] == "int":
                    return k(V("(%s (-%d)%%Z)" % (con, strip_paren(a[2])[1]), "whence"), c)
                if a[0] == "int":
                    return k(V("(%s %d%%Z)" % (con, a[1]), "whence"), c)
                raise ParseError("seek distance " + show(a))
            def kv(v, c2):
                if v.kind != "N" or v.ity != "u64":
                    raise ParseError("SeekFrom::Start of a non-u64")
                return k(V("(%s %s)" % (con, v.text), "whence"), c2)
            return self.val(a, c, kv)
        v = self.pe(e, c)
        if v.kind != "whence":
            raise ParseError("seek argument " + show(e)[:40])
        return k(v, c)

    def pure_assign_branch(self, th, c):
        """`if c { x = e; … }` whose body only assigns pure values to mutable locals -> {name: V} or None"""
        if th[2] is not None:
            return None
        out = {}
        c1 = c.copy()
        for st in th[1]:
            if st[0] != "semi":
                return None
            a = strip_paren(st[1])
            if a[0] == "mcall" and a[2] == "fill" and len(a[3]) == 1 and strip_paren(a[3][0]) == ("int", 0):
                tg = strip_paren(a[1])
                if tg[0] == "path" and tg[1] in c.mutable and tg[1] in c1.locals and c1.locals[tg[1]].kind == "bytes":
                    out[tg[1]] = V("(vec_zeros (len %s))" % c1.locals[tg[1]].text, "bytes")
                    c1.locals[tg[1]] = out[tg[1]]
                    continue
                return None
            if a[0] != "assign" or a[1] != "=":
                return None
            lhs = strip_paren(a[2])
            if lhs[0] != "path" or lhs[1] not in c.mutable or lhs[1] not in c.locals:
                return None
            try:
                v = self.pe(a[3], c1)
            except ParseError:
                return None
            if c.locals[lhs[1]].kind not in ("N", "bool") or v.kind != c.locals[lhs[1]].kind:
                return None
            out[lhs[1]] = v
            c1.locals[lhs[1]] = V(v.text, v.kind, c.locals[lhs[1]].ity)
        return out

    def if_(self, e, c, cont, tailk):
        _, cond, th, el = e
        if cond[0] == "letcond":
            return self.prims.if_let(self, e, c, cont, tailk)
        def on_cond(cv, c0):
            if cv.kind != "bool":
                raise ParseError("condition " + show(cond)[:50])
            if el is None and cont is not None and tailk is None:
                pa = self.pure_assign_branch(th, c0)
                if pa is not None and self.prims.merge_pure_ifs:
                    out = ""
                    c1 = c0.copy()
                    cvar = self.fresh("c")
                    out += "let %s := %s in\n    " % (cvar, cv.text)
                    for nm, v in pa.items():
                        old = c0.locals[nm]
                        out += self.bind_fresh(c1, nm, V("(if %s then %s else %s)" % (cvar, v.text, old.text), old.kind, old.ity), force=True)
                    return out + cont(c1)
            c1, c2 = c0.copy(), c0.copy()
            a = self.stmts(list(th[1]), th[2], c1, cont, tailk)
            if el is None:
                if cont is None:
                    raise ParseError("if without else at an exit")
                b = cont(c2)
            elif el[0] == "if":
                b = self.if_(el, c2, cont, tailk)
            else:
                b = self.stmts(list(el[1]), el[2], c2, cont, tailk)
            return "if %s then\n    %s\n    else\n    %s" % (cv.text, a, b)
        return self.val(cond, c, on_cond)

    def arm(self, body, c, cont, tailk):
        body = strip_paren(body)
        if body[0] == "block":
            return self.stmts(list(body[1]), body[2], c, cont, tailk)
        if body[0] in ("return", "if", "match", "assign"):
            return self.effect(body, c, cont, tailk)
        if tailk is not None:
            return self.val(body, c, tailk)
        if cont is not None and body == ("unit",):
            return cont(c)
        if cont is not None:
            raise ParseError("value of a match arm dropped: " + show(body)[:50])
        return self.exit_tail(body, c)

    def enum_pattern(self, en, pat, c):
        """-> (coq head, ctx with the pattern variables bound, variant name)"""
        for vn, con, fl, named in self.enums[en]:
            for prefix in (en + "::", "Self::"):
                if named:
                    m = re.fullmatch(re.escape(prefix + vn) + r"\{([\w,. ]*?)\}", pat)
                    if m:
                        toks = re.findall(r"mut \w+|\w+|\.\.", m.group(1).replace(",", " , ").replace("mut ", "mut "))
                        names = [t for t in re.split(r",", m.group(1)) if t]
                        rest = ".." in names
                        names = [n for n in names if n != ".."]
                        c2 = c.copy()
                        args = []
                        clean = {}
                        for n in names:
                            mut = n.startswith("mut ")
                            n2 = n[4:] if mut else n
                            clean[n2] = mut
                        for n2 in clean:
                            if n2 not in [f[0] for f in fl]:
                                raise ParseError("field %s of %s" % (n2, vn))
                        if not rest and sorted(clean) != sorted(f[0] for f in fl):
                            raise ParseError("pattern of %s does not name all fields" % vn)
                        for f in fl:
                            if f[0] in clean:
                                g = self.fresh(f[0])
                                c2.locals[f[0]] = V(g, f[1], f[2])
                                if clean[f[0]]:
                                    c2.mutable = c2.mutable | {f[0]}
                                args.append(g)
                            else:
                                args.append("_")
                        return con + "".join(" " + a for a in args), c2, vn
                else:
                    if not fl and pat == prefix + vn:
                        return con, c.copy(), vn
                    m = re.fullmatch(re.escape(prefix + vn) + r"\(([\w, ]*)\)", pat)
                    if m and fl:
                        names = [t for t in m.group(1).split(",") if t]
                        if len(names) != len(fl):
                            raise ParseError("arity of pattern " + pat)
                        c2 = c.copy()
                        args = []
                        for n, f in zip(names, fl):
                            mut = n.startswith("mut ")
                            n2 = n[4:] if mut else n
                            g = self.fresh(n2.lstrip("_") or "x")
                            c2.locals[n2] = V(g, f[1], f[2])
                            if mut:
                                c2.mutable = c2.mutable | {n2}
                            args.append(g)
                        return con + "".join(" " + a for a in args), c2, vn
        raise ParseError("pattern %s of %s" % (pat, en))

    def match(self, e, c, cont, tailk):
        scrut = strip_paren(e[1])
        arms = e[2]
        r = self.prims.match(self, e, c, cont, tailk)
        if r is not None:
            return r
        if scrut[0] == "path" and scrut[1] in c.locals and c.locals[scrut[1]].kind == "sres":
            return self.match_sres(c.locals[scrut[1]], arms, c, cont, tailk)
        for pat, guard, body in arms:
            if guard is not None:
                raise ParseError("match guard")
        u = unref(scrut)
        # match &mut self.state { Variant(inner) => …, _ => … }  (borrow: writes go through to self.state)
        if u[0] == "field" and is_self(u[1]) and u[2] == "state" and strip_paren(scrut)[0] == "un" and strip_paren(scrut)[1] == "&mut":
            f = self.state_field(c)
            en = f[2][5:]
            out, seen = [], []
            for pat, _, body in arms:
                if pat == "_":
                    out.append("| _ =>\n    %s" % self.arm(body, c.copy(), cont, tailk))
                    seen = [v[0] for v in self.enums[en]]
                    continue
                head, c2, vn = self.enum_pattern(en, pat, c)
                vd = [v for v in self.enums[en] if v[0] == vn][0]
                seen.append(vn)
                streams = [(fl[0], i) for i, fl in enumerate(vd[2]) if fl[1] in ("stream", "wstream")]
                if vd[3] or len(vd[2]) > 2:
                    raise ParseError("borrow of a struct variant")
                if len(vd[2]) == 1 and streams:
                    nm = re.fullmatch(r".*\((?:mut )?(\w+)\)", pat).group(1)
                    c2.borrow = (nm, vd[1] + " %s")
                elif len(vd[2]) == 2:
                    # InData(_written, compress): the second component is written through
                    nms = re.fullmatch(r".*\((?:mut )?(\w+),(?:mut )?(\w+)\)", pat)
                    c2.borrow = (nms.group(2), vd[1] + " " + c2.locals[nms.group(1)].text + " %s")
                out.append("| %s =>\n    %s" % (head, self.arm(body, c2, cont, tailk)))
            if sorted(seen) != sorted(v[0] for v in self.enums[en]):
                raise ParseError("match on self.state not exhaustive")
            return "match (%s %s) with\n    %s\n    end" % (f[1], c.self, "\n    ".join(out))
        def on_value(v, c0):
            out = []
            if v.kind.startswith("enum:"):
                en = v.kind[5:]
                seen = []
                for pat, _, body in arms:
                    if pat == "_":
                        out.append("| _ =>\n    %s" % self.arm(body, c0.copy(), cont, tailk))
                        seen = [x[0] for x in self.enums[en]]
                        continue
                    head, c2, vn = self.enum_pattern(en, pat, c0)
                    seen.append(vn)
                    out.append("| %s =>\n    %s" % (head, self.arm(body, c2, cont, tailk)))
                if sorted(seen) != sorted(x[0] for x in self.enums[en]):
                    raise ParseError("match on %s not exhaustive" % en)
            elif v.kind == "optsinfo":
                seen = []
                for pat, _, body in arms:
                    c2 = c0.copy()
                    mm = re.fullmatch(r"Some\((\w+)\)", pat)
                    m2 = re.fullmatch(r"Some\(SizesInfo\{compressed_sizes,\.\.\}\)", pat)
                    if pat == "None":
                        out.append("| None =>\n    %s" % self.arm(body, c2, cont, tailk))
                        seen.append("N")
                    elif mm:
                        g = self.fresh(mm.group(1))
                        c2.locals[mm.group(1)] = V(g, "sinfo")
                        out.append("| Some %s =>\n    %s" % (g, self.arm(body, c2, cont, tailk)))
                        seen.append("S")
                    elif m2:
                        g = self.fresh("si")
                        c2.locals["compressed_sizes"] = V("(si_sizes %s)" % g, "list")
                        out.append("| Some %s =>\n    %s" % (g, self.arm(body, c2, cont, tailk)))
                        seen.append("S")
                    else:
                        raise ParseError("option pattern " + pat)
                if sorted(seen) != ["N", "S"]:
                    raise ParseError("option match not exhaustive")
            elif v.kind == "opterr":
                seen = []
                for pat, _, body in arms:
                    c2 = c0.copy()
                    mm = re.fullmatch(r"Some\((\w+)\)", pat)
                    if pat == "None":
                        out.append("| None =>\n    %s" % self.arm(body, c2, cont, tailk))
                        seen.append("N")
                    elif mm:
                        g = self.fresh(mm.group(1))
                        c2.locals[mm.group(1)] = V(g, "err")
                        out.append("| Some %s =>\n    %s" % (g, self.arm(body, c2, cont, tailk)))
                        seen.append("S")
                    else:
                        raise ParseError("option pattern " + pat)
                if sorted(seen) != ["N", "S"]:
                    raise ParseError("option match not exhaustive")
            elif v.kind == "whence":
                seen = []
                for pat, _, body in arms:
                    c2 = c0.copy()
                    mm = re.fullmatch(r"(SeekFrom::\w+)\((\w+)\)", pat)
                    if not mm or mm.group(1) not in WHENCE:
                        raise ParseError("SeekFrom pattern " + pat)
                    con, ty, ity = WHENCE[mm.group(1)]
                    g = self.fresh(mm.group(2))
                    c2.locals[mm.group(2)] = V(g, ty, ity)
                    seen.append(con)
                    out.append("| %s %s =>\n    %s" % (con, g, self.arm(body, c2, cont, tailk)))
                if sorted(seen) != sorted(x[0] for x in WHENCE.values()):
                    raise ParseError("match on SeekFrom not exhaustive")
            elif v.kind == "sres":
                return self.match_sres(v, arms_g, c0, cont, tailk)
            else:
                raise ParseError("match on a value of kind " + v.kind)
            return "match %s with\n    %s\n    end" % (v.text, "\n    ".join(out))
        arms_g = arms
        return self.val(scrut, c, on_value)

    def match_sres(self, v, arms, c, cont, tailk):
        raise ParseError("match on a static result")


# ====================================================================== primitives shared by the three modules
class Prims:
    merge_pure_ifs = False

    def literal_ity(self, name):
        return None

    def call_val(self, tr, e, c, k):
        fn, args = e[1][1], e[2]
        # std::mem::replace(&mut self.state, Enum::Empty)
        if fn in ("std::mem::replace", "mem::replace") and len(args) == 2:
            tgt = unref(args[0])
            if tgt[0] == "field" and is_self(tgt[1]) and tgt[2] == "state" and c.borrow is None:
                f = tr.state_field(c)
                nv = tr.pe(args[1], c)
                if nv.kind != f[2]:
                    raise ParseError("mem::replace value")
                old = tr.fresh("old_state")
                out = "let %s := (%s %s) in\n    " % (old, f[1], c.self)
                out += tr.set_field(c, "state", nv.text)
                return out + k(V(old, f[2]), c)
        return None

    def mcall_val(self, tr, e, c, k):
        return None

    def try_val(self, tr, x, c, k):
        return None

    def let_hook(self, tr, pat, mut, e, c, cont):
        return None

    def effect(self, tr, e, c, cont):
        return None

    def assign(self, tr, e, c, cont):
        return None

    def tail(self, tr, t, c):
        return None

    def if_let(self, tr, e, c, cont, tailk):
        raise ParseError("if let " + e[1][1])

    def match(self, tr, e, c, cont, tailk):
        return None


def slice_to(tr, e, c, k):
    """&mut buf[..size] / &buf[..size] on the caller's buffer -> k(size text)"""
    e0 = unref(e)
    if e0[0] == "index":
        rg = strip_paren(e0[2])
        b = unref(e0[1])
        if rg[0] == "range" and rg[1] is None and rg[2] is not None and b[0] == "path" and b[1] in c.locals and c.locals[b[1]].kind == "buf":
            whole = c.locals[b[1]].text
            upto = tr.pe(rg[2], c).num()
            return "if %s <? %s then %s else\n    %s" % (whole, upto, tr.exit(c, "Crash site_index"), k(upto))
    raise ParseError("buffer slice " + show(e)[:40])


# ====================================================================== module Rd: the reader
class RdPrims(Prims):
    def call_val(self, tr, e, c, k):
        r = Prims.call_val(self, tr, e, c, k)
        if r is not None:
            return r
        fn, args = e[1][1], e[2]
        if fn == "brotli::Decompressor::new" and len(args) == 2:
            a0 = strip_paren(args[0])
            if a0[0] == "mcall" and a0[2] == "take" and len(a0[3]) == 1:
                nm = tr.stream_local(a0[1], c)
                if nm is not None and c.borrow is None:
                    n = tr.pe(a0[3][0], c)
                    b = tr.pe(args[1], c)
                    if n.ity != "u64" or b.ity != "usize":
                        raise ParseError("types of Decompressor::new arguments")
                    c1 = c.copy()
                    del c1.locals[nm]
                    return tr.on_res(c1, "Decompressor_new %s %s %s" % (c.locals[nm].text, n.num(), b.num()), k, "d", "decomp")
        return None

    def mcall_val(self, tr, e, c, k):
        recv, m, args = e[1], e[2], e[3]
        r0 = strip_paren(recv)
        # decompressor.into_inner().into_inner()
        if m == "into_inner" and not args and r0[0] == "mcall" and r0[2] == "into_inner" and not r0[3]:
            d = unref(r0[1])
            if d[0] == "path" and d[1] in c.locals and c.locals[d[1]].kind == "decomp":
                return k(V("(d_in %s)" % c.locals[d[1]].text, "stream"), c)
        # self.sizes_info.as_ref().unwrap().<plain method>()
        if r0[0] == "mcall" and r0[2] == "unwrap" and not r0[3] and ("sinfo", m) in tr.methods and tr.methods[("sinfo", m)][1] == "plain" and not args:
            o = tr.pe(unref(r0[1]), c)
            if o.kind == "optsinfo":
                g = tr.fresh("si")
                coq, _, retk, reti, _ = tr.methods[("sinfo", m)]
                return "match %s with\n    | None => %s\n    | Some %s =>\n    %s\n    end" % (
                    o.text, tr.exit(c, "Crash site_panic"), g, k(V("(%s %s)" % (coq, g), retk, reti), c))
        return None

    def try_val(self, tr, x, c, k):
        if x[0] == "mcall":
            recv, m, args = x[1], x[2], x[3]
            nm = tr.stream_local(recv, c)
            if nm is not None and c.locals[nm].kind == "stream":
                cur = c.locals[nm].text
                if m == "seek" and len(args) == 1:
                    return tr.whence(args[0], c, lambda w, c2: tr.stream_op(nm, "sk S %s %s" % (c2.locals[nm].text, w.text), c2, k, "pos", "N", "u64"))
                if m == "stream_position" and not args:
                    return tr.stream_op(nm, "sk S %s (FromCur 0%%Z)" % cur, c, k, "pos", "N", "u64")
                if m == "read_u32::<LittleEndian>" and not args:
                    return tr.stream_op(nm, "read_exact S 5 %s 4" % cur, c, lambda v, c2: k(V("(le_val %s)" % v.text, "N", "u32"), c2), "d", "bytes")
                if m == "initialize" and not args:
                    return tr.stream_op(nm, "inner_initialize %s" % cur, c, k, "u", "unit")
            d = unref(recv)
            if m == "read" and len(args) == 1 and d[0] == "path" and d[1] in c.locals and c.locals[d[1]].kind == "decomp":
                def kr(size):
                    d1, data = tr.fresh("decompressor"), tr.fresh("data")
                    c2 = c.copy()
                    c2.locals[d[1]] = V(d1, "decomp")
                    return "let '(%s, %s) := dec_read S %s %s in\n    %s" % (d1, data, c.locals[d[1]].text, size, k(V(data, "count", "usize"), c2))
                return slice_to(tr, args[0], c, kr)
        if x[0] == "call" and x[1][0] == "path" and x[1][1] == "io::copy" and len(x[2]) == 2:
            if nows(show(x[2][1])) != "&mutio::sink()":
                raise ParseError("io::copy destination")
            a0 = unref(x[2][0])
            if a0[0] == "mcall" and a0[2] == "take" and len(a0[3]) == 1:
                d = unref(a0[1])
                if d[0] == "path" and d[1] in c.locals and c.locals[d[1]].kind == "decomp" and strip_paren(a0[1]) != d:
                    n = tr.pe(a0[3][0], c)
                    if n.ity != "u64":
                        raise ParseError("take of a non-u64")
                    d1, data = tr.fresh("decompressor"), tr.fresh("skipped")
                    c2 = c.copy()
                    c2.locals[d[1]] = V(d1, "decomp")
                    return "let '(%s, %s) := dec_read S %s %s in\n    %s" % (d1, data, c.locals[d[1]].text, n.num(), k(V(data, "count", "u64"), c2))
        return None

    def if_let(self, tr, e, c, cont, tailk):
        _, cond, th, el = e
        m = re.fullmatch(r"Ok\((\w+)\)", cond[1])
        x = strip_paren(cond[2])
        if m and is_call(x, "i64::try_from", 1) and el is not None:
            v = tr.pe(x[2][0], c)
            if v.kind != "N" or v.ity != "u64":
                raise ParseError("i64::try_from of a non-u64")
            c1, c2 = c.copy(), c.copy()
            pre = tr.bind_fresh(c1, m.group(1), V("(Z.of_N %s)" % v.text, "Z", "i64"))
            a = tr.stmts(list(th[1]), th[2], c1, cont, tailk)
            b = tr.if_(el, c2, cont, tailk) if el[0] == "if" else tr.stmts(list(el[1]), el[2], c2, cont, tailk)
            return "if %s <? 2 ^ 63 then\n    %s%s\n    else\n    %s" % (v.text, pre, a, b)
        raise ParseError("if let " + cond[1])

    def match(self, tr, e, c, cont, tailk):
        u = unref(strip_paren(e[1]))
        arms = e[2]
        if u[0] == "mcall" and u[2] == "deserialize_from" and nows(show(u)).startswith("bincode::options()"):
            chain, x = [], u
            while x[0] == "mcall":
                chain.append((x[2], x[3]))
                x = strip_paren(x[1])
            chain.reverse()
            if nows(show(x)) != "bincode::options()" or [n for n, _ in chain] != ["with_limit", "with_fixint_encoding", "deserialize_from"]:
                raise ParseError("bincode chain " + show(u)[:60])
            lim = tr.pe(chain[0][1][0], c).num()
            src = strip_paren(chain[2][1][0])
            if not (src[0] == "mcall" and src[2] == "take" and len(src[3]) == 1):
                raise ParseError("bincode source is not a take(..)")
            nm = tr.stream_local(src[1], c)
            if nm is None:
                raise ParseError("bincode source")
            tk = tr.pe(src[3][0], c)
            if tk.ity != "u64":
                raise ParseError("take of a non-u64")
            pats = [p for p, _, _ in arms]
            mm = re.fullmatch(r"Ok\((\w+)\)", pats[0]) if pats else None
            if len(arms) != 2 or not mm or pats[1] not in ("_", "Err(_)") or any(g is not None for _, g, _ in arms):
                raise ParseError("arms of the bincode result")
            s1, g = tr.fresh(nm), tr.fresh(mm.group(1))
            c1, c2 = c.copy(), c.copy()
            c1.locals[nm] = V(s1, "stream")
            c2.locals[nm] = V(s1, "stream")
            c1.locals[mm.group(1)] = V(g, "sinfo")
            return ("match bincode_deserialize_SizesInfo %s %s %s with\n    | (%s, Ok %s) =>\n    %s\n    | (%s, Err _) =>\n    %s\n    | (%s, Crash x) => %s\n    end"
                    % (lim, tk.num(), c.locals[nm].text, s1, g, tr.arm(arms[0][2], c1, cont, tailk), s1,
                       tr.arm(arms[1][2], c2, cont, tailk), s1, tr.exit(c2, "Crash x")))
        return None


RD_PREAMBLE = r"""Module Rd.
Section ReaderSrc.
  Variables UNCOMPRESSED_DATA_SIZE BINCODE_MAX_DESERIALIZE : N.   (* values: gen/Src.v, gen/Src3d.v *)
  Variable dec : bytes -> bytes.
  Variable S : Stream.
  (* labels of the panic sites (a convention of the model, not a fact of the source) *)
  Variables site_sub site_index site_add_u32 site_add_i64 site_neg_i64 site_panic : N.
  Variable inner_initialize : st S -> st S * res unit.                       (* inner.initialize() *)
  Variable bincode_deserialize_SizesInfo : N -> N -> st S -> st S * res sizes_info.
  (* brotli::Decompressor::new(inner.take(n), bufsize): the whole-block decompressor of CompLayer.v *)
  Definition Decompressor_new (inner : st S) (n bufsize : N) : res (decomp S) :=
    match read_full S (dec_fuel n) inner n with
    | (i', Ok cb) => Ok (mkDec i' (dec cb) 0)
    | (_, Err e) => Err e
    | (_, Crash x) => Crash x
    end.

  (* enum CompressionLayerReaderState<R>, in source order *)
  Inductive CompressionLayerReaderState :=
  | Ready (inner : st S)
  | InData (read uncompressed_size : N) (decompressor : decomp S)
  | Empty.
  (* struct CompressionLayerReader *)
  Record CompressionLayerReader := mkCLR { clr_state : CompressionLayerReaderState; clr_sizes_info : option sizes_info; clr_underlayer_pos : N }.
  Definition set_clr_state s v := mkCLR v (clr_sizes_info s) (clr_underlayer_pos s).
  Definition set_clr_sizes_info s v := mkCLR (clr_state s) v (clr_underlayer_pos s).
  Definition set_clr_underlayer_pos s v := mkCLR (clr_state s) (clr_sizes_info s) v.
"""

RD_STRUCTS = {"CompressionLayerReader": ("mkCLR", [("state", "clr_state", "enum:CompressionLayerReaderState", None),
                                                    ("sizes_info", "clr_sizes_info", "optsinfo", None),
                                                    ("underlayer_pos", "clr_underlayer_pos", "N", "u64")])}
RD_ENUMS = {"CompressionLayerReaderState": [("Ready", "Ready", [("inner", "stream", None)], False),
                                             ("InData", "InData", [("read", "N", "u32"), ("uncompressed_size", "N", "u32"), ("decompressor", "decomp", None)], True),
                                             ("Empty", "Empty", [], False)]}
RD_CONSTS = {"UNCOMPRESSED_DATA_SIZE": "u32", "BINCODE_MAX_DESERIALIZE": "u64"}

# item: dict(coq, fn, within, self=(struct|kind|None), params=[(name, kind, ity)], mode, ret, rty, wrap_ok, method=(recvkind, rustname, shape), rec)
RD_ITEMS = [
    dict(coq="SizesInfo_uncompressed_block_size_at", fn="uncompressed_block_size_at", within=r"impl SizesInfo \{", selfk="sinfo",
         params=[("block_num", "N", "usize")], mode="plain", ret="N", reti="u32", rty="N", method=("sinfo", "uncompressed_block_size_at", "plain")),
    dict(coq="SizesInfo_compressed_block_size_at", fn="compressed_block_size_at", within=r"impl SizesInfo \{", selfk="sinfo",
         params=[("uncompressed_pos", "N", "u64")], mode="res", ret="N", reti="u32", rty="res N", method=("sinfo", "compressed_block_size_at", "res")),
    dict(coq="SizesInfo_max_uncompressed_pos", fn="max_uncompressed_pos", within=r"impl SizesInfo \{", selfk="sinfo",
         params=[], mode="plain", ret="N", reti="u64", rty="N", method=("sinfo", "max_uncompressed_pos", "plain")),
    dict(coq="state_into_inner", fn="into_inner", within=r"impl<R: Read> CompressionLayerReaderState<R> \{", selfk="enum:CompressionLayerReaderState",
         params=[], mode="res", ret="stream", rty="res (st S)", wrap_ok=True, method=("enum:CompressionLayerReaderState", "into_inner", "panics")),
    dict(coq="CompressionLayerReader_new", fn="new", within=r"impl<'a, R: 'a \+ Read> CompressionLayerReader<'a, R> \{", selfk=None,
         params=[("inner", "stream", None)], mode="res", ret="rec:CompressionLayerReader", rty="res CompressionLayerReader", struct_self="CompressionLayerReader"),
    dict(coq="pos_in_stream", fn="pos_in_stream", within=r"impl<'a, R: 'a \+ Read> CompressionLayerReader<'a, R> \{", selfk="CompressionLayerReader",
         params=[("uncompressed_pos", "N", "u64")], mode="plain", ret="bool", rty="bool", method=("self", "pos_in_stream", "plain")),
    dict(coq="new_decompressor_at", fn="new_decompressor_at", within=r"impl<'a, R: 'a \+ Read> CompressionLayerReader<'a, R> \{", selfk="CompressionLayerReader",
         params=[("inner", "stream", None), ("uncompressed_pos", "N", "u64")], mode="res", ret="decomp", rty="res (decomp S)",
         method=("self", "new_decompressor_at", "res-consumes")),
    dict(coq="uncompressed_block_size_at", fn="uncompressed_block_size_at", within=r"impl<'a, R: 'a \+ Read> CompressionLayerReader<'a, R> \{", selfk="CompressionLayerReader",
         params=[("uncompressed_pos", "N", "u64")], mode="res", ret="N", reti="u32", rty="res N", method=("self", "uncompressed_block_size_at", "res")),
    dict(coq="sync_inner_with_uncompressed_pos", fn="sync_inner_with_uncompressed_pos", within=r"impl<'a, R: 'a \+ Read> CompressionLayerReader<'a, R> \{",
         selfk="CompressionLayerReader", params=[("inner", "stream", None), ("uncompressed_pos", "N", "u64")], mode="stream", stream_out="inner",
         ret="unit", rty="st S * res unit", method=("self", "sync_inner_with_uncompressed_pos", "stream")),
    dict(coq="initialize", fn="initialize", within=r"impl<'a, R: 'a \+ InnerReaderTrait> LayerReader<'a, R> for CompressionLayerReader<'a, R> \{",
         selfk="CompressionLayerReader", params=[], mode="self", ret="unit", rty="CompressionLayerReader * res unit"),
    dict(coq="comp_read", fn="read", within=r"impl<'a, R: 'a \+ Read \+ Seek> Read for CompressionLayerReader<'a, R> \{",
         selfk="CompressionLayerReader", params=[("buf", "buf", None)], mode="self", ret="count", rty="CompressionLayerReader * res bytes",
         rec={"read": ["buf"]}),
    dict(coq="comp_seek", fn="seek", within=r"impl<R: Read \+ Seek> Seek for CompressionLayerReader<'_, R> \{",
         selfk="CompressionLayerReader", params=[("pos", "whence", None)], mode="self", ret="N", rty="CompressionLayerReader * res N",
         rec={"seek": ["whence"]}),
]
COQ_TYPES = {"stream": "st S", "wstream": "W", "list": "list N", "buf": "N", "bytes": "bytes", "whence": "whence", "N": "N", "sinfo": "sizes_info"}
SELF_TYPES = {"sinfo": "sizes_info"}


def struct_fields(src, name):
    m = re.search(r"struct\s+%s\b[^{;]*\{" % name, src)
    if not m:
        raise ParseError("struct " + name)
    j = R.match_brace(src, m.end() - 1)
    body = R.strip_comments(src[m.end():j])
    body = re.sub(r"#\[[^\]]*\]", "", body)
    return nows(body)


def enum_text(src, name):
    m = re.search(r"enum\s+%s\b[^{;]*\{" % name, src)
    if not m:
        raise ParseError("enum " + name)
    j = R.match_brace(src, m.end() - 1)
    return nows(re.sub(r"#\[[^\]]*\]", "", R.strip_comments(src[m.end():j])))


def fn_params(header):
    i = header.index("(")
    depth, j = 0, i
    while True:
        if header[j] == "(":
            depth += 1
        elif header[j] == ")":
            depth -= 1
            if depth == 0:
                break
        j += 1
    ps, depth, cur = [], 0, ""
    for ch in header[i + 1:j]:
        if ch in "<([":
            depth += 1
        elif ch in ">)]":
            depth -= 1
        if ch == "," and depth == 0:
            ps.append(cur)
            cur = ""
        else:
            cur += ch
    if cur.strip():
        ps.append(cur)
    out = []
    for p in ps:
        p = re.sub(r"\s+", " ", p.strip())
        if re.fullmatch(r"&?\s*(mut )?self", p) or p in ("&mut self", "self: Box<Self>"):
            out.append("self")
        else:
            out.append(re.sub(r"^mut ", "", p.split(":", 1)[0].strip()))
    return out


def translate_item(item, src, tr, fileline=True):
    r = None
    for mw in re.finditer(item["within"], src):     # the first impl block with this header that holds the fn
        r0 = R.fn_text(src[mw.start():], item["fn"], 0, item["within"])
        if r0 is not None:
            r = (r0[0], r0[1] + src[:mw.start()].count("\n"), r0[2])
            break
    if r is None:
        raise ParseError("fn %s not found" % item["fn"])
    got = fn_params(r[2])
    want = (["self"] if item["selfk"] is not None else []) + [p for p, _, _ in item["params"]]
    if got != want:
        raise ParseError("parameters of %s changed: %s" % (item["fn"], got))
    body = R.parse_body(r[0])
    c = Ctx()
    c.mode = item["mode"]
    c.ret = item["ret"]
    c.wrap_ok = item.get("wrap_ok", False)
    c.stream_out = item.get("stream_out")
    c.struct_self = item.get("struct_self")
    binders = []
    sk = item["selfk"]
    if sk is not None:
        c.self = "self"
        if sk in tr.structs:
            c.struct = sk
            c.struct_self = sk
            binders.append("(self : %s)" % sk)
        else:
            c.locals["self"] = V("self", sk)
            binders.append("(self : %s)" % SELF_TYPES.get(sk, sk[5:] if sk.startswith("enum:") else sk))
    for p, kind, ity in item["params"]:
        if kind == "buf":
            c.locals[p] = V(p + "_len", "buf", "usize")
            binders.append("(%s_len : N)" % p)
        elif kind == "bufbytes":
            c.locals[p] = V(p, "bytes")
            binders.append("(%s : bytes)" % p)
        elif kind == "cfg":
            c.locals[p] = V(p, kind, ity)
            binders.append("(%s_compression_level : N)" % p)
        else:
            c.locals[p] = V(p, kind, ity)
            binders.append("(%s : %s)" % (p, COQ_TYPES[kind]))
    head = "(* mla/src/layers/compress.rs:%d fn %s *)" % (r[1], item["fn"])
    rec = item.get("rec")
    if rec:
        c.rec = {m: (item["coq"], kinds) for m, kinds in rec.items()}
    if sk is not None and sk not in tr.structs:
        # methods of a value (SizesInfo, the state enum): `self` is an ordinary local; `self.f` / `match self`
        c.self = None
    if item.get("loop"):
        t = strip_paren(body[2]) if body[2] is not None else None
        if body[1] or t is None or t[0] != "loop" or t[1] is not None or t[2][2] is None and not t[2][1]:
            raise ParseError("the body is not a single loop")
        args = "".join(" " + (c.locals[p].text) for p, _, _ in item["params"])
        g = tr.stmts(list(t[2][1]), t[2][2], c, lambda c2: "%s fuel' %s%s" % (item["coq"], c2.self, args), None)
        rec = True
    else:
        g = tr.stmts(list(body[1]), body[2], c, None, None)
    if rec:
        fail = "(self, Err EFuel)"
        return ("%s\n  Fixpoint %s (fuel : nat) %s {struct fuel} : %s :=\n    match fuel with\n    | O => %s\n    | Datatypes.S fuel' =>\n    %s\n    end."
                % (head, item["coq"], " ".join(binders), item["rty"], fail, g))
    return "%s\n  Definition %s %s : %s :=\n    %s." % (head, item["coq"], " ".join(binders), item["rty"], g)


def register(item, tr):
    if "method" in item:
        rk, name, shape = item["method"]
        tr.methods[(rk, name)] = (item["coq"], shape, item["ret"], item.get("reti"), [k for _, k, _ in item["params"]])


def run_module(out, src, preamble, structs, enums, consts, prims, items, checks, modname, closing):
    try:
        checks(src)
    except Exception as e:
        out.append("(* %s data: %s *)" % (modname, str(e).replace("*)", "* )")))
        out.append("Definition %s_data_untranslatable : unit := tt." % modname)
        return
    out.append(preamble)
    tr = Tr(structs, enums, consts, prims)
    for item in items:
        try:
            out.append("  " + translate_item(item, src, tr))
            register(item, tr)
        except Exception as e:  # fail closed, per item
            out.append("  (* %s: %s *)" % (item["coq"], str(e).replace("*)", "* )")))
            out.append("  Definition %s_untranslatable : unit := tt." % item["coq"])
    out.append(closing)


def rd_checks(src):
    want = {"SizesInfo": "pubcompressed_sizes:Vec<u32>,last_block_size:u32,",
            "CompressionLayerReader": "state:CompressionLayerReaderState<Box<dyn'a+LayerReader<'a,R>>>,pubsizes_info:Option<SizesInfo>,underlayer_pos:u64,"}
    for nm, w in want.items():
        if struct_fields(src, nm) != w:
            raise ParseError("struct %s changed: %s" % (nm, struct_fields(src, nm)))
    w = "Ready(R),InData{read:u32,uncompressed_size:u32,decompressor:Box<brotli::Decompressor<Take<R>>>,},Empty,"
    if enum_text(src, "CompressionLayerReaderState") != w:
        raise ParseError("enum CompressionLayerReaderState changed: " + enum_text(src, "CompressionLayerReaderState"))
    if not re.search(r"const UNCOMPRESSED_DATA_SIZE: u32 = ", src):
        raise ParseError("UNCOMPRESSED_DATA_SIZE is not a u32")


def strip_tests(src):
    i = src.find("#[cfg(test)]\nmod tests")
    return src if i < 0 else src[:i]


def generate():
    out = ["(* GENERATED by tools/src2v3_comp.py from %s — do not edit. *)" % REPO,
           "From MLA Require Import Base Stream CompLayer CompFailSafe.", "Open Scope N_scope.", ""]
    with open(os.path.join(REPO, "mla/src/layers/compress.rs"), encoding="utf-8") as f:
        src = strip_tests(f.read())
    run_module(out, src, RD_PREAMBLE, RD_STRUCTS, RD_ENUMS, RD_CONSTS, RdPrims(), RD_ITEMS, rd_checks, "Rd", "End ReaderSrc.\nEnd Rd.\n")
    for mod in EXTRA_MODULES:
        mod(out, src)
    return "\n".join(out) + "\n"


EXTRA_MODULES = []


def main():
    try:
        text = generate()
    except Exception as e:  # fail closed as a whole
        text = "(* GENERATED: tools/src2v3_comp.py failed: %s *)\nDefinition src3c_untranslatable : unit := tt.\n" % str(e).replace("*)", "* )")
    outp = os.path.normpath(OUT)
    old = None
    if os.path.exists(outp):
        with open(outp) as f:
            old = f.read()
    if old != text:
        with open(outp, "w") as f:
            f.write(text)
        print("src2v3_comp: wrote", outp)
    else:
        print("src2v3_comp: unchanged", outp)



# ====================================================================== module Wr: the writer
class WrPrims(Prims):
    def literal_ity(self, name):
        return {"last_block_size": "u32"}.get(name)

    def comp_local(self, e, c):
        d = unref(e)
        if d[0] == "path" and d[1] in c.locals and c.locals[d[1]].kind == "comp":
            return d[1]
        return None

    def call_val(self, tr, e, c, k):
        r = Prims.call_val(self, tr, e, c, k)
        if r is not None:
            return r
        fn, args = e[1][1], e[2]
        if fn == "WriterWithCount::new" and len(args) == 1 and ("static", fn) in tr.methods:
            nm = tr.stream_local(args[0], c)
            if nm is not None:
                c1 = c.copy()
                del c1.locals[nm]
                return k(V("(%s %s)" % (tr.methods[("static", fn)][0], c.locals[nm].text), "rec:WriterWithCount"), c1)
        if fn == "brotli::CompressorWriter::new" and len(args) == 4:
            w = tr.pe(args[0], c)
            if w.kind == "rec:WriterWithCount" and strip_paren(args[1]) == ("int", 0) and nows(show(args[2])) == "self.compression_level" \
                    and nows(show(args[3])) == "BROTLI_LOG_WINDOW":
                tr.pe(args[2], c)
                return k(V("(mkCompressor %s [])" % w.text, "comp"), c)
        if fn in ("std::mem::take", "mem::take") and len(args) == 1:
            tgt = unref(args[0])
            if tgt[0] == "field" and is_self(tgt[1]) and c.struct and tr.field(c, tgt[2])[2] == "list":
                f = tr.field(c, tgt[2])
                old = tr.fresh(tgt[2])
                out = "let %s := (%s %s) in\n    " % (old, f[1], c.self)
                out += tr.set_field(c, tgt[2], "[]")
                return out + k(V(old, "list"), c)
        if fn == "Vec::new" and not args:
            return k(V("[]", "list"), c)
        return None

    def mcall_val(self, tr, e, c, k):
        recv, m, args = e[1], e[2], e[3]
        nm = self.comp_local(recv, c)
        if nm is not None and m == "into_inner" and not args:
            cv = c.locals[nm].text
            c1 = c.copy()
            del c1.locals[nm]
            return k(V("(compressor_finish (co_inner %s) (comp (co_cur %s)))" % (cv, cv), "rec:WriterWithCount"), c1)
        # bincode::options().with_limit(L).with_fixint_encoding().serialize_into(&mut inner, &sinfo).is_err()
        if m == "is_err" and not args and nows(show(recv)).startswith("bincode::options()"):
            chain, x = [], strip_paren(recv)
            while x[0] == "mcall":
                chain.append((x[2], x[3]))
                x = strip_paren(x[1])
            chain.reverse()
            if nows(show(x)) != "bincode::options()" or [n for n, _ in chain] != ["with_limit", "with_fixint_encoding", "serialize_into"] or len(chain[2][1]) != 2:
                raise ParseError("bincode chain " + show(recv)[:60])
            lim = tr.pe(chain[0][1][0], c).num()
            wn = tr.stream_local(chain[2][1][0], c)
            si = tr.pe(chain[2][1][1], c)
            if wn is None or si.kind != "sinfo":
                raise ParseError("serialize_into arguments")
            s1, r1 = tr.fresh(wn), tr.fresh("r")
            c1, c2 = c.copy(), c.copy()
            c1.locals[wn] = V(s1, "wstream")
            c2.locals[wn] = V(s1, "wstream")
            bad = tr.exit(c2, "Crash x")
            return "match bincode_serialize_SizesInfo %s %s %s with\n    | (%s, Crash x) => %s\n    | (%s, %s) =>\n    %s\n    end" % (
                lim, c.locals[wn].text, si.text, s1, bad, s1, r1, k(V("(negb (is_ok %s))" % r1, "bool"), c1))
        return None

    def try_val(self, tr, x, c, k):
        if x[0] != "mcall":
            return None
        recv, m, args = x[1], x[2], x[3]
        nm = self.comp_local(recv, c)
        if nm is not None and m == "write" and len(args) == 1:
            e0 = unref(args[0])
            if e0[0] == "index" and strip_paren(e0[2])[0] == "range" and strip_paren(e0[2])[1] is None and strip_paren(e0[2])[2] is not None:
                b = tr.pe(unref(e0[1]), c)
                size = tr.pe(strip_paren(e0[2])[2], c)
                if b.kind != "bytes" or size.ity != "usize":
                    raise ParseError("compress.write argument")
                c2 = c.copy()
                cv = c.locals[nm].text
                g = tr.fresh(nm)
                c2.locals[nm] = V(g, "comp")
                return "if (len %s) <? %s then %s else\n    let %s := mkCompressor (co_inner %s) (co_cur %s ++ takeN %s %s) in\n    %s" % (
                    b.text, size.text, tr.exit(c, "Crash site_index"), g, cv, cv, size.text, b.text, k(V(size.text, "N", "usize"), c2))
        wn = tr.stream_local(recv, c)
        if wn is not None and c.locals[wn].kind == "wstream":
            if m == "write_u32::<LittleEndian>" and len(args) == 1:
                def kv(v, c2):
                    if v.ity != "u32":
                        raise ParseError("write_u32 of a non-u32")
                    return tr.stream_op(wn, "w_write_all %s (le_bytes 4 %s)" % (c2.locals[wn].text, v.num()), c2, k, "u", "unit")
                return tr.val(args[0], c, kv)
            if m == "finalize" and not args:
                return tr.stream_op(wn, "w_finalize %s" % c.locals[wn].text, c, k, "u", "unit")
        return None

    def let_hook(self, tr, pat, mut, e, c, cont):
        e = strip_paren(e)
        # let res = self.inner.write(buf).inspect(|&i| { … });
        if e[0] == "mcall" and e[2] == "inspect" and len(e[3]) == 1 and strip_paren(e[3][0])[0] == "closure":
            w = strip_paren(e[1])
            cl = strip_paren(e[3][0])
            if w[0] == "mcall" and w[2] == "write" and len(w[3]) == 1 and nows(show(w[1])) == "self.inner" and c.struct == "WriterWithCount":
                b = tr.pe(w[3][0], c)
                mm = re.fullmatch(r"&(\w+)", cl[1])
                if b.kind != "bytes" or not mm:
                    raise ParseError("inner write / closure parameter")
                f = tr.field(c, "inner")
                w1, i1, e1 = tr.fresh("inner"), tr.fresh(mm.group(1)), tr.fresh("e")
                ca, cb, cc = c.copy(), c.copy(), c.copy()
                pre_a = tr.set_field(ca, "inner", w1)
                ca.locals[mm.group(1)] = V(i1, "N", "usize")
                def after(c2):
                    c3 = c2.copy()
                    c3.locals.pop(mm.group(1), None)
                    c3.locals[pat] = V("", "sres", None, ("Ok", V(i1, "N", "usize")))
                    return cont(c3)
                body = strip_paren(cl[2])
                a = tr.stmts(list(body[1]), body[2], ca, after, None) if body[0] == "block" else tr.effect(body, ca, after, None)
                pre_b = tr.set_field(cb, "inner", w1)
                cb.locals[pat] = V("", "sres", None, ("Err", e1))
                cb.locals["__err_" + pat] = V(e1, "err")
                bb = cont(cb)
                pre_c = tr.set_field(cc, "inner", w1)
                return "match w_write (%s %s) %s with\n    | (%s, Ok %s) =>\n    %s%s\n    | (%s, Err %s) =>\n    %s%s\n    | (%s, Crash x) =>\n    %s%s\n    end" % (
                    f[1], c.self, b.text, w1, i1, pre_a, a, w1, e1, pre_b, bb, w1, pre_c, tr.exit(cc, "Crash x"))
        return None

    def effect(self, tr, e, c, cont):
        # self.compressed_sizes.push(x)
        if e[0] == "mcall" and e[2] == "push" and len(e[3]) == 1:
            t = strip_paren(e[1])
            if t[0] == "field" and is_self(t[1]) and c.struct and tr.field(c, t[2])[2] == "list":
                v = tr.pe(e[3][0], c)
                if v.ity != "u32":
                    raise ParseError("push of a non-u32")
                f = tr.field(c, t[2])
                return tr.set_field(c, t[2], "(%s %s ++ [%s])" % (f[1], c.self, v.num())) + cont(c)
        return None

    def assign(self, tr, e, c, cont):
        op, lhs, rhs = e[1], strip_paren(e[2]), e[3]
        # compress.get_mut().error = None
        if op == "=" and lhs[0] == "field" and lhs[2] == "error":
            g = strip_paren(lhs[1])
            if g[0] == "mcall" and g[2] == "get_mut" and not g[3]:
                nm = self.comp_local(g[1], c)
                if nm is not None and strip_paren(rhs) == ("path", "None") and nm in c.mutable:
                    cv = c.locals[nm].text
                    g1 = tr.fresh(nm)
                    c.locals[nm] = V(g1, "comp")
                    return "let %s := mkCompressor (set_wwc_error (co_inner %s) None) (co_cur %s) in\n    %s" % (g1, cv, cv, cont(c))
        return None

    def tail(self, tr, t, c):
        if t[0] == "mcall" and t[2] == "flush" and not t[3]:
            if nows(show(t[1])) == "self.inner" and c.struct == "WriterWithCount":
                f = tr.field(c, "inner")
                return "let '(w, r) := w_flush (%s %s) in (set_%s %s w, r)" % (f[1], c.self, f[1], c.self)
            wn = tr.stream_local(t[1], c)
            if wn is not None and c.locals[wn].kind == "wstream":
                c2 = c.copy()
                c2.locals[wn] = V("w", "wstream")
                return "let '(w, r) := w_flush %s in %s" % (c.locals[wn].text, tr.exit(c2, "r"))
            nm = self.comp_local(t[1], c)
            if nm is not None:
                c2 = c.copy()
                c2.locals[nm] = V("co", "comp")
                return "let '(co, r) := compressor_flush %s in %s" % (c.locals[nm].text, tr.exit(c2, "r"))
        return None

    def if_let(self, tr, e, c, cont, tailk):
        _, cond, th, el = e
        m = re.fullmatch(r"Err\((\w+)\)", cond[1])
        x = unref(cond[2])
        if m and x[0] == "path" and x[1] in c.locals and c.locals[x[1]].kind == "sres" and el is None and cont is not None:
            v = c.locals[x[1]]
            if v.items[0] == "Ok":
                return cont(c)
            c1 = c.copy()
            c1.locals[m.group(1)] = V(v.items[1], "err")
            return tr.stmts(list(th[1]), th[2], c1, cont, tailk)
        raise ParseError("if let " + cond[1])

    def match(self, tr, e, c, cont, tailk):
        scrut = strip_paren(e[1])
        arms = e[2]
        if any(g is not None for _, g, _ in arms):
            return None
        if is_call(scrut, "u32::try_from", 1) and len(arms) == 2:
            v = tr.pe(scrut[2][0], c)
            m = re.fullmatch(r"Ok\((\w+)\)", arms[0][0])
            if v.ity not in ("usize", "u64") or not m or arms[1][0] not in ("Err(_)", "_"):
                raise ParseError("match on u32::try_from")
            c1, c2 = c.copy(), c.copy()
            c1.locals[m.group(1)] = V(v.num(), "N", "u32")
            return "if %s <? 2 ^ 32 then\n    %s\n    else\n    %s" % (v.num(), tr.arm(arms[0][1 + 1], c1, cont, tailk), tr.arm(arms[1][2], c2, cont, tailk))
        if is_call(scrut, "bincode::serialized_size", 1) and len(arms) == 2:
            si = tr.pe(scrut[2][0], c)
            m = re.fullmatch(r"Ok\((\w+)\)", arms[0][0])
            if si.kind != "sinfo" or not m or arms[1][0] not in ("Err(_)", "_"):
                raise ParseError("match on serialized_size")
            g = tr.fresh(m.group(1))
            c1, c2 = c.copy(), c.copy()
            c1.locals[m.group(1)] = V(g, "N", "u64")
            bad = tr.exit(c.copy(), "Crash x")
            return "match bincode_serialized_size %s with\n    | Ok %s =>\n    %s\n    | Err _ =>\n    %s\n    | Crash x => %s\n    end" % (
                si.text, g, tr.arm(arms[0][2], c1, cont, tailk), tr.arm(arms[1][2], c2, cont, tailk), bad)
        return None


WR_PREAMBLE = r"""Module Wr.
Section WriterSrc.
  Variables UNCOMPRESSED_DATA_SIZE BINCODE_MAX_DESERIALIZE BROTLI_LOG_WINDOW : N.
  Variable comp : bytes -> bytes.
  (* the inner writer (InnerWriterType): write, write_all (for write_u32), flush, finalize *)
  Variable W : Type.
  Variable w_write : W -> bytes -> W * res N.
  Variable w_write_all : W -> bytes -> W * res unit.
  Variables w_flush w_finalize : W -> W * res unit.
  Variable is_interrupted : err -> bool.                    (* e.kind() == io::ErrorKind::Interrupted *)
  Variables site_sub site_index site_add_u32 site_panic : N.
  Variable bincode_serialize_SizesInfo : N -> W -> sizes_info -> W * res unit.
  Variable bincode_serialized_size : sizes_info -> res N.

  (* struct WriterWithCount<W> *)
  Record WriterWithCount := mkWWC { wwc_inner : W; wwc_pos : N; wwc_error : option err }.
  Definition set_wwc_inner s v := mkWWC v (wwc_pos s) (wwc_error s).
  Definition set_wwc_pos s v := mkWWC (wwc_inner s) v (wwc_error s).
  Definition set_wwc_error s v := mkWWC (wwc_inner s) (wwc_pos s) v.
  (* brotli::CompressorWriter<WriterWithCount<W>>: its writer and the plaintext fed so far (trusted) *)
  Record Compressor := mkCompressor { co_inner : WriterWithCount; co_cur : bytes }.
  Variable compressor_finish : WriterWithCount -> bytes -> WriterWithCount.    (* into_inner(): pushes comp(cur), errors dropped *)
  Variable compressor_flush : Compressor -> Compressor * res unit.
  (* enum CompressionLayerWriterState<W>, in source order *)
  Inductive CompressionLayerWriterState :=
  | Ready (inner : W)
  | InData (written : N) (compress : Compressor)
  | Empty.
  (* struct CompressionLayerWriter *)
  Record CompressionLayerWriter := mkCLW { clw_state : CompressionLayerWriterState; clw_compressed_sizes : list N; clw_compression_level : N }.
  Definition set_clw_state s v := mkCLW v (clw_compressed_sizes s) (clw_compression_level s).
  Definition set_clw_compressed_sizes s v := mkCLW (clw_state s) v (clw_compression_level s).
"""
WR_STRUCTS = {"WriterWithCount": ("mkWWC", [("inner", "wwc_inner", "wstream", None), ("pos", "wwc_pos", "N", "u32"), ("error", "wwc_error", "opterr", None)]),
              "CompressionLayerWriter": ("mkCLW", [("state", "clw_state", "enum:CompressionLayerWriterState", None),
                                                    ("compressed_sizes", "clw_compressed_sizes", "list", None),
                                                    ("compression_level", "clw_compression_level", "N", "u32")])}
WR_ENUMS = {"CompressionLayerWriterState": [("Ready", "Ready", [("inner", "wstream", None)], False),
                                             ("InData", "InData", [("written", "N", "u32"), ("compress", "comp", None)], False),
                                             ("Empty", "Empty", [], False)]}
WR_CONSTS = {"UNCOMPRESSED_DATA_SIZE": "u32", "BINCODE_MAX_DESERIALIZE": "u64", "BROTLI_LOG_WINDOW": "u32"}
WWC = r"impl<W: Write> WriterWithCount<W> \{"
WWCW = r"impl<W: Write> Write for WriterWithCount<W> \{"
CLW = r"impl<'a, W: 'a \+ InnerWriterTrait> Write for CompressionLayerWriter<'a, W> \{"
WR_ITEMS = [
    dict(coq="WriterWithCount_new", fn="new", within=WWC, selfk=None, params=[("inner", "wstream", None)], mode="plain",
         ret="rec:WriterWithCount", rty="WriterWithCount", struct_self="WriterWithCount", method=("static", "WriterWithCount::new", "static")),
    dict(coq="wwc_into_inner", fn="into_inner", within=WWC, selfk="WriterWithCount", params=[], mode="plain", ret="wstream", rty="W",
         method=("rec:WriterWithCount", "into_inner", "total")),
    dict(coq="wwc_check_no_error", fn="check_no_error", within=WWC, selfk="WriterWithCount", params=[], mode="res", ret="unit", rty="res unit",
         method=("rec:WriterWithCount", "check_no_error", "res")),
    dict(coq="wwc_write", fn="write", within=WWCW, selfk="WriterWithCount", params=[("buf", "bufbytes", None)], mode="self", ret="size",
         rty="WriterWithCount * res N"),
    dict(coq="wwc_flush", fn="flush", within=WWCW, selfk="WriterWithCount", params=[], mode="self", ret="unit", rty="WriterWithCount * res unit"),
    dict(coq="CompressionLayerWriter_new", fn="new", within=r"impl<'a, W: 'a \+ InnerWriterTrait> CompressionLayerWriter<'a, W> \{", selfk=None,
         params=[("inner", "wstream", None), ("config", "cfg", None)], mode="plain", ret="rec:CompressionLayerWriter", rty="CompressionLayerWriter",
         struct_self="CompressionLayerWriter"),
    dict(coq="cw_finalize", fn="finalize", within=r"impl<'a, W: 'a \+ InnerWriterTrait> LayerWriter<'a, W> for CompressionLayerWriter<'a, W> \{",
         selfk="CompressionLayerWriter", params=[], mode="self", ret="unit", rty="CompressionLayerWriter * res unit"),
    dict(coq="cw_write", fn="write", within=CLW, selfk="CompressionLayerWriter", params=[("buf", "bufbytes", None)], mode="self", ret="size",
         rty="CompressionLayerWriter * res N", rec={"write": ["bufbytes"]}),
    dict(coq="cw_flush", fn="flush", within=CLW, selfk="CompressionLayerWriter", params=[], mode="self", ret="unit", rty="CompressionLayerWriter * res unit"),
]
COQ_TYPES["cfg"] = "N"


def wr_checks(src):
    want = {"WriterWithCount": "inner:W,pos:u32,error:Option<io::ErrorKind>,",
            "CompressionLayerWriter": "state:CompressionLayerWriterState<InnerWriterType<'a,W>>,compressed_sizes:Vec<u32>,compression_level:u32,",
            "CompressionConfig": "compression_level:u32,"}
    for nm, w in want.items():
        if struct_fields(src, nm) != w:
            raise ParseError("struct %s changed: %s" % (nm, struct_fields(src, nm)))
    w = "Ready(W),InData(u32,Box<brotli::CompressorWriter<WriterWithCount<W>>>),Empty,"
    if enum_text(src, "CompressionLayerWriterState") != w:
        raise ParseError("enum CompressionLayerWriterState changed: " + enum_text(src, "CompressionLayerWriterState"))
    if not re.search(r"const BROTLI_LOG_WINDOW: u32 = ", src):
        raise ParseError("BROTLI_LOG_WINDOW")


def wr_module(out, src):
    run_module(out, src, WR_PREAMBLE, WR_STRUCTS, WR_ENUMS, WR_CONSTS, WrPrims(), WR_ITEMS, wr_checks, "Wr", "End WriterSrc.\nEnd Wr.\n")


EXTRA_MODULES.append(wr_module)



# ====================================================================== module Fs: the fail-safe reader
class FsPrims(Prims):
    merge_pure_ifs = True

    def literal_ity(self, name):
        return {"input_offset": "usize", "output_offset": "usize", "written": "usize"}.get(name)

    def call_val(self, tr, e, c, k):
        r = Prims.call_val(self, tr, e, c, k)
        if r is not None:
            return r
        fn, args = e[1][1], e[2]
        if fn == "BrotliState::new" and [nows(show(a)) for a in args] == ["StandardAlloc::default()"] * 3:
            return k(V("dinit", "dstate"), c)
        if fn == "Ok" and len(args) == 1:
            return k(V("", "sres", None, ("Ok", tr.pe(args[0], c))), c)
        if fn == "Err" and len(args) == 1:
            return k(V("", "sres", None, ("Err", err_of(args[0]))), c)
        return None

    def try_val(self, tr, x, c, k):
        return None

    def tail(self, tr, t, c):
        # error.map(Some) on the Err branch of inner.read
        if t[0] == "mcall" and t[2] == "map" and len(t[3]) == 1 and strip_paren(t[3][0]) == ("path", "Some"):
            r = strip_paren(t[1])
            if r[0] == "path" and r[1] in c.locals and c.locals[r[1]].kind == "sres" and c.locals[r[1]].items[0] == "Err" and c.ret == "optcount":
                return tr.exit(c, "Err " + c.locals[r[1]].items[1])
        return None

    def if_let(self, tr, e, c, cont, tailk):
        _, cond, th, el = e
        m = re.fullmatch(r"Some\((\w+)\)", cond[1])
        x = strip_paren(cond[2])
        if m and x[0] == "try" and el is None and cont is not None:
            cl = strip_paren(x[1])
            if cl[0] == "mcall" and is_self(cl[1]) and ("self", cl[2]) in tr.methods and tr.methods[("self", cl[2])][1] == "self-fuel" and len(cl[3]) == 1:
                coq = tr.methods[("self", cl[2])][0]
                b = tr.pe(unref(cl[3][0]), c)
                if b.kind != "buf":
                    raise ParseError("buffer argument")
                s1, g = tr.fresh("self"), tr.fresh(m.group(1))
                c1, c2 = c.copy(), c.copy()
                c1.self = c2.self = s1
                c1.locals[m.group(1)] = V(g, "count", "usize")
                return ("match %s %s_fuel %s %s with\n    | (%s, Ok (Some %s)) =>\n    %s\n    | (%s, Ok None) =>\n    %s\n    | (%s, Err e) => (%s, Err e)\n    | (%s, Crash x) => (%s, Crash x)\n    end"
                        % (coq, coq, c.self, b.text, s1, g, tr.stmts(list(th[1]), th[2], c1, cont, tailk), s1, cont(c2), s1, s1, s1, s1))
        raise ParseError("if let " + cond[1])

    def match(self, tr, e, c, cont, tailk):
        scrut = strip_paren(e[1])
        arms = e[2]
        # match inner.read(&mut cache[cfo..]) { Ok(read) => …, error => … }
        if scrut[0] == "mcall" and scrut[2] == "read" and len(scrut[3]) == 1:
            nm = tr.stream_local(scrut[1], c)
            sl = unref(scrut[3][0])
            if nm is not None and sl[0] == "index" and strip_paren(sl[2])[0] == "range" and strip_paren(sl[2])[2] is None and strip_paren(sl[2])[1] is not None:
                cache = strip_paren(sl[1])
                if cache[0] != "path" or cache[1] not in c.mutable or c.locals[cache[1]].kind != "bytes":
                    raise ParseError("read target")
                at = tr.pe(strip_paren(sl[2])[1], c)
                if at.ity != "usize" or len(arms) != 2 or any(g is not None for _, g, _ in arms):
                    raise ParseError("inner.read arms")
                m1 = re.fullmatch(r"Ok\((\w+)\)", arms[0][0])
                m2 = re.fullmatch(r"\w+", arms[1][0])
                if not m1 or not m2:
                    raise ParseError("inner.read patterns")
                cv = c.locals[cache[1]].text
                s1, d1, e1, cn = tr.fresh(nm), tr.fresh("data"), tr.fresh("e"), tr.fresh(cache[1])
                ca, cb, cc = c.copy(), c.copy(), c.copy()
                for cx in (ca, cb, cc):
                    cx.locals[nm] = V(s1, "stream")
                ca.locals[cache[1]] = V(cn, "bytes")
                ca.locals[m1.group(1)] = V(d1, "count", "usize")
                cb.locals[m2.group(0)] = V("", "sres", None, ("Err", e1))
                def drop(name, k0):
                    def kk(c2):
                        c3 = c2.copy()
                        c3.locals.pop(name, None)
                        return k0(c3)
                    return kk
                if cont is None or tailk is not None:
                    raise ParseError("inner.read in value position")
                a = tr.arm(arms[0][2], ca, drop(m1.group(1), cont), None)
                b = tr.arm(arms[1][2], cb, drop(m2.group(0), cont), None)
                return ("if (len %s) <? %s then %s else\n    match rd S %s ((len %s) - %s) with\n    | (%s, Ok %s) =>\n    let %s := slice_write %s %s %s in\n    %s\n"
                        "    | (%s, Err %s) =>\n    %s\n    | (%s, Crash x) => %s\n    end"
                        % (cv, at.text, tr.exit(c, "Crash site_index"), c.locals[nm].text, cv, at.text, s1, d1, cn, cv, at.text, d1, a,
                           s1, e1, b, s1, tr.exit(cc, "Crash x")))
        # match brotli::BrotliDecompressStream(…) { four arms }
        if is_call(scrut, "brotli::BrotliDecompressStream", 8):
            a = scrut[2]
            names = []
            for i in (0, 1, 3, 4, 6, 7):
                x = strip_paren(a[i])
                if not (x[0] == "un" and x[1] == "&mut" and strip_paren(x[2])[0] == "path" and strip_paren(x[2])[1] in c.mutable):
                    raise ParseError("BrotliDecompressStream argument %d" % i)
                names.append(strip_paren(x[2])[1])
            av_in, in_off, av_out, out_off, written, state = names
            sl = strip_paren(a[2])
            if not (sl[0] == "un" and sl[1] == "&" and strip_paren(sl[2])[0] == "index"):
                raise ParseError("BrotliDecompressStream input")
            ix = strip_paren(sl[2])
            rg = strip_paren(ix[2])
            cache = tr.pe(ix[1], c)
            if cache.kind != "bytes" or rg[0] != "range" or rg[1] is None or rg[2] is None:
                raise ParseError("BrotliDecompressStream input slice")
            lo, hi = tr.pe(rg[1], c), tr.pe(rg[2], c)
            b = tr.pe(a[5], c)
            if b.kind != "buf" or c.locals[state].kind != "dstate":
                raise ParseError("BrotliDecompressStream output / state")
            if c.locals[av_in].text != "(%s - %s)" % (hi.text, lo.text) and c.locals[av_in].text not in [v.text for v in c.locals.values()] :
                raise ParseError("available_in is not the length of the input slice")
            if not self.defined_as(c, av_in, "(%s - %s)" % (hi.text, lo.text)):
                raise ParseError("available_in is not the length of the input slice")
            for z in (in_off, out_off, written):
                if c.locals[z].text != "0":
                    raise ParseError("%s is not 0 at the call" % z)
            pats = {"brotli::BrotliResult::ResultSuccess": "DSuccess", "brotli::BrotliResult::NeedsMoreInput": "DNeedsMoreInput",
                    "brotli::BrotliResult::NeedsMoreOutput": "DNeedsMoreOutput", "brotli::BrotliResult::ResultFailure": "DFailure"}
            if sorted(p for p, _, _ in arms) != sorted(pats) or any(g is not None for _, g, _ in arms):
                raise ParseError("BrotliResult arms")
            r1, k1, o1, ds1 = tr.fresh("r"), tr.fresh("consumed"), tr.fresh("out"), tr.fresh("ds")
            c1 = c.copy()
            for z in (av_in, av_out, written):
                del c1.locals[z]
            c1.locals[in_off] = V(k1, "N", "usize")
            c1.locals[out_off] = V(o1, "count", "usize")
            c1.locals[state] = V(ds1, "dstate")
            out = []
            for p, _, body in arms:
                out.append("| %s =>\n    %s" % (pats[p], tr.arm(body, c1.copy(), cont, tailk)))
            return ("if %s <? %s then %s else\n    if (len %s) <? %s then %s else\n    let '(%s, %s, %s, %s) := dstep %s (sliceN %s (%s - %s) %s) %s in\n    match %s with\n    %s\n    end"
                    % (hi.text, lo.text, tr.exit(c, "Crash site_index"), cache.text, hi.text, tr.exit(c, "Crash site_index"),
                       r1, k1, o1, ds1, c.locals[state].text, lo.text, hi.text, lo.text, cache.text, c.locals[av_out].text, r1, "\n    ".join(out)))
        return None

    def defined_as(self, c, name, text):
        return c.defs.get(c.locals[name].text) == text or c.locals[name].text == text


def fs_match_sres(self, v, arms, c, cont, tailk):
    """match on a result whose constructor is known statically: Ok(0) if g / Ok(x) / Err(x) arms, in order"""
    if v.items[0] == "Err":
        for pat, guard, body in arms:
            m = re.fullmatch(r"Err\((\w+)\)", pat)
            if m and guard is None:
                c2 = c.copy()
                c2.locals[m.group(1)] = V(v.items[1], "err")
                return self.arm(body, c2, cont, tailk)
        raise ParseError("no Err arm")
    val = v.items[1]
    def go(rest):
        if not rest:
            raise ParseError("no catch-all Ok arm")
        pat, guard, body = rest[0]
        if re.fullmatch(r"Err\(\w+\)", pat):
            return go(rest[1:])
        m = re.fullmatch(r"Ok\((\w+)\)", pat)
        if not m:
            raise ParseError("result pattern " + pat)
        if m.group(1).isdigit():
            cond = "(%s =? %s)" % (val.num(), m.group(1))
            if guard is not None:
                gv = self.pe(guard, c)
                if gv.kind != "bool":
                    raise ParseError("guard")
                cond = "(%s && %s)" % (cond, gv.text)
            return "if %s then\n    %s\n    else\n    %s" % (cond, self.arm(body, c.copy(), cont, tailk), go(rest[1:]))
        if guard is not None:
            raise ParseError("guard on a binding arm")
        c2 = c.copy()
        c2.locals[m.group(1)] = val
        return self.arm(body, c2, cont, tailk)
    return go(list(arms))


Tr.match_sres = fs_match_sres

FS_PREAMBLE = r"""Module Fs.
Section FailSafeSrc.
  Variables UNCOMPRESSED_DATA_SIZE FAIL_SAFE_BUFFER_SIZE : N.
  Variable dstate : Type.
  Variable dinit : dstate.                                                   (* BrotliState::new(..) *)
  Variable dstep : dstate -> bytes -> N -> dresult * N * bytes * dstate.     (* brotli::BrotliDecompressStream *)
  Variable S : Stream.
  Variables site_sub site_index site_add_u32 site_panic : N.
  Variable read_pass_fuel : nat.     (* depth allowed to the `self.read_pass(buf)` recursion when called from `read` (2 suffices) *)
  Definition vec_zeros (n : N) : bytes := repeat 0 (N.to_nat n).                                  (* vec![0u8; n], fill(0) *)
  (* x.read(&mut cache[at..]) that got `data`: the bytes land at the start of the slice *)
  Definition slice_write (cache : bytes) (at_ : N) (data : bytes) : bytes := takeN at_ cache ++ data ++ dropN (at_ + len data) cache.

  (* enum CompressionLayerFailSafeReaderState<R>, in source order *)
  Inductive CompressionLayerFailSafeReaderState :=
  | Ready (inner : st S)
  | InData (cache : bytes) (cache_filled_offset read_offset : N) (state : dstate) (uncompressed_read : N) (inner : st S)
  | Empty.
  (* struct CompressionLayerFailSafeReader *)
  Record CompressionLayerFailSafeReader := mkFSR { fsr_state : CompressionLayerFailSafeReaderState }.
  Definition set_fsr_state (s : CompressionLayerFailSafeReader) v := mkFSR v.
"""
FS_STRUCTS = {"CompressionLayerFailSafeReader": ("mkFSR", [("state", "fsr_state", "enum:CompressionLayerFailSafeReaderState", None)])}
FS_ENUMS = {"CompressionLayerFailSafeReaderState": [
    ("Ready", "Ready", [("inner", "stream", None)], False),
    ("InData", "InData", [("cache", "bytes", None), ("cache_filled_offset", "N", "usize"), ("read_offset", "N", "usize"), ("state", "dstate", None),
                          ("uncompressed_read", "N", "u32"), ("inner", "stream", None)], True),
    ("Empty", "Empty", [], False)]}
FS_CONSTS = {"UNCOMPRESSED_DATA_SIZE": "u32", "FAIL_SAFE_BUFFER_SIZE": "usize"}
FS_ITEMS = [
    dict(coq="CompressionLayerFailSafeReader_new", fn="new", within=r"impl<'a, R: 'a \+ Read> CompressionLayerFailSafeReader<'a, R> \{", selfk=None,
         params=[("inner", "stream", None)], mode="res", ret="rec:CompressionLayerFailSafeReader", rty="res CompressionLayerFailSafeReader",
         struct_self="CompressionLayerFailSafeReader"),
    dict(coq="read_pass", fn="read_pass", within=r"impl<'a, R: 'a \+ Read> CompressionLayerFailSafeReader<'a, R> \{", nth=0, which=1,
         selfk="CompressionLayerFailSafeReader", params=[("buf", "buf", None)], mode="self", ret="optcount",
         rty="CompressionLayerFailSafeReader * res (option bytes)", rec={"read_pass": ["buf"]}, method=("self", "read_pass", "self-fuel")),
    dict(coq="fs_read", fn="read", within=r"impl<'a, R: 'a \+ Read> Read for CompressionLayerFailSafeReader<'a, R> \{",
         selfk="CompressionLayerFailSafeReader", params=[("buf", "buf", None)], mode="self", ret="count",
         rty="CompressionLayerFailSafeReader * res bytes", loop=True),
]


def fs_checks(src):
    if struct_fields(src, "CompressionLayerFailSafeReader") != "state:CompressionLayerFailSafeReaderState<Box<dyn'a+LayerFailSafeReader<'a,R>>>,":
        raise ParseError("struct CompressionLayerFailSafeReader changed")
    w = ("Ready(R),InData{cache:Vec<u8>,cache_filled_offset:usize,read_offset:usize,state:Box<BrotliState<StandardAlloc,StandardAlloc,StandardAlloc>>,"
         "uncompressed_read:u32,inner:R,},Empty,")
    if enum_text(src, "CompressionLayerFailSafeReaderState") != w:
        raise ParseError("enum CompressionLayerFailSafeReaderState changed: " + enum_text(src, "CompressionLayerFailSafeReaderState"))
    if not re.search(r"const FAIL_SAFE_BUFFER_SIZE: usize = ", src):
        raise ParseError("FAIL_SAFE_BUFFER_SIZE")


def fs_module(out, src):
    run_module(out, src, FS_PREAMBLE, FS_STRUCTS, FS_ENUMS, FS_CONSTS, FsPrims(), FS_ITEMS, fs_checks, "Fs", "End FailSafeSrc.\nEnd Fs.\n")


EXTRA_MODULES.append(fs_module)


if __name__ == "__main__":
    main()
