#!/bin/bash
# tools/confirm_seed_c.sh <seeded dir>: like confirm_seed.sh for a demonstration written in C against libmla.so (C20).
D=$(readlink -f "$1")
WT=/tmp/seedconf/wt-$(basename $D)
export CARGO_TARGET_DIR=/tmp/seedconf/target${LANE:-} CARGO_NET_OFFLINE=true
mkdir -p /tmp/seedconf
git -C /repo worktree add --detach $WT HEAD >/dev/null 2>&1
LOG=$D/confirm.log; : > $LOG
cd $WT
run_demo() {
  cargo build -p mla-bindings-c --offline >>$LOG 2>&1 || return 99
  gcc -Wall -O0 -g -Ibindings/C $D/demo.c -o $CARGO_TARGET_DIR/demo_seed.elf -L$CARGO_TARGET_DIR/debug -lmla -lpthread -ldl -lm >>$LOG 2>&1 || return 98
  LD_LIBRARY_PATH=$CARGO_TARGET_DIR/debug timeout 300 $CARGO_TARGET_DIR/demo_seed.elf >>$LOG 2>&1
}
run_demo; R0=$?
git apply $D/patch.diff || echo "PATCH DOES NOT APPLY" | tee -a $LOG
run_demo; R1=$?
cargo test --workspace --offline -- --skip test_repair_auth_unauth >>$LOG 2>&1; R2=$?
cd /; git -C /repo worktree remove --force $WT
echo "$(basename $D): demo without change rc=$R0 (want 0); demo with change rc=$R1 (want !=0); suite with change rc=$R2 (want 0)" | tee -a $LOG
