use std::path::{Path, Component, PathBuf};
fn main() {
    let tests = ["", "/", "//", "///a", "//a", "a//b/", "./a", "a/./b", "a/.", ".", "..", "a/..", "/..", "...", "a/.../b",
        "./.", ".//", "a/b/../c", ".a", "a.", " ", "/./a", "//./a", "../a", "a/../..", "./..", "../.", "/.", "/./", "/a/./",
        "a/", "a", "/a", "a/b", "./a/./b/.", "././a", ".//./a", "..a", "a..", "a/..b/c", "a/b../c", ". /a", "/../a", "é/ü", "a/./", "././.", "/./.", "./../x", "a/ /b", ".../.."];
    for s in tests.iter() {
        let mut out = String::new();
        for c in Path::new(s).components() {
            match c {
                Component::Prefix(_) => out.push_str("Prefix; "),
                Component::RootDir => out.push_str("RootDir; "),
                Component::CurDir => out.push_str("CurDir; "),
                Component::ParentDir => out.push_str("ParentDir; "),
                Component::Normal(p) => { out.push_str(&format!("Normal (s2b {:?}); ", p.to_str().unwrap())); }
            }
        }
        let out = out.trim_end_matches("; ");
        // also show parent of pushed path
        let mut pb = PathBuf::from("/out");
        for c in Path::new(s).components() { if let Component::Normal(p) = c { pb.push(p); } }
        println!("{:?} => [{}]   pushed={:?} parent={:?}", s, out, pb, pb.parent());
    }
    // starts_with behaviour
    println!("{}", Path::new("/out/a").starts_with("/out"));
    println!("{}", Path::new("/outx/a").starts_with("/out"));
    println!("{}", Path::new("/out").starts_with("/out/"));
    println!("{:?}", Path::new("/").parent());
    println!("{:?}", Path::new("/out").parent());
}
