#![allow(dead_code)]
use std::fs::{self, File};
use std::io::{self, Write};
use std::path::{Component, Path, PathBuf};
type MlarError = io::Error;
/// Compute the full path of the final file, using defensive measures
/// similar as what tar-rs does for `Entry::unpack_in`:
/// <https://github.com/alexcrichton/tar-rs/blob/0.4.26/src/entry.rs#L344>
fn get_extracted_path(output_dir: &Path, file_name: &str) -> Option<PathBuf> {
    let mut file_dst = output_dir.to_path_buf();
    for part in Path::new(&file_name).components() {
        match part {
            // Leading '/' characters, root paths, and '.'
            // components are just ignored and treated as "empty
            // components"
            Component::Prefix(..) | Component::RootDir | Component::CurDir => {}

            // If any part of the filename is '..', then skip over
            // unpacking the file to prevent directory traversal
            // security issues.  See, e.g.: CVE-2001-1267,
            // CVE-2002-0399, CVE-2005-1918, CVE-2007-4131
            Component::ParentDir => {
                eprintln!("[!] Skipping file \"{file_name}\" because it contains \"..\"");
                return None;
            }

            Component::Normal(part) => file_dst.push(part),
        }
    }
    Some(file_dst)
}

/// Create a file and associate parent directories in a given output directory
fn create_file<P1: AsRef<Path>>(
    output_dir: P1,
    fname: &str,
) -> Result<Option<(File, PathBuf)>, MlarError> {
    let Some(extracted_path) = get_extracted_path(output_dir.as_ref(), fname) else {
        return Ok(None);
    };
    // Create all directories leading to the file
    let Some(containing_directory) = extracted_path.parent() else {
        eprintln!(
            "[!] Skipping file \"{}\" because it does not have a parent (from {})",
            &fname,
            extracted_path.display()
        );
        return Ok(None);
    };
    if !containing_directory.exists() {
        fs::create_dir_all(containing_directory).map_err(|err| {
            eprintln!(
                " [!] Error while creating output directory path for \"{}\" ({:?})",
                output_dir.as_ref().display(),
                err
            );
            err
        })?;
    }

    // Ensure that the containing directory is in the output dir
    let containing_directory = fs::canonicalize(containing_directory).map_err(|err| {
        eprintln!(
            " [!] Error while canonicalizing extracted file output directory path \"{}\" ({:?})",
            containing_directory.display(),
            err
        );
        err
    })?;
    if !containing_directory.starts_with(output_dir) {
        eprintln!(
            " [!] Skipping file \"{}\" because it would be extracted outside of the output directory, in {}",
            fname,
            containing_directory.display()
        );
        return Ok(None);
    }
    Ok(Some((
        File::create(&extracted_path).map_err(|err| {
            eprintln!(" [!] Unable to create \"{fname}\" ({err:?})");
            err
        })?,
        extracted_path,
    )))
}

fn show(r: &Result<Option<(File, PathBuf)>, MlarError>) -> String {
    match r { Ok(Some((_, p))) => format!("Created {:?}", p), Ok(None) => "Skipped".into(), Err(e) => format!("Failed({:?})", e.kind()) }
}
fn main() {
    let base = std::env::temp_dir().join("agentD_cf");
    let _ = fs::remove_dir_all(&base);
    fs::create_dir_all(base.join("out")).unwrap();
    fs::create_dir_all(base.join("outside")).unwrap();
    fs::create_dir_all(base.join("out/real")).unwrap();
    fs::write(base.join("outside/secret"), b"root").unwrap();
    std::os::unix::fs::symlink(base.join("outside/secret"), base.join("out/x")).unwrap();
    std::os::unix::fs::symlink(base.join("outside"), base.join("out/l")).unwrap();
    std::os::unix::fs::symlink(base.join("outside/nonexistent"), base.join("out/d")).unwrap();
    std::os::unix::fs::symlink(base.join("out/real"), base.join("out/in")).unwrap();
    let out = fs::canonicalize(base.join("out")).unwrap();
    let r = create_file(&out, "x"); println!("1 x: {}", show(&r));
    if let Ok(Some((mut f, _))) = r { f.write_all(b"PWNED").unwrap(); }
    println!("   outside/secret = {:?}", String::from_utf8_lossy(&fs::read(base.join("outside/secret")).unwrap()));
    let r = create_file(&out, "l/x/y"); println!("2 l/x/y: {}  outside/x exists={}", show(&r), base.join("outside/x").is_dir());
    let r = create_file(&out, "a"); println!("3 a: {}", show(&r));
    let r = create_file(&out, "a/b"); println!("3 a/b: {}", show(&r));
    for n in ["", "/", ".", "./", "//."] { let r = create_file(&out, n); println!("4 {:?}: {}", n, show(&r)); }
    let r = create_file(&out, "p/q"); println!("5 p/q: {}", show(&r));
    let r = create_file(&out, "p"); println!("5 p: {}", show(&r));
    let r = create_file(&out, "d"); println!("6 d: {}  outside/nonexistent exists={}", show(&r), base.join("outside/nonexistent").is_file());
    let r = create_file(&out, "in/f"); println!("7 in/f: {}  out/real/f exists={}", show(&r), base.join("out/real/f").is_file());
    let r = create_file(&out, "n\0ul"); println!("8 nul: {}", show(&r));
    let long = "A".repeat(256);
    let r = create_file(&out, &long); println!("8 long256: {}", show(&r));
    let r = create_file(&out, &format!("{}/f", long)); println!("8 long256/f: {}", show(&r));
    let r = create_file(&out, "a/../../x"); println!("9 a/../../x: {}", show(&r));
    let r = create_file(&out, "/a"); println!("10 /a: {}", show(&r));
    let r = create_file("/", ""); println!("11 root,\"\": {}", show(&r));
    let r = create_file(&out, "a/b/c"); println!("12 a/b/c: {}", show(&r));
    let _ = fs::remove_dir_all(&base);
}
