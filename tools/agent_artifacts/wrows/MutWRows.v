(* SCRATCH (not in _CoqProject, removed after the demonstration): mutated copies of model functions *)
From MLA Require Import Base Stream Inst EncLayer EncWriter InstGcm Sink Gcm Format Ecies EciesGcm CompLayer Archive ArchiveInst.
From MLA Require Import Blocks Writer RunWRows.
From MLA.Concrete Require Aes Ghash Sha256 GcmSpec.
From MLAGen Require Src.
Open Scope N_scope.

Section M.
  Variables CH CB : N. Variable ks : N -> N -> N. Variable tagc : N -> bytes -> bytes.
  (* M1: the tag of a full chunk is written EAGERLY (when the chunk fills), not by the next write *)
  Definition ew_write_m1 (s : ewstate) (buf : bytes) : res (ewstate * N) :=
    if CH <? ew_off s then Err EState else
    let size := N.min (N.min CB (len buf)) (CH - ew_off s) in
    let ct := xor_from ks (ew_ctr s) (ew_off s) (takeN size buf) in
    let s2 := mkEW (ew_out s ++ ct) (ew_ctr s) (ew_off s + size) (ew_cur s ++ ct) in
    do s3 <- (if ew_off s2 =? CH then ew_renew tagc s2 else Ok s2); Ok (s3, size).
  (* M2: the cipher buffer bound is dropped *)
  Definition ew_write_m2 (s : ewstate) (buf : bytes) : res (ewstate * N) :=
    if CH <? ew_off s then Err EState else
    do s1 <- (if ew_off s =? CH then ew_renew tagc s else Ok s);
    let size := N.min (len buf) (CH - ew_off s1) in
    let ct := xor_from ks (ew_ctr s1) (ew_off s1) (takeN size buf) in
    Ok (mkEW (ew_out s1 ++ ct) (ew_ctr s1) (ew_off s1 + size) (ew_cur s1 ++ ct), size).
  Variable W : ewstate -> bytes -> res (ewstate * N).
  Fixpoint wall (fuel : nat) (s : ewstate) (buf : bytes) : res ewstate :=
    match buf with [] => Ok s | _ => match fuel with O => Err EFuel | S f => do r <- W s buf; let '(s', n) := r in if n =? 0 then Err EIo else wall f s' (dropN n buf) end end.
  Fixpoint encw_ops_m (fuel : nat) (s : ewstate) (ops : list (list N)) : list (list N) :=
    match ops with
    | [] => [9 :: ew_out s]
    | op :: rest =>
      match op with
      | 0 :: buf => match W s buf with Ok (s', n) => [0; n; len (ew_out s')] :: encw_ops_m fuel s' rest | r => [[wr_code r]; 9 :: ew_out s] end
      | 1 :: buf => match wall fuel s buf with Ok s' => [0; len (ew_out s')] :: encw_ops_m fuel s' rest | r => [[wr_code r]; 9 :: ew_out s] end
      | [3] => match ew_finalize tagc s with Ok s' => [0; len (ew_out s')] :: encw_ops_m fuel s' rest | r => [[wr_code r]; 9 :: ew_out s] end
      | _ => [0; len (ew_out s)] :: encw_ops_m fuel s rest
      end
    end.
End M.
Definition c01_encw_m (which : N) (k : consts) (key nonce8 : bytes) (ntab : N) (ops : list (list N)) : list (list N) :=
  let rk := Aes.aes256_expand key in
  let tab := gcm_tab rk nonce8 (cCHUNK k) (N.to_nat ntab) in
  let W := if which =? 1 then ew_write_m1 (cCHUNK k) (cCIPHERBUF k) (gcm_ks tab) (gcm_tagc rk nonce8)
           else ew_write_m2 (cCHUNK k) (gcm_ks tab) (gcm_tagc rk nonce8) in
  encw_ops_m (gcm_tagc rk nonce8) W (ops_fuel ops) ew_init ops.
Definition c01_encw_m1 := c01_encw_m 1.
Definition c01_encw_m2 := c01_encw_m 2.

(* M3: the position layer counts what was OFFERED *)
Definition pos_write_m3 (W : Wr) (s : wr_st W * N) (buf : bytes) : (wr_st W * N) * wres :=
  match wr_write W (fst s) buf with
  | (w', WOk n) => ((w', snd s + len buf), WOk n)
  | (w', r) => ((w', snd s), r)
  end.
Definition SinkStack_m3 : Wr := {| wr_st := wr_st (LogW SinkW) * N; wr_write := pos_write_m3 (LogW SinkW) |}.
Fixpoint sink_bufs_m3 (mode : N) (fuel : nat) (s : wr_st SinkStack_m3) (bufs : list bytes) : wr_st SinkStack_m3 * list (list N) :=
  match bufs with
  | [] => (s, [])
  | b :: r =>
    if mode =? 0 then
      let '(s', x) := write_all SinkStack_m3 fuel s b in
      let '(s2, rows) := sink_bufs_m3 mode fuel s' r in (s2, [wares_code x; snd s'] :: rows)
    else
      let '(s', x) := wr_write SinkStack_m3 s b in
      let '(s2, rows) := sink_bufs_m3 mode fuel s' r in
      (s2, (match x with WOk n => [0; n; snd s'] | WInterrupted => [1; 0; snd s'] | WError => [2; 0; snd s'] end) :: rows)
  end.
Definition c13_sinkrows_m3 (_ : consts) (mode : N) (sched : list (list N)) (bufs : list bytes) : list (list N) :=
  let fuel := S (length sched + N.to_nat (len (concat bufs))) in
  let s0 : wr_st SinkStack_m3 := ((mkSink [] (map sev_of sched), []), 0) in
  let '(s, rows) := sink_bufs_m3 mode fuel s0 bufs in
  rows ++ [[77]] ++ snd (fst s) ++ [8 :: sk_data (fst (fst s))].

(* M4: decrypt does not hash the last partial block (dec_rem without update_padded) *)
Section G.
  Variable rk : list bytes.
  Definition dec_m4 (s : gstate) (buf : bytes) : gstate * bytes * bytes :=
    let E := E_aes rk in
    let n := len buf / 16 in
    let '(s1, out) := Gcm.dec_chunks E Ghash.gf_mul (N.to_nat n) s buf in
    let '(s2, p) := Gcm.apply_keystream E s1 (dropN (16 * n) buf) in
    let s3 := set_acc s2 (Gcm.gh_block Ghash.gf_mul (g_h s2) (g_acc s2) (len_block (g_aad_bits s2) (len buf))) in
    let tag := Ghash.N_to_block (g_acc s3) in
    let '(s4, t) := Gcm.apply_keystream E (set_pos s3 0) tag in
    (s4, out ++ p, t).
  Fixpoint gcm_calls_m4 (s : gstate) (calls : list (list N)) : list (list N) :=
    match calls with
    | [] => [7 :: aesgcm_into_tag rk s]
    | c :: rest =>
      match c with
      | 0 :: buf => let '(s', out, tag) := dec_m4 s buf in (0 :: out) :: (5 :: tag) :: gcm_calls_m4 s' rest
      | 1 :: buf => let '(s', out) := aesgcm_decrypt_unauth rk s buf in (1 :: out) :: gcm_calls_m4 s' rest
      | 2 :: tb => let '(s', out, tag) := dec_m4 s (dropN 16 tb) in
                   (0 :: out) :: (5 :: tag) :: [6; if bytes_eqb tag (takeN 16 tb) then 1 else 0] :: gcm_calls_m4 s' rest
      | 3 :: buf => let '(s', out) := aesgcm_encrypt rk s buf in (3 :: out) :: gcm_calls_m4 s' rest
      | _ => [[9; 9]]
      end
    end.
End G.
Definition c06_gcmdec_m4 (_ : consts) (key nonce aad : bytes) (calls : list (list N)) : list (list N) :=
  let rk := Aes.aes256_expand key in gcm_calls_m4 rk (aesgcm_new rk nonce aad) calls.

(* M5: the footer in insertion order (the observed HashMap order ignored) *)
Definition c01_aw_m5 (k : consts) (enc comp : N) (epub : bytes) (shared : list bytes) (key nonce : bytes)
           (ntab : N) (names : list bytes) := c01_aw k enc comp epub shared key nonce ntab [].
