import sys, json, time
sys.path.insert(0, '/tmp/wp/wrows/verif/tools')
import checklib
path, imports = sys.argv[1], sys.argv[2]
shard = int(sys.argv[3]) if len(sys.argv) > 3 else 40
cases = [json.loads(l) for l in open(path) if l.strip()]
m = [c for c in cases if c.get('fn')]
if len(sys.argv) > 4:
    for c in m: c['fn'] = sys.argv[4]
t = time.time()
res, errs = checklib.model_eval(m, 'scaled', '/tmp/wp/wrows/t/work', shard_size=shard, imports=imports)
print('eval %.1fs errors %s' % (time.time() - t, errs[:1]))
ok = bad = 0
for c, r in zip(m, res):
    if r == c['impl']:
        ok += 1
    else:
        bad += 1
        if bad <= 3:
            print('DIFF', c['id'], c['class'])
            if r is None: print('  no value'); continue
            for i, (a, b) in enumerate(zip(r, c['impl'])):
                if a != b:
                    print('  row', i, 'model', str(a)[:200], 'impl', str(b)[:200]); break
            else:
                print('  rows', len(r), len(c['impl']))
print('ok', ok, 'bad', bad)
