#!/usr/bin/env python3
"""MAINTENANCE tool (never run by ./check): rewrite coq/theories/SrcTie2Events.v so that its
frozen event lists are those of the CURRENT gen/Src2.v.  Run it only after a reviewed source
change whose model consequences have been carried through; the committed file is the reference
the source is compared with on every run."""
import os
import re
here = os.path.dirname(os.path.abspath(__file__))
src2 = open(os.path.join(here, "..", "coq", "gen", "Src2.v")).read()
defs = re.findall(r"Definition (EV_\w+) : list string := (\[.*?\])\.\n", src2, re.S)
out = [HEADER := '''(* SrcTie2Events.v — Tie A, state machines: ordered event lists of the function bodies
   (gen/Src2.v, the EV_ definitions) against (a) ORDER / SHAPE FACTS the model relies on and (b) the frozen list
   the model was written against (the `..._shape` lemmas: any edit of the body, comments and layout apart, breaks it;
   regenerate with tools/mk_srctie2_events.py after carrying the change through the model).
   Model counterparts: Reader.bread/bmove/read_footer/linear_extract, EncLayer.eload/eload_unauth/
   eread_gen/eseek/fs_read, CompLayer.cread/cseek/cw_write/cw_finalize, CompFailSafe.fs_pass. *)
From MLA Require Import Base.
From MLAGen Require Src2.
From Coq Require Import String List.
Import ListNotations.
Open Scope string_scope.

Definition has (sub s : string) : bool := match index 0 sub s with Some _ => true | None => false end.
Fixpoint pos_of (sub : string) (l : list string) (i : nat) : option nat :=
  match l with [] => None | x :: r => if has sub x then Some i else pos_of sub r (S i) end.
(* the first event containing `a` comes before the first event containing `b` *)
Definition before (a b : string) (l : list string) : bool :=
  match pos_of a l 0, pos_of b l 0 with Some i, Some j => Nat.ltb i j | _, _ => false end.
Definition count (sub : string) (l : list string) : nat := length (filter (has sub) l).
Definition absent (sub : string) (l : list string) : bool := Nat.eqb (count sub l) 0.

(* ---------- facts ---------- *)
(* D3 repair: the cache is emptied before the read, and refilled only inside the tags-equal branch *)
Lemma load_in_cache_order :
  before "self.chunk_cache = Cursor::new(Vec::new());" "read_to_end(" Src2.EV_load_in_cache = true /\\
  before "if expected_tag.ct_eq(&tag).unwrap_u8() == 1 {" "self.chunk_cache = Cursor::new(data);" Src2.EV_load_in_cache = true /\\
  before "self.chunk_cache = Cursor::new(data);" "} else {" Src2.EV_load_in_cache = true /\\
  count "self.chunk_cache =" Src2.EV_load_in_cache = 2%nat.
Proof. vm_compute. repeat split. Qed.
(* the unauthenticated load consumes exactly TAG_LENGTH bytes after the data, through io::copy(take) *)
Lemma load_unauth_order :
  before "take(CHUNK_SIZE).read_to_end(&mut data)?" "io::copy(&mut (&mut self.inner).take(TAG_LENGTH as u64), &mut io::sink())?;" Src2.EV_load_in_cache_unauthenticated = true /\\
  before "io::copy(&mut (&mut self.inner).take(TAG_LENGTH as u64)" "self.chunk_cache = Cursor::new(data);" Src2.EV_load_in_cache_unauthenticated = true.
Proof. vm_compute. repeat split. Qed.
(* the chunk number advances before the load and is never taken back *)
Lemma read_internal_order :
  before "self.current_chunk_number += 1;" "self.load_in_cache()?" Src2.EV_read_internal = true /\\
  absent "self.current_chunk_number -=" Src2.EV_read_internal = true /\\
  before "self.current_chunk_number += 1;" "self.load_in_cache_unauthenticated()?" Src2.EV_read_internal_unauthenticated = true /\\
  absent "self.current_chunk_number -=" Src2.EV_read_internal_unauthenticated = true.
Proof. vm_compute. repeat split. Qed.
(* fail-safe mode switch: a wrong tag ends the stream only in the authenticated mode *)
Lemma enc_fs_read_arms :
  before "FailSafeReaderDecryptionMode::OnlyAuthenticatedData =>" "Err(Error::AuthenticatedDecryptionWrongTag) =>" Src2.EV_enc_fs_read = true /\\
  before "Err(Error::AuthenticatedDecryptionWrongTag) =>" "FailSafeReaderDecryptionMode::DataEvenUnauthenticated =>" Src2.EV_enc_fs_read = true /\\
  before "FailSafeReaderDecryptionMode::DataEvenUnauthenticated =>" "read_internal_unauthenticated(buf)" Src2.EV_enc_fs_read = true /\\
  count "read_internal_unauthenticated" Src2.EV_enc_fs_read = 1%nat.
Proof. vm_compute. repeat split. Qed.
(* every seek to a position reloads (and re-authenticates) the chunk: no early return before load_in_cache *)
Lemma enc_seek_always_loads :
  before "SeekFrom::Start(pos) =>" "self.load_in_cache()?;" Src2.EV_enc_seek = true /\\
  before "self.load_in_cache()?;" "SeekFrom::Current(value) =>" Src2.EV_enc_seek = true /\\
  count "return" (firstn 12 Src2.EV_enc_seek) = 1%nat.
Proof. vm_compute. repeat split. Qed.
(* D14 repair: a loop, no recursion; D-ZLB: empty content blocks are skipped *)
Lemma bfr_read_shape_facts :
  hd "" Src2.EV_bfr_read = "=> loop {" /\\ absent "self.read(" Src2.EV_bfr_read = true /\\
  absent "move_to_next_block" Src2.EV_move_to_next_block = true /\\
  count "self.move_to_next_block()?;" Src2.EV_bfr_read = 3%nat /\\
  before "if length == 0 {" "take(length).read(into)?" Src2.EV_bfr_read = true.
Proof. vm_compute. repeat split. Qed.
Lemma move_to_next_block_order :
  before "self.current_offset += 1;" "if self.current_offset >= self.offsets.len() {" Src2.EV_move_to_next_block = true /\\
  before "if self.current_offset >= self.offsets.len() {" "self.offsets[self.current_offset]" Src2.EV_move_to_next_block = true.
Proof. vm_compute. repeat split. Qed.
(* D12a / D15 repairs: the length is compared (checked_sub) when seeking, the limit is the footer length *)
Lemma footer_order :
  before "let len = u64::from(src.read_u32::<LittleEndian>()?);" "pos.checked_sub(len).ok_or(Error::DeserializationError)?" Src2.EV_footer_deserialize_from = true /\\
  before "with_limit(len.min(BINCODE_MAX_DESERIALIZE))" "Ok(finfo) =>" Src2.EV_footer_deserialize_from = true /\\
  count "deserialize_from(&mut src.take(len))" Src2.EV_footer_deserialize_from = 1%nat /\\
  absent "pos - len" Src2.EV_footer_deserialize_from = true.
Proof. vm_compute. repeat split. Qed.
(* linear_extract: rewind first; the end-of-data marker is the only way out of the loop *)
Lemma linear_extract_facts :
  hd "" Src2.EV_linear_extract = "archive.src.rewind()?;" /\\
  count "break" Src2.EV_linear_extract = 1%nat /\\ count "return" Src2.EV_linear_extract = 0%nat /\\
  before "ArchiveFileBlock::EndOfArchiveData =>" "break 'read_block;" Src2.EV_linear_extract = true /\\
  before "if export.contains_key(&filename) {" "id2filename.insert(id, filename.clone());" Src2.EV_linear_extract = true /\\
  before "ArchiveFileBlock::EndOfFile{id,..} =>" "id2filename.remove(&id);" Src2.EV_linear_extract = true /\\
  before "io::copy(copy_src, writer)?;" "io::copy(copy_src, &mut io::sink())?;" Src2.EV_linear_extract = true /\\
  last Src2.EV_linear_extract "" = "=> Ok(())".
Proof. vm_compute. repeat split. Qed.
(* D11 / D13 repairs: the Empty state is refused before anything else in SeekFrom::Start *)
Lemma comp_seek_empty_guard :
  before "SeekFrom::Start(pos) =>" "if matches!(self.state,CompressionLayerReaderState::Empty) {" Src2.EV_comp_seek = true /\\
  before "if matches!(self.state,CompressionLayerReaderState::Empty) {" "std::mem::replace(&mut self.state, CompressionLayerReaderState::Empty)" Src2.EV_comp_seek = true.
Proof. vm_compute. repeat split. Qed.
(* the writer of an encrypted chunk's tag uses write_all *)
Lemma enc_write_tag_write_all :
  count "self.inner.write_all(&tag)?;" Src2.EV_enc_write = 1%nat /\\ absent "self.inner.write(" Src2.EV_enc_write = true /\\
  count "self.inner.write_all(&tag)?;" Src2.EV_enc_finalize = 1%nat.
Proof. vm_compute. repeat split. Qed.
(* the two fail-safe mode setters set different modes *)
Lemma failsafe_mode_setters :
  has "FailSafeReaderDecryptionMode::OnlyAuthenticatedData" (nth 1 Src2.EV_failsafe_only_authenticated "") = true /\\
  has "FailSafeReaderDecryptionMode::DataEvenUnauthenticated" (nth 1 Src2.EV_failsafe_even_unauthenticated "") = true.
Proof. vm_compute. repeat split. Qed.
(* add_public_keys extends the recipient list; load_persistent tries every private key *)
Lemma recipients_facts :
  count "self.encrypt.ecc_keys.extend_from_slice(keys);" Src2.EV_add_public_keys = 1%nat /\\
  before "self.encrypt_parameters = Some((key, config.nonce));" "break;" Src2.EV_enc_load_persistent = true /\\
  count "break" Src2.EV_enc_load_persistent = 1%nat.
Proof. vm_compute. repeat split. Qed.
(* add_file = start, append, end *)
Lemma add_file_shape : Src2.EV_add_file =
  ["let id = self.start_file(filename)?;"; "self.append_file_content(id, size, src)?;"; "=> self.end_file(id)"].
Proof. reflexivity. Qed.

(* ---------- frozen shapes ---------- *)
''']
for name, body in defs:
    out.append("Lemma %s_shape : Src2.%s = %s.\nProof. reflexivity. Qed.\n" % (name, name, body.replace("%string", "")))
open(os.path.join(here, "..", "coq", "theories", "SrcTie2Events.v"), "w").write("\n".join(out))
print("wrote SrcTie2Events.v with", len(defs), "shapes")
