#!/usr/bin/env python3
"""Tie A, level 1 for the REPAIR loop: translate `ArchiveFailSafeReader::convert_to_archive`
(mla/src/lib.rs, with its `update_error!` macro expanded from the `macro_rules!` text and the
`FailSafeReadError` enum read from mla/src/errors.rs) into Gallina, coq/gen/Src3r.v.

Scheme (statement by statement, continuation-passing over the rustmini AST):
  * every `let mut` local of the function, `self.src`, `output` and the limit of the
    `take(length)` adaptor are the fields of ONE record `Locals` (HashMap = association list,
    Vec = list, Sha256 state = the bytes absorbed so far), `l_<name>` / `set_<name>`;
  * immutable `let`s and pattern variables are Gallina `let`s, passed to the loop functions;
  * every `loop` is a `Fixpoint` over structural fuel returning `Locals * outcome`
    (`ODone` = left by its own `break`, `OBreak_<label>` = a `break` of an enclosing loop,
    `OReturn r` = `return` / `?`); a `for` over a map is a `Fixpoint` over its entry list;
  * `output.start_file / append_file_content / end_file / finalize` are the translated
    `ArchiveWriter` methods of gen/Src2.v;
  * `ArchiveFileBlock::from(&mut self.src)` is the section variable `block_from`: theories/SrcTie3RepairLoop.v
    instantiates it with the TRANSLATED block parser of gen/Src3b.v (tools/src2v3_block.py; no longer a
    trusted link: SrcTie3Block.block_from_src);
  * what a loop does when the fuel is used up has no counterpart in the Rust text: it is
    scheme configuration (FUEL_ARMS, Rust snippets translated in the context of the loop),
    chosen as in theories/Repair.v so that the simulation is an equality for EVERY fuel.

FAILS CLOSED: anything not recognised raises and the file contains
`Definition convert_to_archive_untranslatable : unit := tt.` only.
"""
import os
import re
import sys

sys.path.insert(0, os.path.dirname(os.path.abspath(__file__)))
import rustmini as R  # noqa: E402
from rustmini import ParseError, strip_paren, show  # noqa: E402

# name -> (Coq type, accepted type annotation, accepted initialiser, Coq initial value)
KNOWN_LOCALS = {
    "error": ("FailSafeReadError", None, "FailSafeReadError::NoError", "NoError"),
    "id_failsafe2id_output": ("list (N * N)", "HashMap<ArchiveFileID,ArchiveFileID>", "HashMap::new()", "[]"),
    "id_failsafe2filename": ("list (N * bytes)", "HashMap<ArchiveFileID,String>", "HashMap::new()", "[]"),
    "id_failsafe_done": ("list N", None, "Vec::new()", "[]"),
    "id_failsafe2hash": ("list (N * bytes)", "HashMap<ArchiveFileID,Sha256>", "HashMap::new()", "[]"),
    "unfinished_files": ("list bytes", None, "Vec::new()", "[]"),
    "buf": ("bytes", None, "vec!(0;CACHE_SIZE)", "(vec_zeros CACHE_SIZE)"),
    "next_write_pos": ("N", None, "0", "0"),
}
MAP_VAL = {"id_failsafe2id_output": "N", "id_failsafe2filename": "bytes", "id_failsafe2hash": "bytes"}
VECS_N = ("id_failsafe_done",)
VECS_B = ("unfinished_files",)
FIELDS = ["src", "output", "error", "id_failsafe2id_output", "id_failsafe2filename", "id_failsafe_done",
          "id_failsafe2hash", "unfinished_files", "src_limit", "buf", "next_write_pos"]
FIELD_TY = {"src": "st S", "output": "ArchiveWriter", "src_limit": "N"}
FIELD_TY.update({k: v[0] for k, v in KNOWN_LOCALS.items()})

# out-of-fuel behaviour of the three loops (see the module docstring); `io::Error::Fuel` is EFuel
FUEL_ARMS = {
    "'read_block": "{ return Err(Error::Fuel); }",
    "'content": "{ update_error!(error = FailSafeReadError::ErrorInFile(io::Error::Fuel, fname.clone())); break 'read_block; }",
    "'buf_fill": "{ output.append_file_content(id_output, next_write_pos as u64, &buf[..next_write_pos])?; "
                 "update_error!(error = FailSafeReadError::ErrorInFile(io::Error::Fuel, fname.clone())); break 'read_block; }",
}
WRITER_CALLS = {"start_file": 1, "append_file_content": 3, "end_file": 1, "finalize": 0}
TY_MAP = {"io::Error": "err", "Error": "err", "String": "bytes", "ArchiveFileID": "N", "Vec<String>": "list bytes",
          "Box<FailSafeReadError>": "FailSafeReadError", "Vec<u8>": "bytes"}

PREAMBLE = r"""
(* ---- hand-written part of the translation scheme (std semantics) ---- *)
Definition hm_update {V} (m : list (N * V)) (k : N) (f : V -> V) : list (N * V) :=   (* through get_mut *)
  match hm_get m k with Some v => hm_set m k (f v) | None => m end.
Definition vec_zeros (n : N) : bytes := repeat 0 (N.to_nat n).                       (* vec![0; n] *)
(* read into `&mut buf[p..]`: the slice has len buf - p bytes; d is what the reader delivered *)
Definition buf_write (buf : bytes) (p : N) (d : bytes) : bytes := takeN p buf ++ d ++ dropN (p + len d) buf.
(* which error classes of ArchiveFileBlock::from are `Error::IOError(_)` (raised by the reads) and which
   are raised by `from` itself (FilenameTooLong, WrongBlockSubFileType, UTF8ConversionError) *)
Definition error_is_io (e : err) : bool := match e with ENameTooLong | EBlockType | EUtf8 => false | _ => true end.
Definition io_kind_is_unexpected_eof (e : err) : bool := match e with EUnexpectedEof => true | _ => false end.
"""

TAKE_READ = r"""
  (* std::io::Take::read over the source: Ok(0) without a call when the limit is used up, at most
     min(buffer, limit) bytes asked, the limit decreases by what was delivered.  A panic INSIDE the
     source's read is delivered as an error (Repair.v: "reported separately by run") *)
  Definition take_read (s : st S) (limit buflen : N) : st S * N * res bytes :=
    if limit =? 0 then (s, limit, Ok []) else
    match rd S s (N.min buflen limit) with
    | (s1, Ok d) => (s1, limit - len d, Ok d)
    | (s1, Err e) => (s1, limit, Err e)
    | (s1, Crash _) => (s1, limit, Err EFuel)
    end.
"""


class Ctx:
    def __init__(self):
        self.l = "l"
        self.locals = {}     # rust immutable name -> gallina name
        self.types = {}      # rust immutable name -> coq type
        self.order = []      # declaration order of immutables
        self.alias = {}      # rust name -> ('take',) | ('mapref', field, key gallina)
        self.loops = []      # stack of (label, fnname, kind, params)  kind 'fuel' | 'for'
        self.declared = set()

    def copy(self):
        c = Ctx()
        c.l = self.l
        c.locals = dict(self.locals)
        c.types = dict(self.types)
        c.order = list(self.order)
        c.alias = dict(self.alias)
        c.loops = list(self.loops)
        c.declared = set(self.declared)
        return c

    def bind(self, name, g, ty):
        self.locals[name] = g
        self.types[name] = ty
        if name in self.order:
            self.order.remove(name)
        self.order.append(name)
        self.alias.pop(name, None)


class Tr:
    def __init__(self, macro, enum, cross):
        self.macro = macro          # (params, body text) of update_error
        self.enum = enum            # variant -> ('unit'|'tuple'|'struct', [(field|None, coqtype)])
        self.cross = cross          # labels that are the target of a break from a nested loop
        self.n = 0
        self.defs = []

    def fresh(self, base):
        self.n += 1
        return "%s_%d" % (base, self.n)

    # ---------------------------------------------------------------- values
    def is_bytes(self, e, c):
        e = strip_paren(e)
        if e[0] == "mcall" and e[2] == "as_slice":
            return True
        if e[0] == "path" and c.types.get(e[1]) == "bytes":
            return True
        if e[0] == "un" and e[1] in ("&", "*"):
            return self.is_bytes(e[2], c)
        return False

    def ex(self, e, c):
        e = strip_paren(e)
        k = e[0]
        if k == "int":
            return str(e[1])
        if k == "un" and e[1] in ("&", "&mut", "*"):
            return self.ex(e[2], c)
        if k == "un" and e[1] == "!":
            return "(negb %s)" % self.ex(e[2], c)
        if k == "cast" and e[2] in ("u64", "usize"):
            return self.ex(e[1], c)
        if k == "path":
            nm = e[1]
            if nm in c.alias:
                raise ParseError("alias %s used as a value" % nm)
            if nm in c.locals:
                return c.locals[nm]
            if nm in c.declared:
                return "(l_%s %s)" % (nm, c.l)
            if nm == "CACHE_SIZE":
                return "CACHE_SIZE"
            if nm == "io::Error::Fuel":
                return "EFuel"
            if nm.startswith("FailSafeReadError::"):
                return self.ctor(nm, [], c)
            raise ParseError("unknown name " + nm)
        if k == "call" and e[1][0] == "path":
            fn, args = e[1][1], e[2]
            if fn.startswith("FailSafeReadError::"):
                return self.ctor(fn, args, c)
            if fn in ("Vec::from", "Box::new") and len(args) == 1:
                return self.ex(args[0], c)
            if fn == "Sha256::default" and not args:
                return "[]"
            raise ParseError("call " + show(e)[:60])
        if k == "struct" and e[1].startswith("FailSafeReadError::"):
            return self.ctor(e[1], e[2], c, named=True)
        if k == "index":
            base, idx = self.ex(e[1], c), e[2]
            if idx[0] == "range" and idx[1] is None and idx[2] is None:
                return base
            if idx[0] == "range" and idx[1] is None:
                return "(takeN %s %s)" % (self.ex(idx[2], c), base)
            raise ParseError("index " + show(e)[:60])
        if k == "mcall":
            recv, m, args = strip_paren(e[1]), e[2], e[3]
            if m in ("clone", "as_slice", "to_vec") and not args:
                return self.ex(recv, c)
            if m == "finalize" and not args and recv[0] == "path" and c.types.get(recv[1]) == "bytes":
                return "(sha256_finalize %s)" % self.ex(recv, c)
            if recv[0] == "path" and recv[1] in c.declared and recv[1] not in c.locals:
                f = recv[1]
                if m == "contains" and len(args) == 1 and f in VECS_N:
                    return "(vec_contains (l_%s %s) %s)" % (f, c.l, self.ex(args[0], c))
                if m == "contains_key" and len(args) == 1 and f in MAP_VAL:
                    return "(hm_contains_key (l_%s %s) %s)" % (f, c.l, self.ex(args[0], c))
                if m == "is_empty" and not args:
                    return "(is_empty (l_%s %s))" % (f, c.l)
            raise ParseError("method " + show(e)[:60])
        if k == "bin":
            op = e[1]
            if op in ("==", "!=") and (self.is_bytes(e[2], c) or self.is_bytes(e[3], c)):
                t = "(bytes_eqb %s %s)" % (self.ex(e[2], c), self.ex(e[3], c))
                return t if op == "==" else "(negb %s)" % t
            if op == "==" and show(strip_paren(e[2])).endswith(".kind()") and show(e[3]) == "std::io::ErrorKind::UnexpectedEof":
                inner = strip_paren(e[2])
                return "(io_kind_is_unexpected_eof %s)" % self.ex(inner[1], c)
            a, b = self.ex(e[2], c), self.ex(e[3], c)
            tbl = {"+": "(%s + %s)", "==": "(%s =? %s)", "!=": "(negb (%s =? %s))", "<": "(%s <? %s)",
                   "<=": "(%s <=? %s)", "&&": "(%s && %s)", "||": "(%s || %s)"}
            if op == ">":
                return "(%s <? %s)" % (b, a)
            if op == ">=":
                return "(%s <=? %s)" % (b, a)
            if op in tbl:
                return tbl[op] % (a, b)
            raise ParseError("operator " + op)
        raise ParseError("expression " + show(e)[:60])

    def ctor(self, path, args, c, named=False):
        v = path.split("::")[1]
        if v not in self.enum:
            raise ParseError("variant " + path)
        kind, fields = self.enum[v]
        if named:
            if kind != "struct" or sorted(f for f, _ in args) != sorted(f for f, _ in fields):
                raise ParseError("fields of " + path)
            d = dict(args)
            vals = [self.ex(d[f], c) for f, _ in fields]
        else:
            if kind == "struct" or len(args) != len(fields):
                raise ParseError("arguments of " + path)
            vals = [self.ex(a, c) for a in args]
        return "(%s)" % " ".join([v] + vals) if vals else v

    # ---------------------------------------------------------------- plumbing
    def top(self, c):
        return not c.loops

    def out(self, c, o):
        return "(%s, %s)" % (c.l, o)

    def ret(self, c, r):
        """leave the FUNCTION with result r (a `res FailSafeReadError` term)"""
        return "(%s, %s)" % (c.l, r) if self.top(c) else "(%s, OReturn (%s))" % (c.l, r)

    def setl(self, field, v, c, cont):
        l2 = self.fresh("l")
        t = "let %s := set_%s %s %s in\n    " % (l2, field, c.l, v)
        c.l = l2
        return t + cont(c)

    # ---------------------------------------------------------------- statements
    def block(self, b, c, k, tailk=None):
        return self.stmts(list(b[1]), b[2], c, k, tailk)

    def stmts(self, items, tail, c, k, tailk):
        if not items:
            if tail is None:
                return k(c)
            t0 = strip_paren(tail)
            if tailk is not None:
                return self.value(t0, c, tailk)
            if t0[0] in ("if", "match", "loop", "for", "break", "continue", "return"):
                return self.effect(t0, c, k)
            return self.tail(t0, c)
        st, rest = items[0], items[1:]
        cont = lambda c2: self.stmts(rest, tail, c2, k, tailk)
        if st[0] == "let":
            return self.let(st, c, cont)
        return self.effect(strip_paren(st[1]), c, cont)

    def tail(self, e, c):
        if not self.top(c):
            raise ParseError("value at the end of a loop body: " + show(e)[:40])
        if e[0] == "call" and e[1] == ("path", "Ok") and len(e[2]) == 1:
            return "(%s, Ok %s)" % (c.l, self.ex(e[2][0], c))
        raise ParseError("tail " + show(e)[:60])

    def let(self, st, c, cont):
        _, pat, ty, e, els = st
        if els is not None or e is None:
            raise ParseError("let-else")
        mut = pat.startswith("mut ")
        name = re.sub(r"^mut ", "", pat)
        if not re.fullmatch(r"\w+", name):
            raise ParseError("let pattern " + pat)
        e0 = strip_paren(e)
        if mut:
            if name not in KNOWN_LOCALS:
                raise ParseError("unknown mutable local " + name)
            cty, ann, init, cinit = KNOWN_LOCALS[name]
            if (ty or None) != ann and not (ann is None and ty is None):
                raise ParseError("type annotation of %s: %s" % (name, ty))
            if show(e0) != init:
                raise ParseError("initialiser of %s: %s" % (name, show(e0)))
            if name in c.locals or name in c.alias:
                raise ParseError("mutable local shadows " + name)
            c.declared.add(name)
            return self.setl(name, cinit, c, cont)
        # let src = &mut (&mut self.src).take(length);
        if show(e0).replace(" ", "") in ("&mut(&mutself.src).take(length)",) or \
                (e0[0] == "un" and strip_paren(e0[2])[0] == "mcall" and strip_paren(e0[2])[2] == "take"):
            inner = strip_paren(e0[2])
            if e0[1] != "&mut" or show(strip_paren(inner[1])) != "&mut self.src" or len(inner[3]) != 1:
                raise ParseError("take shape " + show(e0)[:60])
            lim = self.ex(inner[3][0], c)
            c.locals.pop(name, None)
            c.alias[name] = ("take",)
            return self.setl("src_limit", lim, c, cont)
        # let x = map.get(&k).expect(..)  /  map.get_mut(&k).expect(..)
        if e0[0] == "mcall" and e0[2] == "expect" and len(e0[3]) == 1 and strip_paren(e0[1])[0] == "mcall":
            g = strip_paren(e0[1])
            recv = strip_paren(g[1])
            if g[2] in ("get", "get_mut") and len(g[3]) == 1 and recv[0] == "path" and recv[1] in MAP_VAL \
                    and recv[1] in c.declared and recv[1] not in c.locals:
                key = self.ex(g[3][0], c)
                f = recv[1]
                if g[2] == "get":
                    v = self.fresh(name)
                    c2 = c.copy()
                    c2.bind(name, v, MAP_VAL[f])
                    return "match hm_get (l_%s %s) %s with\n    | None => %s\n    | Some %s =>\n    %s\n    end" % (
                        f, c.l, key, self.ret(c, "Crash 1431"), v, cont(c2))
                c2 = c.copy()
                c2.locals.pop(name, None)
                c2.alias[name] = ("mapref", f, key)
                return "match hm_get (l_%s %s) %s with\n    | None => %s\n    | Some _ =>\n    %s\n    end" % (
                    f, c.l, key, self.ret(c, "Crash 1431"), cont(c2))
            raise ParseError("expect on " + show(g)[:50])

        def kv(v, ty2, c2):
            g = self.fresh(name)
            c2.bind(name, g, ty2)
            return "let %s := %s in\n    %s" % (g, v, cont(c2))
        return self.value(e0, c, kv)

    def value(self, e, c, kv):
        """expression in value position that may leave by break / return in some branch; kv(v, type, c)"""
        e = strip_paren(e)
        if e[0] == "if" and e[1][0] == "letcond":
            return self.iflet(e, c, None, kv)
        if e[0] == "match":
            return self.match(e, c, None, kv)
        if e[0] == "mcall" and e[2] == "finalize" and not e[3]:
            return kv(self.ex(e, c), "bytes", c)
        if e[0] == "un" and e[1] == "*" and strip_paren(e[2])[0] == "path":
            nm = strip_paren(e[2])[1]
            return kv(self.ex(e, c), c.types.get(nm, "N"), c)
        if e[0] == "path" and e[1] in c.locals:
            return kv(c.locals[e[1]], c.types[e[1]], c)
        raise ParseError("value " + show(e)[:60])

    def effect(self, e, c, cont):
        k = e[0]
        if k == "macro" and e[1] == "update_error":
            return self.expand_macro(e, c, cont)
        if k == "if":
            if e[1][0] == "letcond":
                return self.iflet(e, c, cont, None)
            return self.if_(e, c, cont)
        if k == "match":
            return self.match(e, c, cont, None)
        if k == "loop":
            return self.loop(e, c, cont)
        if k == "for":
            return self.for_(e, c, cont)
        if k == "break":
            return self.break_(e, c)
        if k == "continue":
            return self.continue_(e, c)
        if k == "return":
            r = strip_paren(e[1]) if e[1] else None
            if r and r[0] == "call" and r[1] == ("path", "Err") and len(r[2]) == 1:
                a = strip_paren(r[2][0])
                if a == ("path", "Error::Fuel"):
                    return self.ret(c, "Err EFuel")
                if a[0] == "path" and c.types.get(a[1]) == "err":
                    return self.ret(c, "Err %s" % c.locals[a[1]])
            raise ParseError("return " + show(e)[:50])
        if k == "assign":
            return self.assign(e, c, cont)
        if k == "try":
            return self.try_(strip_paren(e[1]), c, cont)
        if k == "mcall":
            return self.mcall(e, c, cont)
        if k == "block":
            return self.block(e, c.copy(), lambda c2: cont(self.leave_scope(c, c2)))
        raise ParseError("statement " + show(e)[:70])

    def leave_scope(self, outer, inner):
        """after a nested block: keep the Locals name, drop the bindings made inside"""
        c = outer.copy()
        c.l = inner.l
        return c

    def assign(self, e, c, cont):
        op, lhs, rhs = e[1], strip_paren(e[2]), e[3]
        if lhs[0] == "path" and lhs[1] in c.declared and lhs[1] not in c.locals and lhs[1] in ("error", "next_write_pos"):
            v = self.ex(rhs, c)
            if op == "+=" and lhs[1] == "next_write_pos":
                v = "(l_%s %s + %s)" % (lhs[1], c.l, v)
            elif op != "=":
                raise ParseError("assignment operator " + op)
            return self.setl(lhs[1], v, c, cont)
        raise ParseError("assignment " + show(e)[:60])

    def mcall(self, e, c, cont):
        recv, m, args = strip_paren(e[1]), e[2], e[3]
        if recv[0] == "path" and recv[1] in c.declared and recv[1] not in c.locals and recv[1] not in c.alias:
            f = recv[1]
            if f in MAP_VAL and m == "insert" and len(args) == 2:
                return self.setl(f, "(hm_insert (l_%s %s) %s %s)" % (f, c.l, self.ex(args[0], c), self.ex(args[1], c)), c, cont)
            if (f in VECS_N or f in VECS_B) and m == "push" and len(args) == 1:
                return self.setl(f, "(l_%s %s ++ [%s])" % (f, c.l, self.ex(args[0], c)), c, cont)
        if recv[0] == "path" and c.alias.get(recv[1], (None,))[0] == "mapref" and m == "update" and len(args) == 1:
            _, f, key = c.alias[recv[1]]
            return self.setl(f, "(hm_update (l_%s %s) %s (fun h => h ++ %s))" % (f, c.l, key, self.ex(args[0], c)), c, cont)
        raise ParseError("call statement " + show(e)[:70])

    def writer_call(self, e, c):
        """output.<method>(args) -> Gallina term of type ArchiveWriter * res T, or None"""
        e = strip_paren(e)
        if e[0] == "mcall" and strip_paren(e[1]) == ("path", "output") and e[2] in WRITER_CALLS \
                and len(e[3]) == WRITER_CALLS[e[2]]:
            return "(w_%s (l_output %s)%s)" % (e[2], c.l, "".join(" " + self.ex(a, c) for a in e[3]))
        return None

    def try_(self, inner, c, cont):
        w = self.writer_call(inner, c)
        if w is None:
            raise ParseError("`?` on " + show(inner)[:60])
        o = self.fresh("o")
        l0 = c.l
        l2 = self.fresh("l")
        c.l = l2
        body = cont(c)
        c_err = Ctx()
        c_err.l, c_err.loops = "(set_output %s %s)" % (l0, o), c.loops
        return ("match %s with\n    | (%s, Ok _) =>\n    let %s := set_output %s %s in\n    %s\n    | (%s, Err e) => %s\n"
                "    | (%s, Crash x) => %s\n    end") % (w, o, l2, l0, o, body, o, self.ret(c_err, "Err e"), o, self.ret(c_err, "Crash x"))

    def if_(self, e, c, cont):
        _, cond, th, el = e
        cv = self.ex(cond, c)
        c1, c2 = c.copy(), c.copy()
        a = self.block(th, c1, lambda c3: cont(self.leave_scope(c, c3)))
        if el is None:
            b = cont(c2)
        elif el[0] == "if":
            b = self.effect(el, c2, cont)
        else:
            b = self.block(el, c2, lambda c3: cont(self.leave_scope(c, c3)))
        return "if %s then\n    %s\n    else\n    %s" % (cv, a, b)

    def iflet(self, e, c, cont, kv):
        _, cond, th, el = e
        _, pat, scrut = cond
        m = re.fullmatch(r"Some\((\w+)\)", pat)
        s = strip_paren(scrut)
        if not m or s[0] != "mcall" or len(s[3]) != 1:
            raise ParseError("if let " + show(cond)[:60])
        recv = strip_paren(s[1])
        if not (recv[0] == "path" and recv[1] in MAP_VAL and recv[1] in c.declared and recv[1] not in c.locals):
            raise ParseError("if let receiver " + show(recv)[:40])
        f, key, var = recv[1], self.ex(s[3][0], c), m.group(1)
        g = self.fresh(var)
        c1, c2 = c.copy(), c.copy()
        c1.bind(var, g, MAP_VAL[f])
        pre = ""
        if s[2] == "remove":
            l2 = self.fresh("l")
            pre = "let %s := set_%s %s (hm_remove (l_%s %s) %s) in\n    " % (l2, f, c.l, f, c.l, key)
            c1.l = l2
        elif s[2] != "get":
            raise ParseError("if let method " + s[2])

        def after(cx, v=None, ty=None):
            cy = self.leave_scope(c, cx)
            return kv(v, ty, cy) if kv is not None else cont(cy)
        if kv is not None:
            a = self.block(th, c1, None, lambda v, ty, cx: after(cx, v, ty))
            if el is None or el[0] != "block":
                raise ParseError("if let value without else")
            b = self.block(el, c2, lambda cx: self.no_value(), lambda v, ty, cx: after(cx, v, ty))
        else:
            a = self.block(th, c1, after)
            b = after(c2) if el is None else (self.block(el, c2, after) if el[0] == "block" else self.effect(el, c2, cont))
        return "match hm_get (l_%s %s) %s with\n    | Some %s =>\n    %s%s\n    | None =>\n    %s\n    end" % (
            f, c.l, key, g, pre, a, b)

    def no_value(self):
        raise ParseError("a branch in value position falls through without a value")

    def expand_macro(self, e, c, cont):
        params, body = self.macro
        if e[3] is None or len(e[3]) != 1 or e[3][0][0] != "assign" or e[3][0][1] != "=" or params != ["x", "y"]:
            raise ParseError("update_error arguments")
        txt = body.replace("$x", " " + show(e[3][0][2]) + " ").replace("$y", " (" + show(e[3][0][3]) + ") ")
        ast = strip_paren(R.parse_expr(txt))
        while ast[0] == "block" and not ast[1] and ast[2] is not None:
            ast = strip_paren(ast[2])
        if ast[0] != "match":
            raise ParseError("update_error body")
        return self.match(ast, c, cont, None)

    # ---------------------------------------------------------------- match
    def match(self, e, c, cont, kv):
        scrut = strip_paren(e[1])
        arms = e[2]

        def after(cx, v=None, ty=None):
            cy = self.leave_scope(c, cx)
            return kv(v, ty, cy) if kv is not None else cont(cy)

        def arm(body, cx):
            body = strip_paren(body)
            if body[0] == "block":
                if kv is not None:
                    return self.stmts(list(body[1]), body[2], cx, lambda c2: self.no_value(), lambda v, ty, c2: after(c2, v, ty))
                return self.stmts(list(body[1]), body[2], cx, after, None)
            if kv is not None:
                return self.value(body, cx, lambda v, ty, c2: after(c2, v, ty))
            return self.effect(body, cx, after)

        # (a) match <mutable local of type FailSafeReadError> { FailSafeReadError::V => .., _ => .. }
        if scrut[0] == "path" and scrut[1] == "error" and "error" in c.declared and "error" not in c.locals:
            out, wild = [], False
            for pat, guard, body in arms:
                if guard is not None or wild:
                    raise ParseError("arm of match error")
                if pat == "_":
                    wild = True
                    out.append("| _ =>\n    %s" % arm(body, c.copy()))
                else:
                    mm = re.fullmatch(r"FailSafeReadError::(\w+)", pat)
                    if not mm or self.enum.get(mm.group(1), ("?",))[0] != "unit":
                        raise ParseError("pattern of match error: " + pat)
                    out.append("| %s =>\n    %s" % (mm.group(1), arm(body, c.copy())))
            if not wild:
                raise ParseError("match error without `_`")
            return "match l_error %s with\n    %s\n    end" % (c.l, "\n    ".join(out))
        # (b) match ArchiveFileBlock::from(&mut self.src) { Err(Error::IOError(err)) / Err(err) / Ok(block) }
        if show(scrut) == "ArchiveFileBlock::from(&mut self.src)":
            if [(p, g) for p, g, _ in arms] != [("Err(Error::IOError(err))", None), ("Err(err)", None), ("Ok(block)", None)]:
                raise ParseError("arms of match ArchiveFileBlock::from: %s" % [(p, g and show(g)) for p, g, _ in arms])
            s2, ev, bv, l2 = self.fresh("src"), self.fresh("err"), self.fresh("block"), self.fresh("l")
            outs = []
            for i, nm in ((0, "err"), (1, "err"), (2, "block")):
                cx = c.copy()
                cx.l = l2
                cx.bind(nm, ev if nm == "err" else bv, "err" if nm == "err" else "Block")
                outs.append(arm(arms[i][2], cx))
            c_cr = c.copy()
            c_cr.l = "(set_src %s %s)" % (c.l, s2)
            return ("match block_from (l_src %s) with\n    | (%s, Crash x) => %s\n    | (%s, Err %s) =>\n    let %s := set_src %s %s in\n"
                    "    if error_is_io %s then\n    %s\n    else\n    %s\n    | (%s, Ok %s) =>\n    let %s := set_src %s %s in\n    %s\n    end") % (
                c.l, s2, self.ret(c_cr, "Crash x"), s2, ev, l2, c.l, s2, ev, outs[0], outs[1], s2, bv, l2, c.l, s2, outs[2])
        # (c) match block { ArchiveFileBlock::... }
        if scrut[0] == "path" and c.types.get(scrut[1]) == "Block":
            want = {"ArchiveFileBlock::FileStart{filename,id}": ("BkFileStart", ["filename", "id"], {"filename": "bytes", "id": "N"}),
                    "ArchiveFileBlock::FileContent{length,id,..}": ("BkFileContent", ["id", "length", None], {"id": "N", "length": "N"}),
                    "ArchiveFileBlock::EndOfFile{id,hash}": ("BkEndOfFile", ["id", "hash"], {"id": "N", "hash": "bytes"}),
                    "ArchiveFileBlock::EndOfArchiveData": ("BkEndOfArchiveData", [], {})}
            seen, out = [], []
            for pat, guard, body in arms:
                if guard is not None or pat not in want or pat in seen:
                    raise ParseError("arm of match block: " + pat)
                seen.append(pat)
                ctor, order, tys = want[pat]
                cx = c.copy()
                names = []
                for f in order:
                    if f is None:
                        names.append("_")
                    else:
                        g = self.fresh(f)
                        cx.bind(f, g, tys[f])
                        names.append(g)
                out.append("| %s =>\n    %s" % (" ".join([ctor] + names), arm(body, cx)))
            if sorted(seen) != sorted(want):
                raise ParseError("match block not exhaustive")
            return "match %s with\n    %s\n    end" % (c.locals[scrut[1]], "\n    ".join(out))
        # (d) match output.start_file(&filename) { Err(Error::DuplicateFilename) / Err(err) / Ok(id) }
        w = self.writer_call(scrut, c)
        if w is not None:
            pats = [p for p, g, _ in arms]
            if any(g is not None for _, g, _ in arms) or len(arms) != 3 or pats[1] != "Err(err)" or not re.fullmatch(r"Ok\(\w+\)", pats[2]):
                raise ParseError("arms of match on a writer call: %s" % pats)
            mm = re.fullmatch(r"Err\((Error::\w+)\)", pats[0])
            from src2v2 import ERR_NAMES
            if not mm or mm.group(1) not in ERR_NAMES:
                raise ParseError("first arm of match on a writer call: " + pats[0])
            o, ev, okv, l2 = self.fresh("o"), self.fresh("err"), self.fresh(pats[2][3:-1]), self.fresh("l")
            cs = []
            for i in range(3):
                cx = c.copy()
                cx.l = l2
                if i == 1:
                    cx.bind("err", ev, "err")
                if i == 2:
                    cx.bind(pats[2][3:-1], okv, "N")
                cs.append(arm(arms[i][2], cx))
            c_cr = c.copy()
            c_cr.l = "(set_output %s %s)" % (c.l, o)
            return ("match %s with\n    | (%s, Crash x) => %s\n    | (%s, Err %s) =>\n    let %s := set_output %s %s in\n"
                    "    match %s with\n    | %s =>\n    %s\n    | _ =>\n    %s\n    end\n    | (%s, Ok %s) =>\n    let %s := set_output %s %s in\n    %s\n    end") % (
                w, o, self.ret(c_cr, "Crash x"), o, ev, l2, c.l, o, ev, ERR_NAMES[mm.group(1)], cs[0], cs[1], o, okv, l2, c.l, o, cs[2])
        # (e) match src.read(&mut buf[next_write_pos..]) { Ok(read) / Err(err) }
        if scrut[0] == "mcall" and scrut[2] == "read" and len(scrut[3]) == 1 and strip_paren(scrut[1])[0] == "path" \
                and c.alias.get(strip_paren(scrut[1])[1]) == ("take",):
            a = strip_paren(scrut[3][0])
            if not (a[0] == "un" and a[1] == "&mut" and strip_paren(a[2])[0] == "index"):
                raise ParseError("read target " + show(a)[:40])
            ix = strip_paren(a[2])
            if not (ix[1] == ("path", "buf") and "buf" in c.declared and ix[2][0] == "range" and ix[2][1] is not None and ix[2][2] is None):
                raise ParseError("read target " + show(a)[:40])
            p = self.ex(ix[2][1], c)
            if [(pp, g) for pp, g, _ in arms] != [("Ok(read)", None), ("Err(err)", None)]:
                raise ParseError("arms of match src.read: %s" % [(pp, g and show(g)) for pp, g, _ in arms])
            s2, lim, d, ev, l2, l3, rd_ = (self.fresh(x) for x in ("src", "limit", "d", "err", "l", "l", "read"))
            c_ok, c_er = c.copy(), c.copy()
            c_ok.l, c_er.l = l2, l3
            c_ok.bind("read", rd_, "N")
            c_er.bind("err", ev, "err")
            upd = "set_src_limit (set_src %s %s) %s" % (c.l, s2, lim)
            c_cr = c.copy()
            c_cr.l = "(%s)" % upd
            return ("match take_read (l_src %s) (l_src_limit %s) (len (l_buf %s) - %s) with\n"
                    "    | (%s, %s, Ok %s) =>\n    let %s := set_buf (%s) (buf_write (l_buf %s) %s %s) in\n    let %s := len %s in\n    %s\n"
                    "    | (%s, %s, Err %s) =>\n    let %s := %s in\n    %s\n    | (%s, %s, Crash x) => %s\n    end") % (
                c.l, c.l, c.l, p, s2, lim, d, l2, upd, c.l, p, d, rd_, d, arm(arms[0][2], c_ok),
                s2, lim, ev, l3, upd, arm(arms[1][2], c_er), s2, lim, self.ret(c_cr, "Crash x"))
        raise ParseError("match on " + show(scrut)[:60])

    # ---------------------------------------------------------------- loops
    def break_(self, e, c):
        if e[2] is not None or not c.loops:
            raise ParseError("break " + show(e))
        lab = e[1]
        if lab is None or lab == c.loops[-1][0]:
            return self.out(c, "ODone")
        if lab in [x[0] for x in c.loops] and lab in self.cross:
            return self.out(c, "OBreak_" + lab.strip("'"))
        raise ParseError("break to unknown label " + str(lab))

    def continue_(self, e, c):
        if not c.loops or (e[1] is not None and e[1] != c.loops[-1][0]):
            raise ParseError("continue " + show(e))
        return self.again(c)

    def again(self, c):
        lab, fn, kind, params = c.loops[-1]
        return "%s %s%s %s" % (fn, "fuel'" if kind == "fuel" else "rest", "".join(" " + p for p in params), c.l)

    def params_of(self, c):
        return [(c.locals[n], c.types[n]) for n in c.order if n in c.locals]

    def after_loop(self, call, c, cont):
        l2, o = self.fresh("l"), self.fresh("o")
        c2 = c.copy()
        c2.l = l2
        arms = ["| (%s, ODone) =>\n    %s" % (l2, cont(c2))]
        if c.loops:
            here = c.loops[-1][0]
            if here in self.cross:
                arms.append("| (%s, OBreak_%s) => (%s, ODone)" % (l2, here.strip("'"), l2))
            arms.append("| (%s, %s) => (%s, %s)" % (l2, o, l2, o))
        else:
            arms.append("| (%s, OReturn r) => (%s, r)" % (l2, l2))
            arms.append("| (%s, _) => (%s, Crash 0)   (* no enclosing loop: unreachable *)" % (l2, l2))
        return "match %s with\n    %s\n    end" % (call, "\n    ".join(arms))

    def loop(self, e, c, cont):
        label, body = e[1], e[2]
        if label is None or label not in FUEL_ARMS:
            raise ParseError("loop without a known label: %s" % label)
        if any(k == "for" for _, _, k, _ in c.loops):
            raise ParseError("fuelled loop inside a for")
        fn = "loop_" + label.strip("'")
        params = self.params_of(c)
        ci = c.copy()
        ci.l = "l"
        ci.loops = c.loops + [(label, fn, "fuel", [p for p, _ in params])]
        body_txt = self.block(body, ci.copy(), lambda c2: self.again(c2))
        fuel_ast = R.parse_expr(FUEL_ARMS[label])
        fuel_txt = self.block(fuel_ast, ci.copy(), lambda c2: self.no_value())
        self.defs.append("  Fixpoint %s (fuel : nat)%s (l : Locals) {struct fuel} : Locals * outcome :=\n    match fuel with\n    | O =>\n    %s\n    | Datatypes.S fuel' =>\n    %s\n    end." % (
            fn, "".join(" (%s : %s)" % p for p in params), fuel_txt, body_txt))
        call = "%s fuel%s %s" % (fn, "".join(" " + p for p, _ in params), c.l)
        return self.after_loop(call, c, cont)

    def for_(self, e, c, cont):
        _, label, pat, it, body = e
        it = strip_paren(it)
        m = re.fullmatch(r"\((\w+),(\w+)\)", pat)
        if c.loops or label is not None or not m or it[0] != "path" or it[1] != "id_failsafe2id_output" or it[1] not in c.declared:
            raise ParseError("for " + pat + " in " + show(it)[:40])
        fn = "for_" + it[1]
        params = self.params_of(c)
        ci = c.copy()
        ci.l = "l"
        ci.loops = [(None, fn, "for", [p for p, _ in params])]
        a, b = self.fresh(m.group(1)), self.fresh(m.group(2))
        ci.bind(m.group(1), a, "N")
        ci.bind(m.group(2), b, "N")
        # the loop variables are not parameters of the recursive call
        body_txt = self.block(body, ci, lambda c2: self.again(c2))
        self.defs.append("  Fixpoint %s (items : list (N * N))%s (l : Locals) {struct items} : Locals * outcome :=\n    match items with\n    | [] => (l, ODone)\n    | (%s, %s) :: rest =>\n    %s\n    end." % (
            fn, "".join(" (%s : %s)" % p for p in params), a, b, body_txt))
        # the map is MOVED into the loop: it is not used afterwards (checked by the unknown-name rule)
        call = "%s (l_%s %s)%s %s" % (fn, it[1], c.l, "".join(" " + p for p, _ in params), c.l)
        c2 = c.copy()
        c2.declared.discard(it[1])
        return self.after_loop(call, c2, cont)


def cross_labels(ast):
    """labels that are the target of a `break` issued from inside a NESTED loop"""
    out = set()

    def walk(x, stack):
        if isinstance(x, tuple):
            if x and x[0] in ("loop", "while", "for"):
                lab = x[1]
                for y in x[2:]:
                    walk(y, stack + [lab])
                return
            if x and x[0] == "break" and x[1] is not None and stack and x[1] != stack[-1]:
                out.add(x[1])
            if x and x[0] == "macro":
                return
            for y in x:
                walk(y, stack)
        elif isinstance(x, list):
            for y in x:
                walk(y, stack)
    walk(ast, [])
    for t in FUEL_ARMS.values():
        for mm in re.finditer(r"break ('\w+)", t):
            out.add(mm.group(1))
    return out


def parse_enum(errs):
    m = re.search(r"pub enum FailSafeReadError\s*\{", errs)
    if not m:
        raise ParseError("enum FailSafeReadError")
    j = R.match_brace(errs, m.end() - 1)
    body = R.strip_comments(errs[m.end():j])
    body = re.sub(r"#\[[^\]]*\]", "", body)
    from src2v2 import split_top
    enum, order = {}, []
    for part in split_top(body):
        part = part.strip()
        if not part:
            continue
        mm = re.fullmatch(r"(\w+)\s*(?:\((.*)\)|\{(.*)\})?", part, re.S)
        if not mm:
            raise ParseError("variant " + part[:40])
        name = mm.group(1)

        def ty(t):
            t = re.sub(r"\s+", "", t)
            if t not in TY_MAP:
                raise ParseError("payload type %s of %s" % (t, name))
            return TY_MAP[t]
        if mm.group(2) is not None:
            enum[name] = ("tuple", [(None, ty(t)) for t in split_top(mm.group(2)) if t.strip()])
        elif mm.group(3) is not None:
            fs = []
            for f in split_top(mm.group(3)):
                if f.strip():
                    a, b = f.split(":", 1)
                    fs.append((a.strip(), ty(b)))
            enum[name] = ("struct", fs)
        else:
            enum[name] = ("unit", [])
        order.append(name)
    return enum, order


def parse_macro(lib):
    m = re.search(r"macro_rules!\s+update_error\s*\{\s*\(\s*([^)]*)\)\s*=>\s*\{", lib)
    if not m:
        raise ParseError("macro update_error")
    params = re.findall(r"\$(\w+)\s*:\s*\w+", m.group(1))
    if re.sub(r"\s+", "", m.group(1)) != "$x:ident=$y:expr":
        raise ParseError("update_error matcher " + m.group(1))
    i = m.end() - 1
    j = R.match_brace(lib, i)
    body = re.sub(r"#\[[^\]]*\]", "", R.strip_comments(lib[i:j + 1]))
    rest = lib[j + 1:].lstrip()
    if not rest.startswith(";"):
        raise ParseError("update_error: more than one rule")
    return params, body


def translate(lib, errs):
    enum, order = parse_enum(errs)
    macro = parse_macro(lib)
    r = R.fn_text(lib, "convert_to_archive", 0, within=r"impl<'b, R: 'b \+ Read> ArchiveFailSafeReader<'b, R> \{")
    if r is None:
        raise ParseError("convert_to_archive not found")
    hdr = re.sub(r"\s+", " ", r[2]).strip()
    if hdr != "fn convert_to_archive<W: InnerWriterTrait>( &mut self, output: &mut ArchiveWriter<W>, ) -> Result<FailSafeReadError, Error>":
        raise ParseError("signature changed: " + hdr)
    if not re.search(r"src: Box<dyn 'a \+ LayerFailSafeReader<'a, R>>,", lib):
        raise ParseError("field src of ArchiveFailSafeReader")
    ast = R.parse_body(r[0])
    tr = Tr(macro, enum, cross_labels(ast))
    c = Ctx()
    c.l = "l0"
    body = tr.block(ast, c, lambda c2: tr.no_value())
    out = []
    out.append("Inductive FailSafeReadError :=   (* mla/src/errors.rs *)")
    for v in order:
        kind, fs = enum[v]
        out.append("  | %s%s" % (v, "".join(" (%s : %s)" % (f or "a%d" % i, t) for i, (f, t) in enumerate(fs))))
    out[-1] += "."
    out.append("Inductive outcome := ODone%s | OReturn (r : res FailSafeReadError)." % "".join(
        " | OBreak_" + x.strip("'") for x in sorted(tr.cross)))
    out.append(PREAMBLE)
    out.append("Section ConvertToArchive.")
    out.append("  Variables FILENAME_MAX_SIZE CACHE_SIZE : N.")
    out.append("  Variables BT_FileStart BT_FileContent BT_EndOfArchiveData BT_EndOfFile : N.")
    out.append("  Variable sha256_finalize : bytes -> bytes.")
    out.append("  Variable footer_serialize_into : bytes -> list (bytes * N) -> list (N * FileInfo) -> bytes * res unit.")
    out.append("  Variable dest_finalize : bytes -> res unit.")
    out.append("  Variable S : Stream.")
    out.append("  (* ArchiveFileBlock::from(&mut self.src): content blocks come without their data *)")
    out.append("  Variable block_from : st S -> st S * res Block.")
    out.append("  Notation w_start_file := (start_file FILENAME_MAX_SIZE BT_FileStart BT_FileContent BT_EndOfArchiveData BT_EndOfFile).")
    out.append("  Notation w_append_file_content := (append_file_content FILENAME_MAX_SIZE BT_FileStart BT_FileContent BT_EndOfArchiveData BT_EndOfFile).")
    out.append("  Notation w_end_file := (end_file FILENAME_MAX_SIZE BT_FileStart BT_FileContent BT_EndOfArchiveData BT_EndOfFile sha256_finalize).")
    out.append("  Notation w_finalize := (finalize FILENAME_MAX_SIZE BT_FileStart BT_FileContent BT_EndOfArchiveData BT_EndOfFile footer_serialize_into dest_finalize).")
    out.append(TAKE_READ)
    out.append("  Record Locals := mkL {\n    %s }." % ";\n    ".join("l_%s : %s" % (f, FIELD_TY[f]) for f in FIELDS))
    for f in FIELDS:
        out.append("  Definition set_%s (l : Locals) v := mkL %s." % (f, " ".join("v" if g == f else "(l_%s l)" % g for g in FIELDS)))
    out.extend(tr.defs)
    init = {"src": "src0", "output": "output0", "src_limit": "0"}
    init.update({k: ("[]" if k == "buf" else v[3]) for k, v in KNOWN_LOCALS.items()})
    out.append("  (* mla/src/lib.rs:%d fn ArchiveFailSafeReader::convert_to_archive *)" % r[1])
    out.append("  Definition convert_to_archive (fuel : nat) (src0 : st S) (output0 : ArchiveWriter) : Locals * res FailSafeReadError :=\n"
               "    let l0 := mkL %s in\n    %s." % (" ".join(init[f] for f in FIELDS), body))
    out.append("End ConvertToArchive.")
    return "\n".join(out)


def main(repo, outp):
    head = ["(* GENERATED by tools/src2v3_repair.py from %s — do not edit. *)" % repo,
            "From MLA Require Import Base Stream.", "From MLAGen Require Import Src2.", "Open Scope N_scope.", ""]
    try:
        with open(os.path.join(repo, "mla/src/lib.rs"), encoding="utf-8") as f:
            lib = f.read()
        i = lib.find("#[cfg(test)]\npub(crate) mod tests")
        lib = lib if i < 0 else lib[:i]
        with open(os.path.join(repo, "mla/src/errors.rs"), encoding="utf-8") as f:
            errs = f.read()
        text = "\n".join(head) + translate(lib, errs) + "\n"
        status = "translated"
    except Exception as e:  # fail closed
        text = "\n".join(head) + "(* convert_to_archive: %s *)\nDefinition convert_to_archive_untranslatable : unit := tt.\n" % str(e).replace("*)", "* )")
        status = "FAILED CLOSED: %s" % e
    old = None
    if os.path.exists(outp):
        with open(outp) as f:
            old = f.read()
    if old != text:
        os.makedirs(os.path.dirname(outp), exist_ok=True)
        with open(outp, "w") as f:
            f.write(text)
    print("src2v3_repair: %s (%s) %s" % ("wrote" if old != text else "unchanged", status, outp))


if __name__ == "__main__":
    repo_ = os.environ.get("VERIF_REPO", "/repo")
    main(repo_, os.environ.get("VERIF_SRC3R_OUT") or os.path.normpath(os.path.join(os.path.dirname(os.path.abspath(__file__)), "..", "coq", "gen", "Src3r.v")))
