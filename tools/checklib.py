"""Decision procedure shared by all properties (see /verif/check and DESIGN.md 2.7)."""
import concurrent.futures
import hashlib
import json
import os
import re
import shutil
import subprocess
import sys
import time

VERIF = os.path.normpath(os.path.join(os.path.dirname(os.path.abspath(__file__)), ".."))
REPO = os.environ.get("VERIF_REPO", "/repo")
COQ = os.path.join(VERIF, "coq")
BUILD = os.path.join(VERIF, ".build")
NPROC = os.cpu_count() or 4

sys.path.insert(0, os.path.join(VERIF, "tools"))
from propcfg import PROPS  # noqa: E402

ENV = dict(os.environ, CARGO_NET_OFFLINE="true")

ALLOWED_AXIOMS = set()  # names of standard-library axioms a property may rely on (none so far)

FORBIDDEN = re.compile(
    r"\b(Admitted|admit|Axiom|Axioms|Parameter|Parameters|Conjecture|Conjectures|Unset\s+Guard\s+Checking|"
    r"bypass_check|Admit\s+Obligations|Unset\s+Positivity\s+Checking|Unset\s+Universe\s+Checking)\b|type-in-type|impredicative-set")


def log(msg):
    print("[check] " + msg, flush=True)


def run(cmd, timeout=1200, cwd=None, env=None, capture=True):
    t0 = time.time()
    try:
        p = subprocess.run(cmd, cwd=cwd, env=env or ENV, timeout=timeout, shell=isinstance(cmd, str),
                           stdout=subprocess.PIPE if capture else None,
                           stderr=subprocess.STDOUT if capture else None, text=True, errors="replace")
        return p.returncode, p.stdout or "", time.time() - t0
    except subprocess.TimeoutExpired as e:
        out = e.stdout if isinstance(e.stdout, str) else (e.stdout or b"").decode("utf-8", "replace")
        return 124, (out or "") + "\n[timeout after %ss]" % timeout, time.time() - t0


# ------------------------------------------------------------------ Tie A + proofs

def tie_a():
    rc, out, _ = run([sys.executable, os.path.join(VERIF, "tools", "src2v.py")], timeout=120)
    return rc == 0, out.strip()


def ensure_makefile():
    mk = os.path.join(COQ, "Makefile")
    cp = os.path.join(COQ, "_CoqProject")
    if not os.path.exists(mk) or os.path.getmtime(mk) < os.path.getmtime(cp):
        run("coq_makefile -f _CoqProject -o Makefile", cwd=COQ, timeout=120)


def strip_comments(text):
    out, depth, i = [], 0, 0
    while i < len(text):
        if text.startswith("(*", i):
            depth += 1
            i += 2
        elif text.startswith("*)", i) and depth > 0:
            depth -= 1
            i += 2
        else:
            if depth == 0:
                out.append(text[i])
            elif text[i] == "\n":
                out.append("\n")
            i += 1
    return "".join(out)


def coq_files():
    res = []
    for root, _, files in os.walk(COQ):
        for f in files:
            if f.endswith(".v"):
                res.append(os.path.join(root, f))
    return sorted(res)


def forbidden_scan():
    """No Admitted/admit/Axiom/Parameter/...; no Variable/Hypothesis outside a section."""
    bad = []
    for path in coq_files():
        with open(path, encoding="utf-8") as f:
            text = strip_comments(f.read())
        # string literals may contain anything
        text_ns = re.sub(r'"[^"]*"', '""', text)
        depth = 0
        for ln, line in enumerate(text_ns.split("\n"), 1):
            m = FORBIDDEN.search(line)
            if m:
                bad.append("%s:%d: %s" % (os.path.relpath(path, VERIF), ln, m.group(0)))
            if re.match(r"\s*(Section|Module)\s+\w+", line) and ":=" not in line:
                depth += 1
            elif re.match(r"\s*End\s+\w+\s*\.", line):
                depth = max(0, depth - 1)
            elif depth == 0 and re.match(r"\s*(Variable|Variables|Hypothesis|Hypotheses|Context)\b", line):
                bad.append("%s:%d: %s outside a section" % (os.path.relpath(path, VERIF), ln, line.strip()[:40]))
    return bad


def dep_cone(target_v):
    """.v files in the dependency cone of a .v file, from coqdep's .Makefile.d."""
    dfile = os.path.join(COQ, ".Makefile.d")
    deps = {}
    if os.path.exists(dfile):
        with open(dfile) as f:
            for line in f:
                if ":" not in line:
                    continue
                lhs, rhs = line.split(":", 1)
                srcs = [x for x in rhs.split() if x.endswith(".vo")]
                for t in lhs.split():
                    if t.endswith(".vo"):
                        deps[t] = srcs
    seen, todo = set(), [target_v[:-2] + ".vo"]
    while todo:
        t = todo.pop()
        if t in seen:
            continue
        seen.add(t)
        todo.extend(deps.get(t, []))
    return sorted(x[:-3] + ".v" for x in seen if os.path.exists(os.path.join(COQ, x[:-3] + ".v")))


def _vo_module(v):
    """theories/X.v -> MLA.X, theories/Concrete/Aes.v -> MLA.Concrete.Aes, gen/Src.v -> MLAGen.Src, props/C01.v -> MLAProps.C01"""
    top, rest = v.split("/", 1)
    return {"theories": "MLA", "gen": "MLAGen", "props": "MLAProps"}[top] + "." + rest[:-2].replace("/", ".")


# coqchk lists the fields of the standard library's sealed module Under_rel as axioms as soon as ANY module is loaded
# with -admit (they are not listed when everything is checked); nothing else is tolerated in the axiom list
COQCHK_ADMIT_ARTEFACTS = "Coq.ssr.ssrunder.Under_rel."


def coqchk_cone(pid):
    """coqchk -o on props/<pid>.vo. A module whose .vo is byte-identical (sha256) to one a previous clean coqchk run
    checked is loaded with -admit instead of being checked again: the cones of the 20 properties share most of the
    development and a full re-check of each costs ~30 min. The cache is only ever extended after a clean run."""
    import hashlib, fcntl
    cache_path = os.path.join(VERIF, ".build", "coqchk_cache.json")
    cone = dep_cone("props/%s.v" % pid)
    sha = {}
    for v in cone:
        with open(os.path.join(COQ, v[:-2] + ".vo"), "rb") as f:
            sha[_vo_module(v)] = hashlib.sha256(f.read()).hexdigest()
    try:
        with open(cache_path) as f:
            cache = json.load(f)
    except (OSError, ValueError):
        cache = {}
    admitted = sorted(m for m in sha if cache.get(m) == sha[m] and m != "MLAProps." + pid)
    cmd = ["coqchk", "-silent", "-o", "-Q", "theories", "MLA", "-Q", "gen", "MLAGen", "-Q", "props", "MLAProps"]
    for m in admitted:
        cmd += ["-admit", m]
    # every module of the cone that is not admitted is named explicitly: -admit covers the dependencies of an admitted
    # module "unless explicitly required"
    cmd += sorted(m for m in sha if m not in admitted)
    r = subprocess.run(cmd, cwd=COQ, capture_output=True, text=True, timeout=int(os.environ.get("VERIF_COQCHK_TIMEOUT", "1500")))
    txt = r.stdout + r.stderr
    axioms = []
    if "* Axioms:" in txt:
        sect = txt.split("* Axioms:", 1)[1].split("* Constants/Inductives relying on type-in-type", 1)[0]
        axioms = [l.strip() for l in sect.splitlines() if l.strip() and l.strip() != "<none>"]
    stray = [a for a in axioms if not (admitted and a.startswith(COQCHK_ADMIT_ARTEFACTS))]
    clean = (r.returncode == 0 and "* Axioms:" in txt and not stray and "relying on type-in-type: <none>" in txt
             and "relying on unsafe (co)fixpoints: <none>" in txt and "positivity is assumed: <none>" in txt)
    if not clean and "* Axioms:" not in txt and not re.search(r"Error|Anomaly", txt):
        # killed (signal, memory) or ended without a verdict: inconclusive, not a refusal of the development
        raise OSError("coqchk ended without a verdict (exit code %s)" % r.returncode)
    if clean:
        os.makedirs(os.path.dirname(cache_path), exist_ok=True)
        with open(cache_path + ".lock", "w") as lk:
            fcntl.flock(lk, fcntl.LOCK_EX)
            try:
                with open(cache_path) as f:
                    cache = json.load(f)
            except (OSError, ValueError):
                cache = {}
            cache.update(sha)
            with open(cache_path + ".tmp", "w") as f:
                json.dump(cache, f)
            os.replace(cache_path + ".tmp", cache_path)
    return clean, txt, len(sha) - len(admitted), len(admitted)


def coq_build(pid, extra=()):
    ensure_makefile()
    targets = ["props/%s.vo" % pid, "theories/Run.vo"] + ["theories/%s.vo" % m for m in extra]
    rc, out, dt = run(["make", "-j%d" % NPROC] + targets, cwd=COQ, timeout=2400)
    failing = None
    if rc != 0:
        m = re.search(r'File "\./([^"]+)", line (\d+)', out)
        failing = "%s:%s" % (m.group(1), m.group(2)) if m else "make"
        # name the lemma enclosing the failing line
        if m:
            try:
                with open(os.path.join(COQ, m.group(1))) as f:
                    lines = f.read().split("\n")
                for ln in range(int(m.group(2)) - 1, -1, -1):
                    mm = re.match(r"\s*(Theorem|Lemma|Example|Definition|Fixpoint|Corollary)\s+(\w+)", lines[ln])
                    if mm:
                        failing += " (%s)" % mm.group(2)
                        break
            except OSError:
                pass
    return rc == 0, out, failing, dt


def theorem_names(pid):
    with open(os.path.join(COQ, "props", pid + ".v")) as f:
        text = strip_comments(f.read())
    return re.findall(r"^\s*(?:Theorem|Example|Corollary)\s+(\w+)", text, re.M)


def print_assumptions(pid, work):
    names = theorem_names(pid)
    src = os.path.join(work, "assumptions_%s.v" % pid)
    with open(src, "w") as f:
        f.write("From MLAProps Require Import %s.\n" % pid)
        for n in names:
            f.write('Goal True. idtac "@@ %s". Abort.\nPrint Assumptions %s.\n' % (n, n))
    rc, out, _ = run(["coqc", "-noglob", "-Q", "theories", "MLA", "-Q", "gen", "MLAGen", "-Q", "props", "MLAProps", src],
                     cwd=COQ, timeout=600)
    per = {}
    cur = None
    for line in out.split("\n"):
        if line.startswith("@@ "):
            cur = line[3:].strip()
            per[cur] = []
        elif cur is not None and line.strip():
            per[cur].append(line.rstrip())
    axioms = {}
    for n, lines in per.items():
        if any("Closed under the global context" in l for l in lines):
            axioms[n] = []
        else:
            ax = [l.split(":")[0].strip() for l in lines if re.match(r"^\S+\s*:", l) and not l.startswith("Axioms")]
            axioms[n] = ax
    missing = [n for n in names if n not in axioms]
    return rc == 0 and not missing, axioms, out


# ------------------------------------------------------------------ building the implementation

def cargo_harness(flavour):
    tdir = os.path.join(BUILD, "harness-" + flavour)
    cmd = ["cargo", "build", "--offline", "--quiet"]
    if flavour == "scaled":
        cmd += ["--features", "scaled"]
    env = dict(ENV, CARGO_TARGET_DIR=tdir)
    rc, out, dt = run(cmd, cwd=os.path.join(VERIF, "harness"), env=env, timeout=2400)
    return rc == 0, out, os.path.join(tdir, "debug", "mla-verif-harness"), dt


def cargo_repo(flavour, packages):
    """Build binaries / libraries of /repo itself (mlar, the C bindings) into .build/repo-<flavour>."""
    tdir = os.path.join(BUILD, "repo-" + flavour)
    cmd = ["cargo", "build", "--offline", "--quiet"]
    for p in packages:
        cmd += ["-p", p]
    if flavour == "scaled":
        cmd += ["--features", "mla/mla_verif"]
    env = dict(ENV, CARGO_TARGET_DIR=tdir)
    rc, out, dt = run(cmd, cwd=REPO, env=env, timeout=2400)
    return rc == 0, out, os.path.join(tdir, "debug"), dt


# ------------------------------------------------------------------ model evaluation (vm_compute)

def coq_term(v):
    if isinstance(v, bool):
        return "1" if v else "0"
    if isinstance(v, int):
        assert v >= 0, v
        return str(v)
    if isinstance(v, list):
        return "[" + "; ".join(coq_term(x) for x in v) + "]"
    raise ValueError(v)


def parse_coq_value(txt):
    """`[[1; 2]; [3]]` (possibly with %N and line breaks) -> nested python lists."""
    t = txt.replace("%N", "").replace("\n", " ").replace(";", ",")
    return json.loads(t)


def eval_shard(args):
    idx, work, flavour, cases, imports = args
    src = os.path.join(work, "cases_%s_%d_%s.v" % (flavour, idx, hashlib.sha256(imports.encode()).hexdigest()[:6]))
    with open(src, "w") as f:
        f.write("From MLA Require Import %s.\nOpen Scope N_scope.\n" % imports)
        f.write("Definition K := %s.\n" % ("consts_verif" if flavour == "scaled" else "consts_prod"))
        for i, c in enumerate(cases):
            f.write('Goal True. idtac "@@ %d". Abort.\n' % i)
            f.write("Eval vm_compute in (%s K %s).\n" % (c["fn"], " ".join(coq_term(a) for a in c["args"])))
    rc, out, dt = run(["coqc", "-noglob", "-Q", "theories", "MLA", "-Q", "gen", "MLAGen", src], cwd=COQ, timeout=3000)
    results = {}
    parts = re.split(r"^@@ (\d+)\s*$", out, flags=re.M)
    # parts: [pre, idx, body, idx, body...]
    for k in range(1, len(parts) - 1, 2):
        body = parts[k + 1]
        m = re.search(r"=\s*(.*?)\s*:\s*list", body, re.S)
        if m:
            try:
                results[int(parts[k])] = parse_coq_value(m.group(1))
            except Exception as e:  # unparsable output is a disagreement, not a crash of the check
                results[int(parts[k])] = {"unparsable": str(e), "text": body[:300]}
    err = None
    if rc != 0:
        err = out[-1500:]
    return idx, results, err, dt


def model_eval(cases, flavour, work, shard_size=40, imports="Base Stream Inst Run"):
    shards = [cases[i:i + shard_size] for i in range(0, len(cases), shard_size)]
    jobs = [(i, work, flavour, sh, imports) for i, sh in enumerate(shards)]
    out = [None] * len(cases)
    errors = []
    with concurrent.futures.ThreadPoolExecutor(max_workers=NPROC) as ex:
        for idx, results, err, _ in ex.map(eval_shard, jobs):
            if err:
                errors.append("shard %d: %s" % (idx, err))
            for j, r in results.items():
                out[idx * shard_size + j] = r
    return out, errors


# ------------------------------------------------------------------ known findings

def load_known():
    p = os.path.join(VERIF, "known_findings.json")
    if not os.path.exists(p):
        return []
    with open(p) as f:
        return json.load(f)["findings"]


# ------------------------------------------------------------------ main

def write_replay(pid, payload):
    d = os.path.join(VERIF, "replay")
    os.makedirs(d, exist_ok=True)
    h = hashlib.sha256(json.dumps(payload, sort_keys=True).encode()).hexdigest()[:12]
    path = os.path.join(d, "%s-%s.json" % (pid, h))
    with open(path, "w") as f:
        json.dump(payload, f, indent=1, sort_keys=True)
    return path


def main(argv):
    if not argv or argv[0] not in PROPS:
        print("usage: check <%s> [--tier quick|thorough] [--seed N] [--replay FILE]" % "|".join(sorted(PROPS)))
        return 2
    pid = argv[0]

    def opt(name, default=None):
        return argv[argv.index(name) + 1] if name in argv else default
    tier = opt("--tier", os.environ.get("VERIF_TIER", "quick"))
    if tier not in ("quick", "thorough"):
        tier = "quick"
    seed = int(opt("--seed", os.environ.get("VERIF_SEED", "1")) or 1)
    replay = opt("--replay")
    cfg = PROPS[pid]
    t0 = time.time()
    work = os.path.join(VERIF, "work", pid)
    shutil.rmtree(work, ignore_errors=True)
    os.makedirs(work, exist_ok=True)
    os.makedirs(os.path.join(VERIF, "evidence"), exist_ok=True)

    violations = []       # (kind, detail, replay payload)
    known_lines = []
    trusted = list(cfg.get("trusted_base", []))

    # 1. Tie A
    ok, msg = tie_a()
    log("tie A: " + msg)
    if not ok:
        violations.append(("tieA", "tools/src2v.py failed: " + msg[-300:], None))

    # 2. proofs
    ok_build, out, failing, dt = coq_build(pid, cfg.get("run_modules", ()))
    log("coq build of props/%s.vo: %s (%.0fs)" % (pid, "ok" if ok_build else "FAILED at " + str(failing), dt))
    proof_broken = None
    axioms = {}
    if not ok_build:
        proof_broken = "theorem/lemma no longer checks: " + str(failing)
        log(out[-1200:])
    else:
        ok_a, axioms, aout = print_assumptions(pid, work)
        used = sorted({a for v in axioms.values() for a in v})
        notallowed = [a for a in used if a not in ALLOWED_AXIOMS]
        log("Print Assumptions: %d theorems, axioms used: %s" % (len(axioms), used or "none (closed under the global context)"))
        if not ok_a:
            proof_broken = "Print Assumptions failed: " + aout[-300:]
        elif notallowed:
            proof_broken = "axioms outside the allow-list: %s" % notallowed
    # thorough tier: the independent checker re-checks the compiled props file and everything it depends on
    if ok_build and not proof_broken and tier == "thorough":
        t1 = time.time()
        try:
            clean, txt, n_checked, n_admitted = coqchk_cone(pid)
            log("coqchk -o MLAProps.%s: %s (%d modules checked now, %d checked earlier on identical .vo files and admitted; %.0fs)" % (
                pid, "axioms <none>, no type-in-type, no unsafe fixpoints, positivity checked" if clean else "NOT CLEAN", n_checked, n_admitted, time.time() - t1))
            if not clean:
                proof_broken = "coqchk does not accept props/%s.vo as closed: %s" % (pid, txt[-400:])
            else:
                trusted.append("coqchk -o (the independent checker) re-checked props/%s.vo and its whole cone: Axioms <none> (%d modules in this run; %d modules had been "
                               "re-checked by an earlier coqchk run on byte-identical .vo files - sha256 recorded in .build/coqchk_cache.json - and were loaded with -admit)" % (pid, n_checked, n_admitted))
        except (OSError, subprocess.TimeoutExpired) as e:
            log("coqchk did not complete (no verdict, not counted): %s" % str(e)[:200])
            trusted.append("coqchk -o was started on props/%s.vo and did not complete within its time limit in this run (its lazy reduction machine re-runs the vm_compute "
                           "known-answer proofs of AES / SHA-512 / ChaCha / X25519 very slowly): no verdict from the independent checker for this property in this run" % pid)
    bad = forbidden_scan()
    if bad:
        proof_broken = (proof_broken or "") + " forbidden constructs: " + "; ".join(bad[:5])
        log("forbidden constructs: %s" % bad[:5])
    cone = dep_cone("props/%s.v" % pid) if ok_build else []
    obligations = 0
    for f in cone:
        with open(os.path.join(COQ, f)) as fh:
            obligations += len(re.findall(r"\bQed\.", strip_comments(fh.read())))
    thms = theorem_names(pid)

    # 3-4. Tie B
    evaluations = 0
    nontrivial = set()
    classes = {}
    samples = []
    traces_validated = 0
    disagreements = []
    oracle_failures = []
    model_errors = []
    known = load_known()
    open_keys = {k["key"] for k in known if k["property"] == pid and k["status"] == "open"}
    seen_known = set()
    bins = {}
    for job in cfg["jobs"](tier):
        flavour = job["flavour"]
        if flavour not in bins:
            okb, bout, binp, dtb = cargo_harness(flavour)
            log("harness build (%s): %s (%.0fs)" % (flavour, "ok" if okb else "FAILED", dtb))
            if not okb:
                log(bout[-1500:])
                violations.append(("build", "the harness does not build against /repo's working tree (%s flavour): %s" % (flavour, bout[-400:]), None))
                bins[flavour] = None
                continue
            bins[flavour] = binp
        if bins[flavour] is None:
            continue
        env = dict(ENV)
        if job.get("needs_repo_bins"):
            okr, rout, bindir, dtr = cargo_repo(flavour, job["needs_repo_bins"])
            log("repo binaries %s (%s): %s (%.0fs)" % (job["needs_repo_bins"], flavour, "ok" if okr else "FAILED", dtr))
            if not okr:
                violations.append(("build", "cargo build of %s failed: %s" % (job["needs_repo_bins"], rout[-400:]), None))
                continue
            env["VERIF_BINDIR"] = bindir
        outp = os.path.join(work, "%s_%s.jsonl" % (job["cmd"].replace(" ", "_").replace("/", "_"), flavour))
        if job.get("script"):
            # a job driven by a script: <script> <harness binary> <workdir> <tier> <seed> <out.jsonl>
            cmd = [sys.executable, os.path.join(VERIF, job["script"]), bins[flavour], os.path.join(work, "job_" + job["cmd"]), tier, str(seed), outp]
        else:
            cmd = [bins[flavour]] + job["cmd"].split() + ["--seed", str(seed), "--tier", tier, "--out", outp]
            if replay and job.get("replayable"):
                cmd += ["--replay", replay]
        rc, hout, dth = run(cmd, timeout=job.get("timeout", 3000), env=env, cwd=work)
        log("harness %s (%s): rc=%d (%.0fs)" % (job["cmd"], flavour, rc, dth))
        if rc != 0:
            violations.append(("harness", "harness %s exited %d: %s" % (job["cmd"], rc, hout[-400:]), None))
            continue
        cases, wits = [], []
        with open(outp) as f:
            for line in f:
                line = line.strip()
                if not line:
                    continue
                o = json.loads(line)
                (wits if "witness" in o else cases).append(o)
        for w in wits:
            evaluations += 1
            if not w["ok"]:
                oracle_failures.append({"id": "witness-" + w["witness"], "msg": w["msg"], "flavour": flavour,
                                        "known": None, "input": {"witness": w["witness"]}})
        # model evaluation
        mcases = [c for c in cases if c.get("fn")]
        mres = [None] * len(mcases)
        if mcases and ok_build:
            mres, errs = model_eval(mcases, flavour, work, shard_size=job.get("shard", 40),
                                    imports=job.get("imports", "Base Stream Inst Run"))
            model_errors.extend(errs)
        for c in cases:
            evaluations += 1
            classes[c["class"]] = classes.get(c["class"], 0) + 1
            if c.get("nontrivial"):
                nontrivial.add(hashlib.sha256(json.dumps([c.get("fn"), c.get("args"), c.get("meta")], sort_keys=True).encode()).hexdigest())
            if len(samples) < 3 and c.get("nontrivial"):
                s = {"id": c["id"], "class": c["class"], "meta": c["meta"]}
                if c.get("args"):
                    s["args_head"] = json.dumps(c["args"])[:300]
                samples.append(s)
            if c.get("model_agrees") is True:
                traces_validated += 1
            elif c.get("model_agrees") is False:
                disagreements.append({"id": c["id"], "why": "model and implementation differ: " + c.get("model_detail", ""),
                                      "flavour": flavour, "oracle_ok": c["oracle_ok"], "known": c.get("known"),
                                      "input": {"fn": job["cmd"], "args": None, "meta": c["meta"]}})
            if not c["oracle_ok"]:
                kn = c.get("known")
                oracle_failures.append({"id": c["id"], "msg": c["oracle_msg"], "flavour": flavour, "known": kn,
                                        "input": {"fn": c.get("fn"), "args": c.get("args"), "meta": c["meta"]}})
        for c, m in zip(mcases, mres):
            if m is None:
                if ok_build:
                    disagreements.append({"id": c["id"], "why": "model produced no value", "flavour": flavour,
                                          "input": {"fn": c["fn"], "args": c["args"]}})
                continue
            if m == c["impl"]:
                traces_validated += 1
            else:
                first = None
                if isinstance(m, list) and isinstance(c["impl"], list):
                    for i, (a, b) in enumerate(zip(m, c["impl"])):
                        if a != b:
                            first = {"row": i, "model": a, "impl": b}
                            break
                    if first is None:
                        first = {"row": min(len(m), len(c["impl"])), "model_rows": len(m), "impl_rows": len(c["impl"])}
                disagreements.append({"id": c["id"], "why": "model and implementation differ", "first": first,
                                      "flavour": flavour, "oracle_ok": c["oracle_ok"], "known": c.get("known"),
                                      "input": {"fn": c["fn"], "args": c["args"], "meta": c["meta"]}})
    if model_errors:
        log("model evaluation errors: " + "; ".join(e[:300] for e in model_errors[:2]))

    # 5. verdict
    # (a) the property's own oracle failed on the implementation: a concrete failing input
    for of in oracle_failures:
        if of["known"] and of["known"] in open_keys:
            seen_known.add(of["known"])
            continue
        violations.append(("oracle", "%s: %s" % (of["id"], of["msg"]), of))
    # (b) model/implementation disagreement where the oracle saw nothing (or a known class)
    corr_broken = [d for d in disagreements if not (d.get("known") and d["known"] in open_keys)]
    for kf in known:
        if kf["property"] == pid and kf["status"] == "open":
            known_lines.append("KNOWN-FINDING: property=%s %s%s" % (pid, kf["what"], "" if kf["key"] in seen_known else " (class not met by this run's inputs)"))
    nofail = False
    if not any(v[0] == "oracle" for v in violations):
        if proof_broken:
            violations.append(("proof", proof_broken, {"theorem": proof_broken, "searched": evaluations}))
            nofail = True
        elif corr_broken:
            d = min(corr_broken, key=lambda x: len(json.dumps(x["input"])))
            violations.append(("correspondence", "corr:%s/%s %s" % (pid, d["input"]["fn"], d["why"]), d))
            nofail = True
        elif model_errors:
            violations.append(("model", "the model could not be evaluated: " + model_errors[0][:300], {"error": model_errors[0][:2000]}))
            nofail = True
    wall = time.time() - t0

    evidence = {
        "property_id": pid, "tier": tier, "seed": seed, "level": "proof",
        "coverage": {
            "obligations": max(obligations, len(thms)) if ok_build else max(1, len(thms)),
            "discharged": (max(obligations, len(thms)) if ok_build and not proof_broken else 0),
            "checker_cmd": "make -C coq -j%d props/%s.vo (coqc 8.16.1, full .vo) + coqc Print Assumptions on every property theorem" % (NPROC, pid),
            "trusted_base": [
                "Coq 8.16.1 kernel (coqc); vm_compute for finite checks, KATs and model evaluation; no native_compute",
                "axioms reported by Print Assumptions: " + (", ".join(sorted({a for v in axioms.values() for a in v})) or "none (every property theorem is closed under the global context)"),
                "translators tools/src2v.py, tools/src2v2.py, tools/src2v2b.py and the level-1 translators tools/src2v3_{fresh,repair,reader,block,header,linear,cli,cmds,capi,keys,enc,comp,crypto}.py with the Rust-subset parser tools/rustmini.py (Tie A: coq/gen/Src.v, Src2.v, Src3*.v regenerated from /repo on every run; each level-1 translator lists in its header the trusted table mapping library primitives - AES/GHASH, brotli, bincode/serde, byteorder, String::from_utf8, LruCache, file-system calls, raw pointers - to model operations) and the lemmas of theories/SrcTie*.v, SrcTie2*.v, SrcTie3*.v, Carry*.v; extraction is not used (no Extract directive anywhere)",
                "correspondence harness /verif/harness and job scripts tools/cli/*.py, tools/keys/*.py (Tie B): generators, canonicalisation, oracles, the independent crates they use",
            ] + trusted,
            "theorems": thms,
            "cone_files": cone,
            "evaluations": evaluations,
            "distinct_nontrivial": len(nontrivial),
            "rule": cfg.get("rule", ""),
            "samples": samples or [{"note": "no generated case in this run"}],
            "traces_validated_against_impl": traces_validated,
            "disagreements_checked": len(disagreements),
            "input_distribution": classes,
            "exhaustive": bool(cfg.get("exhaustive", {}).get(tier, False)),
            "explanation": cfg.get("explanation", ""),
        },
        "assumptions": cfg.get("assumptions", []),
        "wall_s": round(wall, 1),
        "violations": len(violations),
    }
    with open(os.path.join(VERIF, "evidence", pid + ".json"), "w") as f:
        json.dump(evidence, f, indent=1)

    for kl in known_lines:
        print(kl)
    if violations:
        kind, detail, payload = violations[0]
        path = write_replay(pid, {"property": pid, "kind": kind, "detail": detail, "tier": tier, "seed": seed,
                                  "payload": payload, "all": [[k, d] for k, d, _ in violations[:20]]})
        log("%d violation(s); first: [%s] %s" % (len(violations), kind, detail[:500]))
        print("VIOLATION property=%s replay=%s%s" % (pid, path, " no-failing-input-found" if nofail else ""))
        return 1
    log("%s: OK — %d theorems (%d Qed in cone), %d cases, %d model=impl, %.0fs" % (pid, len(thms), obligations, evaluations, traces_validated, wall))
    return 0
