#!/usr/bin/env python3
"""rustmini: a small recursive-descent parser for the subset of Rust that the function
bodies translated by Tie A (tools/src2v2.py) are written in.  It is NOT a Rust front end:
anything outside the subset raises ParseError and the caller fails closed.

AST (tuples):
  expressions
    ('int', n) ('str', s) ('char', s) ('path', 'a::b') ('unit',) ('tuple', [e])
    ('field', e, name) ('mcall', e, name, [args]) ('call', e, [args]) ('index', e, i)
    ('un', op, e)  op in ! - * & &mut            ('bin', op, a, b)   ('cast', e, 'type')
    ('try', e)  (postfix ?)                       ('range', a|None, b|None)
    ('assign', op, lhs, rhs)  op in = += -= *= /=
    ('macro', name, 'canonical argument text', [parsed args] | None)
    ('struct', 'path', [(field, e)])              ('closure', 'params', e)
    ('array', [e]) ('repeat', e, n)
    ('block', [stmt], tail|None)
    ('if', cond, block, else|None)   cond = expr | ('letcond', 'pattern', e)
    ('match', scrut, [('pattern', guard|None, e)])
    ('loop', label|None, block) ('while', label|None, cond, block) ('for', label|None, 'pat', e, block)
    ('return', e|None) ('break', label|None, e|None) ('continue', label|None)
  statements
    ('let', 'pattern', 'type'|None, e|None, else_block|None)   ('semi', e)   ('expr', e)
"""
import re


class ParseError(Exception):
    pass


OPS = ["..=", "<<=", ">>=", "=>", "->", "::", "..", "==", "!=", "<=", ">=", "&&", "||", "+=", "-=", "*=", "/=",
       "%=", "|=", "&=", "^=", "<<", ">>"]
TOK = re.compile(
    r"(?P<int>\d[\d_]*(?:u8|u16|u32|u64|usize|i8|i16|i32|i64|isize)?|0x[0-9A-Fa-f_]+|0b[01_]+)"
    r"|(?P<bstr>b?\"(?:[^\"\\]|\\.)*\")"
    r"|(?P<bchar>b'(?:[^'\\]|\\.[^']*)')"
    r"|(?P<id>[A-Za-z_][A-Za-z0-9_]*)"
    r"|(?P<life>'[A-Za-z_][A-Za-z0-9_]*(?!'))"
    r"|(?P<char>b?'(?:[^'\\]|\\.[^']*)')"
    r"|(?P<op>\.\.=|<<=|>>=|=>|->|::|\.\.|==|!=|<=|>=|&&|\|\||\+=|-=|\*=|/=|%=|\|=|&=|\^=|<<|>>|[-+*/%()<>,{}\[\].;=?!|&:#^@])")


def strip_comments(s):
    out, i, n = [], 0, len(s)
    while i < n:
        c = s[i]
        if c == '"':
            j = i + 1
            while j < n and s[j] != '"':
                j += 2 if s[j] == "\\" else 1
            out.append(s[i:j + 1])
            i = j + 1
        elif s.startswith("//", i):
            j = s.find("\n", i)
            i = n if j < 0 else j
        elif s.startswith("/*", i):
            j = s.find("*/", i + 2)
            i = n if j < 0 else j + 2
        else:
            out.append(c)
            i += 1
    return "".join(out)


def tokenize(s):
    s = strip_comments(s)
    out, pos, n = [], 0, len(s)
    while True:
        while pos < n and s[pos].isspace():
            pos += 1
        if pos >= n:
            break
        m = TOK.match(s, pos)
        if not m:
            raise ParseError("token at %r" % s[pos:pos + 20])
        k = m.lastgroup
        v = m.group(k)
        if k == "int":
            core = re.sub(r"(u8|u16|u32|u64|usize|i8|i16|i32|i64|isize)$", "", v).replace("_", "")
            out.append(("int", int(core, 0)))
        else:
            out.append((k, v))
        pos = m.end()
    return out


def text(toks):
    """canonical text of a token list: single spaces only between two word-like tokens"""
    out = []
    prev_word = False
    for k, v in toks:
        s = str(v)
        word = k in ("id", "int", "life") or (k == "op" and False)
        if prev_word and word:
            out.append(" ")
        out.append(s)
        prev_word = word
    return "".join(out)


KEYWORDS_BLOCKLIKE = ("if", "match", "loop", "while", "for", "unsafe")
BINPREC = {"*": 10, "/": 10, "%": 10, "+": 9, "-": 9, "<<": 8, ">>": 8, "&": 7, "^": 6, "|": 5,
           "==": 4, "!=": 4, "<": 4, ">": 4, "<=": 4, ">=": 4, "&&": 3, "||": 2}
ASSIGN = ("=", "+=", "-=", "*=", "/=", "%=", "|=", "&=", "^=")


class Parser:
    def __init__(self, toks):
        self.t, self.i = toks, 0

    # -- token helpers
    def peek(self, k=0):
        j = self.i + k
        return self.t[j] if j < len(self.t) else ("eof", None)

    def next(self):
        tok = self.peek()
        self.i += 1
        return tok

    def at(self, kind, val=None, k=0):
        tok = self.peek(k)
        return tok[0] == kind and (val is None or tok[1] == val)

    def at_op(self, val, k=0):
        return self.at("op", val, k)

    def at_kw(self, val, k=0):
        return self.at("id", val, k)

    def expect(self, kind, val=None):
        tok = self.next()
        if tok[0] != kind or (val is not None and tok[1] != val):
            raise ParseError("expected %s %s, got %s (at token %d)" % (kind, val, tok, self.i))
        return tok

    def skip_generics(self):
        """at '<': skip a balanced generic argument list, return its canonical text"""
        start = self.i
        depth = 0
        while True:
            tok = self.next()
            if tok[0] == "eof":
                raise ParseError("unterminated generics")
            if tok == ("op", "<"):
                depth += 1
            elif tok == ("op", ">"):
                depth -= 1
            elif tok == ("op", ">>"):
                depth -= 2
            if depth <= 0:
                break
        return text(self.t[start:self.i])

    def path(self):
        """ident (:: ident | ::<..>)*  -> 'a::b' (generic arguments dropped, recorded nowhere)"""
        segs = [self.expect("id")[1]]
        while self.at_op("::"):
            if self.at_op("<", 1):
                self.next()
                self.skip_generics()
            elif self.at("id", None, 1):
                self.next()
                segs.append(self.next()[1])
            else:
                raise ParseError("path after ::")
        return "::".join(segs)

    def type_text(self, stops):
        """scan a type up to one of the stop operator tokens at depth 0"""
        start, depth = self.i, 0
        while True:
            tok = self.peek()
            if tok[0] == "eof":
                raise ParseError("unterminated type")
            if depth == 0 and tok[0] == "op" and tok[1] in stops:
                break
            if tok[0] == "op" and tok[1] in "<([":
                depth += 1
            elif tok[0] == "op" and tok[1] in ">)]":
                depth -= 1
            elif tok == ("op", ">>"):
                depth -= 2
            self.next()
        return text(self.t[start:self.i])

    def pattern_text(self, stops_op=(), stops_kw=()):
        start, depth = self.i, 0
        while True:
            tok = self.peek()
            if tok[0] == "eof":
                raise ParseError("unterminated pattern")
            if depth == 0 and ((tok[0] == "op" and tok[1] in stops_op) or (tok[0] == "id" and tok[1] in stops_kw)):
                break
            if tok[0] == "op" and tok[1] in "([{":
                depth += 1
            elif tok[0] == "op" and tok[1] in ")]}":
                depth -= 1
            self.next()
        return text(self.t[start:self.i])

    # -- blocks and statements
    def block(self):
        self.expect("op", "{")
        stmts, tail = [], None
        while not self.at_op("}"):
            if self.at_op(";"):
                self.next()
                continue
            if self.at_kw("let"):
                stmts.append(self.let())
                continue
            e = self.expr(0)
            if self.at_op(";"):
                self.next()
                stmts.append(("semi", e))
            elif self.at_op("}"):
                tail = e
            elif e[0] in ("if", "match", "loop", "while", "for", "block"):
                stmts.append(("expr", e))
            else:
                raise ParseError("expected ; or } after expression, got %s" % (self.peek(),))
        self.expect("op", "}")
        return ("block", stmts, tail)

    def let(self):
        self.expect("id", "let")
        pat = self.pattern_text(stops_op=(":", "=", ";"))
        ty = None
        if self.at_op(":"):
            self.next()
            ty = self.type_text(("=", ";"))
        e = els = None
        if self.at_op("="):
            self.next()
            e = self.expr(0)
            if self.at_kw("else"):
                self.next()
                els = self.block()
        self.expect("op", ";")
        return ("let", pat, ty, e, els)

    # -- expressions
    def expr(self, minp, nostruct=False):
        lhs = self.unary(nostruct)
        while True:
            tok = self.peek()
            if tok[0] == "id" and tok[1] == "as":
                self.next()
                ty = self.type_text_cast()
                lhs = ("cast", lhs, ty)
                continue
            if tok[0] == "op" and tok[1] in BINPREC and BINPREC[tok[1]] >= max(minp, 2):
                op = self.next()[1]
                rhs = self.expr(BINPREC[op] + 1, nostruct)
                lhs = ("bin", op, lhs, rhs)
                continue
            if tok[0] == "op" and tok[1] in ("..", "..=") and minp <= 1:
                self.next()
                rhs = None
                if not (self.at_op("]") or self.at_op(")") or self.at_op(";") or self.at_op(",") or self.at_op("{")):
                    rhs = self.expr(2, nostruct)
                lhs = ("range", lhs, rhs)
                continue
            if tok[0] == "op" and tok[1] in ASSIGN and minp <= 0:
                op = self.next()[1]
                rhs = self.expr(0, nostruct)
                return ("assign", op, lhs, rhs)
            return lhs

    def type_text_cast(self):
        # `as u64`, `as usize`, `as Box<..>` ...
        start = self.i
        self.expect("id")
        while self.at_op("::"):
            self.next()
            if self.at_op("<"):
                self.skip_generics()
            else:
                self.expect("id")
        if self.at_op("<") and False:
            self.skip_generics()
        return text(self.t[start:self.i])

    def unary(self, nostruct):
        tok = self.peek()
        if tok[0] == "op" and tok[1] in ("!", "-", "*"):
            self.next()
            return ("un", tok[1], self.unary(nostruct))
        if tok == ("op", "&") or tok == ("op", "&&"):
            self.next()
            op = "&"
            if self.at_kw("mut"):
                self.next()
                op = "&mut"
            e = ("un", op, self.unary(nostruct))
            if tok[1] == "&&":
                e = ("un", "&", e)
            return e
        if tok == ("op", "..") :
            self.next()
            rhs = None
            if not (self.at_op("]") or self.at_op(")")):
                rhs = self.expr(2, nostruct)
            return ("range", None, rhs)
        return self.postfix(self.atom(nostruct), nostruct)

    def args(self, close=")"):
        out = []
        while not self.at_op(close):
            out.append(self.expr(0))
            if self.at_op(","):
                self.next()
            elif not self.at_op(close):
                raise ParseError("expected , or %s in arguments, got %s" % (close, self.peek(),))
        self.expect("op", close)
        return out

    def postfix(self, e, nostruct):
        while True:
            if self.at_op("."):
                if self.at("int", None, 1):
                    self.next()
                    e = ("field", e, str(self.next()[1]))
                    continue
                self.next()
                name = self.expect("id")[1]
                if self.at_op("::"):
                    self.next()
                    name += "::" + self.skip_generics()
                if self.at_op("("):
                    self.next()
                    e = ("mcall", e, name, self.args())
                else:
                    e = ("field", e, name)
            elif self.at_op("?"):
                self.next()
                e = ("try", e)
            elif self.at_op("("):
                self.next()
                e = ("call", e, self.args())
            elif self.at_op("["):
                self.next()
                idx = self.expr(0)
                self.expect("op", "]")
                e = ("index", e, idx)
            else:
                return e

    def label(self):
        if self.at("life") and self.at_op(":", 1):
            lab = self.next()[1]
            self.next()
            return lab
        return None

    def atom(self, nostruct):
        lab = self.label()
        tok = self.peek()
        if lab is not None and not (tok[0] == "id" and tok[1] in ("loop", "while", "for")):
            raise ParseError("label before %s" % (tok,))
        if tok[0] == "int":
            self.next()
            return ("int", tok[1])
        if tok[0] == "bstr":
            self.next()
            return ("str", tok[1])
        if tok[0] in ("char", "bchar"):
            self.next()
            return ("char", tok[1])
        if tok == ("op", "("):
            self.next()
            if self.at_op(")"):
                self.next()
                return ("unit",)
            e = self.expr(0)
            if self.at_op(","):
                items = [e]
                while self.at_op(","):
                    self.next()
                    if self.at_op(")"):
                        break
                    items.append(self.expr(0))
                self.expect("op", ")")
                return ("tuple", items)
            self.expect("op", ")")
            return ("paren", e)
        if tok == ("op", "["):
            self.next()
            if self.at_op("]"):
                self.next()
                return ("array", [])
            e = self.expr(0)
            if self.at_op(";"):
                self.next()
                n = self.expr(0)
                self.expect("op", "]")
                return ("repeat", e, n)
            items = [e]
            while self.at_op(","):
                self.next()
                if self.at_op("]"):
                    break
                items.append(self.expr(0))
            self.expect("op", "]")
            return ("array", items)
        if tok == ("op", "{"):
            return self.block()
        if tok == ("op", "|") or tok == ("op", "||"):
            self.next()
            params = ""
            if tok[1] == "|":
                params = self.pattern_text(stops_op=("|",))
                self.expect("op", "|")
            body = self.expr(0)
            return ("closure", params, body)
        if tok[0] == "id":
            kw = tok[1]
            if kw == "if":
                return self.if_()
            if kw == "match":
                self.next()
                scrut = self.expr(0, nostruct=True)
                self.expect("op", "{")
                arms = []
                while not self.at_op("}"):
                    pat = self.pattern_text(stops_op=("=>",), stops_kw=("if",))
                    guard = None
                    if self.at_kw("if"):
                        self.next()
                        guard = self.expr(0, nostruct=True)
                    self.expect("op", "=>")
                    body = self.expr(0)
                    if self.at_op(","):
                        self.next()
                    elif not self.at_op("}") and body[0] not in ("block", "if", "match", "loop"):
                        raise ParseError("expected , after match arm, got %s" % (self.peek(),))
                    arms.append((pat, guard, body))
                self.expect("op", "}")
                return ("match", scrut, arms)
            if kw == "loop":
                self.next()
                return ("loop", lab, self.block())
            if kw == "while":
                self.next()
                c = self.cond()
                return ("while", lab, c, self.block())
            if kw == "for":
                self.next()
                pat = self.pattern_text(stops_kw=("in",))
                self.expect("id", "in")
                it = self.expr(0, nostruct=True)
                return ("for", lab, pat, it, self.block())
            if kw == "return":
                self.next()
                if self.at_op(";") or self.at_op("}") or self.at_op(","):
                    return ("return", None)
                return ("return", self.expr(0))
            if kw == "break":
                self.next()
                l2 = None
                if self.at("life"):
                    l2 = self.next()[1]
                if self.at_op(";") or self.at_op("}") or self.at_op(","):
                    return ("break", l2, None)
                return ("break", l2, self.expr(0))
            if kw == "continue":
                self.next()
                l2 = None
                if self.at("life"):
                    l2 = self.next()[1]
                return ("continue", l2)
            if kw == "unsafe":
                self.next()
                return self.block()
            if kw in ("let", "else", "fn", "impl", "struct", "enum", "mut", "in", "as"):
                raise ParseError("keyword %s in expression position" % kw)
            p = self.path()
            if self.at_op("!") and (self.at_op("(", 1) or self.at_op("[", 1)):
                self.next()
                opener = self.next()[1]
                closer = ")" if opener == "(" else "]"
                start, depth = self.i, 1
                while depth:
                    tk = self.next()
                    if tk[0] == "eof":
                        raise ParseError("unterminated macro")
                    if tk[0] == "op" and tk[1] in "([{":
                        depth += 1
                    elif tk[0] == "op" and tk[1] in ")]}":
                        depth -= 1
                inner = self.t[start:self.i - 1]
                parsed = None
                try:
                    sub = Parser(list(inner))
                    parsed = []
                    while sub.peek()[0] != "eof":
                        parsed.append(sub.expr(0))
                        if sub.at_op(",") or sub.at_op(";"):
                            sub.next()
                        elif sub.peek()[0] != "eof":
                            raise ParseError("macro args")
                except ParseError:
                    parsed = None
                return ("macro", p, text(inner), parsed)
            last = p.split("::")[-1]
            if self.at_op("{") and not nostruct and (last[:1].isupper()):
                self.next()
                fields = []
                while not self.at_op("}"):
                    if self.at_op(".."):
                        self.next()
                        fields.append(("..", self.expr(0)))
                    else:
                        fname = self.expect("id")[1]
                        if self.at_op(":"):
                            self.next()
                            fields.append((fname, self.expr(0)))
                        else:
                            fields.append((fname, ("path", fname)))
                    if self.at_op(","):
                        self.next()
                    elif not self.at_op("}"):
                        raise ParseError("struct literal")
                self.expect("op", "}")
                return ("struct", p, fields)
            return ("path", p)
        raise ParseError("atom %s" % (tok,))

    def cond(self):
        if self.at_kw("let"):
            self.next()
            pat = self.pattern_text(stops_op=("=",))
            self.expect("op", "=")
            return ("letcond", pat, self.expr(0, nostruct=True))
        return self.expr(0, nostruct=True)

    def if_(self):
        self.expect("id", "if")
        c = self.cond()
        th = self.block()
        el = None
        if self.at_kw("else"):
            self.next()
            el = self.if_() if self.at_kw("if") else self.block()
        return ("if", c, th, el)


def parse_body(body_text):
    """body_text = text between the outer braces of a fn; returns ('block', stmts, tail)"""
    p = Parser(tokenize("{" + body_text + "}"))
    b = p.block()
    if p.peek()[0] != "eof":
        raise ParseError("trailing tokens after body")
    return b


def parse_expr(s):
    p = Parser(tokenize(s))
    e = p.expr(0)
    if p.peek()[0] != "eof":
        raise ParseError("trailing tokens after expression: %s" % (p.peek(),))
    return e


def strip_paren(e):
    while e[0] == "paren":
        e = e[1]
    return e


def show(e):
    """canonical one-line rendering of an AST (used for event lists and for matching leaves)"""
    k = e[0]
    if k == "int":
        return str(e[1])
    if k in ("str", "char"):
        return e[1]
    if k == "path":
        return e[1]
    if k == "unit":
        return "()"
    if k == "paren":
        return "(" + show(e[1]) + ")"
    if k == "tuple":
        return "(" + ", ".join(show(x) for x in e[1]) + ")"
    if k == "array":
        return "[" + ", ".join(show(x) for x in e[1]) + "]"
    if k == "repeat":
        return "[%s; %s]" % (show(e[1]), show(e[2]))
    if k == "field":
        return "%s.%s" % (show(e[1]), e[2])
    if k == "mcall":
        return "%s.%s(%s)" % (show(e[1]), e[2], ", ".join(show(x) for x in e[3]))
    if k == "call":
        return "%s(%s)" % (show(e[1]), ", ".join(show(x) for x in e[2]))
    if k == "index":
        return "%s[%s]" % (show(e[1]), show(e[2]))
    if k == "un":
        return "%s%s" % (e[1] + (" " if e[1] == "&mut" else ""), show(e[2]))
    if k == "bin":
        return "%s %s %s" % (show(e[2]), e[1], show(e[3]))
    if k == "cast":
        return "%s as %s" % (show(e[1]), e[2])
    if k == "try":
        return show(e[1]) + "?"
    if k == "range":
        return "%s..%s" % (show(e[1]) if e[1] else "", show(e[2]) if e[2] else "")
    if k == "assign":
        return "%s %s %s" % (show(e[2]), e[1], show(e[3]))
    if k == "macro":
        return "%s!(%s)" % (e[1], e[2])
    if k == "struct":
        return "%s { %s }" % (e[1], ", ".join("%s: %s" % (f, show(v)) for f, v in e[2]))
    if k == "closure":
        return "|%s| %s" % (e[1], show(e[2]))
    if k == "return":
        return "return" + (" " + show(e[1]) if e[1] else "")
    if k == "break":
        return "break" + (" " + e[1] if e[1] else "") + (" " + show(e[2]) if e[2] else "")
    if k == "continue":
        return "continue" + (" " + e[1] if e[1] else "")
    if k == "letcond":
        return "let %s = %s" % (e[1], show(e[2]))
    if k == "block":
        parts = [show_stmt(s) for s in e[1]] + ([show(e[2])] if e[2] else [])
        return "{ " + " ".join(parts) + " }" if parts else "{ }"
    if k == "if":
        return "if %s %s%s" % (show(e[1]), show(e[2]), " else " + show(e[3]) if e[3] else "")
    if k == "match":
        return "match %s { %s }" % (show(e[1]), " ".join(
            "%s%s => %s," % (p, " if " + show(g) if g else "", show(b)) for p, g, b in e[2]))
    if k == "loop":
        return "%sloop %s" % (e[1] + ": " if e[1] else "", show(e[2]))
    if k == "while":
        return "%swhile %s %s" % (e[1] + ": " if e[1] else "", show(e[2]), show(e[3]))
    if k == "for":
        return "%sfor %s in %s %s" % (e[1] + ": " if e[1] else "", e[2], show(e[3]), show(e[4]))
    raise ParseError("show " + k)


def show_stmt(s):
    if s[0] == "let":
        return "let %s%s%s%s;" % (s[1], ": " + s[2] if s[2] else "", " = " + show(s[3]) if s[3] else "",
                                  " else " + show(s[4]) if s[4] else "")
    if s[0] == "semi":
        return show(s[1]) + ";"
    return show(s[1])


def fn_text(src, name, nth=0, within=None):
    """body text (between the outer braces) and 1-based line of the nth `fn name` in src
    (optionally only inside the item starting at the regex `within`, e.g. an impl header)"""
    base = 0
    if within is not None:
        m = re.search(within, src)
        if not m:
            return None
        i = src.index("{", m.end() - 1) if src[m.end() - 1] != "{" else m.end() - 1
        j = match_brace(src, i)
        base, src_in = i, src[i:j + 1]
    else:
        src_in = src
    ms = list(re.finditer(r"\bfn\s+%s\s*(?:<[^>{]*>)?\s*\(" % re.escape(name), src_in))
    if len(ms) <= nth:
        return None
    m = ms[nth]
    # the body starts at the first '{' after the parameter list / where clause
    depth, k = 0, m.end() - 1
    while True:
        if src_in[k] == "(":
            depth += 1
        elif src_in[k] == ")":
            depth -= 1
            if depth == 0:
                break
        k += 1
    i = src_in.index("{", k)
    j = match_brace(src_in, i)
    return src_in[i + 1:j], (src[:base] + src_in[:m.start()]).count("\n") + 1, src_in[m.start():i]


def match_brace(s, i):
    """index of the brace matching s[i] == '{' (string literals and comments skipped)"""
    depth, j, n = 0, i, len(s)
    while j < n:
        c = s[j]
        if c == '"':
            j += 1
            while j < n and s[j] != '"':
                j += 2 if s[j] == "\\" else 1
        elif s.startswith("//", j):
            k = s.find("\n", j)
            j = n if k < 0 else k
            continue
        elif c == "'" and j + 2 < n and (s[j + 2] == "'" or (s[j + 1] == "\\" and s.find("'", j + 2) in (j + 3, j + 4))):
            j = s.find("'", j + 2)
        elif c == "{":
            depth += 1
        elif c == "}":
            depth -= 1
            if depth == 0:
                return j
        j += 1
    raise ParseError("unbalanced braces")


if __name__ == "__main__":
    import sys
    src = open(sys.argv[1]).read()
    r = fn_text(src, sys.argv[2], int(sys.argv[3]) if len(sys.argv) > 3 else 0)
    if r is None:
        print("not found")
    else:
        print(show(parse_body(r[0])))
