#!/usr/bin/env python3
"""Tie A, level 1 for curve25519-parser (work package capiT): regenerate coq/gen/Src3k.v.

Translated statement by statement from /repo/curve25519-parser/src/lib.rs (parser: tools/rustmini.py):
the constants (OIDs, TAG_OCTETSTRING, PEM labels, DER export prefixes), parse_25519_private_header /
public_header, parse_25519_private / public, parse_openssl_25519_privkey_der / pubkey_der,
parse_openssl_25519_pubkey / privkey (PEM first, DER as fallback — translated literally: K18),
parse_openssl_25519_pubkeys_pem_many, KeyPair::{public_as_pem, private_as_pem}, generate_keypair.
theories/SrcTie3Keys.v proves them equal to theories/Keys.v for ALL byte strings.

TRUSTED PRIMITIVE TABLE (calls into der-parser / nom / pem / dalek -> the re-modelled functions of Keys.v):
  parse_der_container(|i, hdr| body)(i)        -> Keys.der_container (fun i hdr => body) i     (value, rest)
  hdr.tag() != Tag::Sequence                   -> negb (h_tag hdr =? 16)
  Err(nom::Err::Error(BerError::InvalidTag))   -> Keys.E  (= Err EDeser: every BER / nom / PEM error is one class)
  parse_der_oid / _integer / _octetstring / _bitstring (i)?   -> Keys.parse_der_* i  (content, rest); `let (i, x) = …?` binds rest, value
  eof(i)?                                      -> Keys.eof i
  complete(f)(i)?                              -> f i   (the sub-parsers never return Incomplete)
  Ok((i, Struct { a, b }))  in a container     -> Ok (a, b)   (one field: Ok a); the rest after the content is dropped by der_container
  x.content.as_slice()? / x.as_oid()?          -> x  (the object was produced by the parser of that very type)
  data.len() / data[i] / &data[a..b]           -> len / Keys.idx SITE / Keys.slice SITE   (the panic sites are parameters)
  a || b || c  in `if … { return Err(e) }`     -> sequential tests, left to right (short circuit)
  data.try_into().map_err(|_| e)?  ([u8; 32])  -> if negb (len data =? 32) then Err e
  read_oid == &X_OID                           -> bytes_eqb on the DER content octets; oid!(a.b.c…) -> base-128 content octets
  Sha512::digest(x) / decompress+to_montgomery / PublicKey::from(&StaticSecret)  -> Section variables sha512, ed_to_mont, x25519_base
  StaticSecret::from(k), PublicKey::from(k), MontgomeryPoint(d).to_bytes()       -> the 32 octets
  pem::parse(d) / pem::parse_many(d)? / pem::encode(Pem::new(t, d))              -> Keys.pem_parse / pem_parse_many / pem_encode; x.tag().as_bytes() = fst, x.contents() = snd
  Curve25519ParserError::{InvalidData, UnknownOid, InvalidPEMTag}                -> EInval, EKey, EKey (as Keys.v)
  `for x in v { … return Err … ?; output.push(y) } Ok(output)`                   -> Fixpoint over the list with the accumulator

FAILS CLOSED per item: `Definition <name>_untranslatable : unit := tt.`
"""
import os
import re
import sys

sys.path.insert(0, os.path.dirname(os.path.abspath(__file__)))
import rustmini as R  # noqa: E402
from rustmini import ParseError, strip_paren, show  # noqa: E402

HERE = os.path.dirname(os.path.abspath(__file__))
LIB = "curve25519-parser/src/lib.rs"
ERRS = {"Curve25519ParserError::InvalidData": "EInval", "Curve25519ParserError::UnknownOid": "EKey",
        "Curve25519ParserError::InvalidPEMTag": "EKey"}
DER_PRIMS = ("parse_der_oid", "parse_der_integer", "parse_der_octetstring", "parse_der_bitstring")


def cmt(s):
    return str(s).replace("*)", "* )").replace("(*", "( *")


def nospace(s):
    return re.sub(r"\s", "", s)


class V:
    def __init__(self, text, kind):
        self.text, self.kind = text, kind


class Tr:
    def __init__(self, structs, consts, localfns):
        self.structs, self.consts, self.localfns = structs, consts, localfns
        self.n = 0
        self.sites = []
        self.aux = []

    def fresh(self, b):
        self.n += 1
        return "%s%d" % (b, self.n)

    def site(self):
        nm = "site%d" % (len(self.sites) + 1)
        self.sites.append(nm)
        return nm

    def err(self, e):
        e = strip_paren(e)
        if e[0] == "path" and e[1] in ERRS:
            return ERRS[e[1]]
        if e[0] == "closure" and e[1].strip() == "_":
            return self.err(e[2])
        if show(e) == "nom::Err::Error(BerError::InvalidTag)":
            return "EDeser"
        raise ParseError("error value " + show(e)[:60])

    # ---- pure expressions
    def pe(self, e, env):
        e = strip_paren(e)
        k = e[0]
        if k == "int":
            return V(str(e[1]), "N")
        if k == "un" and e[1] in ("&", "&mut"):
            return self.pe(e[2], env)
        if k == "path":
            if e[1] in env:
                return env[e[1]]
            if e[1] in self.consts:
                return V(e[1], self.consts[e[1]])
            raise ParseError("unknown name " + e[1])
        if k == "field":
            b = self.pe(e[1], env)
            if b.kind.startswith("obj:"):
                fl = self.structs[b.kind[4:]]
                if e[2] in fl:
                    if len(fl) == 1:
                        return V(b.text, fl[e[2]])
                    if len(fl) == 2:
                        return V("(%s %s)" % (("fst", "snd")[list(fl).index(e[2])], b.text), fl[e[2]])
            if b.kind == "derobj" and e[2] == "content":
                return V(b.text, "content")
        if k == "mcall":
            r, m, a = e[1], e[2], e[3]
            if m == "len" and not a:
                v = self.pe(r, env)
                if v.kind == "bytes":
                    return V("(len %s)" % v.text, "N")
            if m == "tag" and not a and self.pe(r, env).kind == "hdr":
                return V("(h_tag %s)" % self.pe(r, env).text, "N")
            if m == "as_bytes" and not a and strip_paren(r)[0] == "mcall" and strip_paren(r)[2] == "tag" \
                    and self.pe(strip_paren(r)[1], env).kind == "pem":
                return V("(fst %s)" % self.pe(strip_paren(r)[1], env).text, "bytes")
            if m == "contents" and not a and self.pe(r, env).kind == "pem":
                return V("(snd %s)" % self.pe(r, env).text, "bytes")
            if m == "to_vec" and not a and self.pe(r, env).kind == "bytes":
                return self.pe(r, env)
        if k == "bin" and e[1] in ("!=", "=="):
            a, b = self.pe(e[2], env), self.pe_tag(e[3], env)
            if a.kind == b.kind == "N":
                t = "(%s =? %s)" % (a.text, b.text)
            elif a.kind == b.kind == "bytes":
                t = "(bytes_eqb %s %s)" % (a.text, b.text)
            else:
                raise ParseError("comparison of %s and %s" % (a.kind, b.kind))
            return V(t if e[1] == "==" else "(negb %s)" % t, "bool")
        raise ParseError("expression " + show(e)[:70])

    def pe_tag(self, e, env):
        if show(strip_paren(e)) == "Tag::Sequence":
            return V("16", "N")
        return self.pe(e, env)

    # ---- res-valued terms (the operand of `?`)
    def rterm(self, e, env, ty=None):
        e = strip_paren(e)
        if e[0] == "call" and e[1][0] == "path" and len(e[2]) == 1:
            fn = e[1][1]
            a = self.pe(e[2][0], env)
            if fn in DER_PRIMS and a.kind == "bytes":
                return "%s %s" % (fn, a.text), "pair:derobj"
            if fn == "eof" and a.kind == "bytes":
                return "eof %s" % a.text, "unit"
            if fn in self.localfns and a.kind == "bytes":
                return "%s %s" % (fn, a.text), self.localfns[fn]
            if fn == "pem::parse_many" and a.kind == "bytes":
                return "pem_parse_many %s" % a.text, "pemlist"
        if e[0] == "call" and strip_paren(e[1])[0] == "call" and show(strip_paren(e[1])[1]) == "complete" and len(e[2]) == 1:
            inner = strip_paren(e[1])[2]
            if len(inner) == 1 and strip_paren(inner[0])[0] == "path" and strip_paren(inner[0])[1] in self.localfns:
                fn = strip_paren(inner[0])[1]
                return "%s %s" % (fn, self.pe(e[2][0], env).text), self.localfns[fn]
        if e[0] == "mcall":
            r, m, a = e[1], e[2], e[3]
            if m == "as_slice" and not a:
                v = self.pe(r, env)
                if v.kind == "content":
                    return "Ok %s" % v.text, "bytes"
            if m == "as_oid" and not a:
                v = self.pe(r, env)
                if v.kind == "derobj":
                    return "Ok %s" % v.text, "bytes"
            if m == "map_err" and len(a) == 1 and strip_paren(r)[0] == "mcall" and strip_paren(r)[2] == "try_into" and not strip_paren(r)[3]:
                v = self.pe(strip_paren(r)[1], env)
                mt = re.match(r"\[u8;(\d+)\]$", nospace(ty or ""))
                if v.kind == "bytes" and mt:
                    return "(if negb (len %s =? %s) then Err %s else Ok %s)" % (v.text, mt.group(1), self.err(a[0]), v.text), "bytes"
        raise ParseError("fallible call " + show(e)[:70])

    def bind(self, e, env, pat, ty, k):
        """let pat = e?;"""
        t, kind = self.rterm(e, env, ty)
        env2 = dict(env)
        if kind.startswith("pair:"):
            mt = re.match(r"\((\w+),(\w+)\)$", nospace(pat))
            if not mt:
                raise ParseError("pattern %s for a (rest, value) result" % pat)
            p = self.fresh("p")
            vk = kind[5:]
            pre = ""
            if mt.group(2) != "_" and not mt.group(2).startswith("_"):
                env2[mt.group(2)] = V("(fst %s)" % p, vk)
            if mt.group(1) != "_" and not mt.group(1).startswith("_"):
                env2[mt.group(1)] = V("(snd %s)" % p, "bytes")
            return "do %s <- %s;\n    %s%s" % (p, t, pre, k(env2))
        if pat is None or pat == "_":
            return "do _ <- %s;\n    %s" % (t, k(env2))
        if not re.match(r"\w+$", pat):
            raise ParseError("pattern " + pat)
        v = self.fresh(pat)
        env2[pat] = V(v, kind)
        return "do %s <- %s;\n    %s" % (v, t, k(env2))

    # ---- conditions with short-circuit and index effects: k_true / k_false are texts builders
    def cond_seq(self, e, env, on_true, on_false):
        """if e then on_true else on_false(env), e an `||` chain whose operands may index"""
        e = strip_paren(e)
        if e[0] == "bin" and e[1] == "||":
            return self.cond_seq(e[2], env, on_true, lambda env2: self.cond_seq(e[3], env2, on_true, on_false))
        if e[0] == "bin" and e[1] in ("!=", "==") and strip_paren(e[2])[0] == "index":
            ix = strip_paren(e[2])
            arr, i = self.pe(ix[1], env), self.pe(ix[2], env)
            if arr.kind != "bytes" or i.kind != "N":
                raise ParseError("index " + show(ix))
            x = self.fresh("x")
            env2 = dict(env)
            env2["__x"] = V(x, "N")
            cv = self.pe(("bin", e[1], ("path", "__x"), e[3]), env2)
            return "do %s <- idx %s %s %s;\n    if %s then %s else\n    %s" % (x, self.site_idx, arr.text, i.text, cv.text, on_true, on_false(env))
        cv = self.pe(e, env)
        if cv.kind != "bool":
            raise ParseError("condition " + show(e))
        return "if %s then %s else\n    %s" % (cv.text, on_true, on_false(env))

    # ---- statements of a fn / closure returning Result
    def stmts(self, ss, tail, env, tailk):
        if not ss:
            return tailk(tail, env)
        s, rest = ss[0], ss[1:]
        go = lambda env2: self.stmts(rest, tail, env2, tailk)   # noqa: E731
        if s[0] == "let":
            pat, ty, e, els = s[1], s[2], s[3], s[4]
            if els is not None or e is None:
                raise ParseError("let " + pat)
            e1 = strip_paren(e)
            if e1[0] == "try":
                return self.bind(e1[1], env, pat, ty, go)
            name = re.sub(r"^mut\s+", "", pat)
            if not re.match(r"\w+$", name):
                raise ParseError("let pattern " + pat)
            if e1[0] == "repeat" and show(e1) == "[0; 32]":
                return go(dict(env, **{name: V("", "array32")}))
            if e1[0] == "call" and show(e1[1]) == "Vec::new" and not e1[2]:
                return go(dict(env, **{name: V("[]", "veckeys")}))
            return go(dict(env, **{name: self.pe(e1, env)}))
        e = strip_paren(s[1])
        if e[0] == "try":
            return self.bind(e[1], env, None, None, go)
        if e[0] == "if" and e[3] is None and e[1][0] != "letcond":
            th = e[2]
            if len(th[1]) == 1 and th[2] is None and strip_paren(th[1][0][1])[0] == "return":
                rv = strip_paren(strip_paren(th[1][0][1])[1])
                if rv[0] == "call" and rv[1] == ("path", "Err") and len(rv[2]) == 1:
                    self.site_idx = self.site() if "[" in show(e[1]) else None
                    return self.cond_seq(e[1], env, "Err " + self.err(rv[2][0]), go)
        raise ParseError("statement " + R.show_stmt(s)[:70])


def struct_fields(src):
    out = {}
    for m in re.finditer(r"struct (\w+)(?:<'a>)?\s*\{([^}]*)\}", src):
        fl = {}
        for f in m.group(2).split(","):
            f = f.strip()
            if not f or f.startswith("pub "):
                f = f[4:] if f.startswith("pub ") else f
            if not f:
                continue
            n, t = [x.strip() for x in f.split(":", 1)]
            fl[n] = "derobj" if t.startswith("DerObject") else ("obj:" + re.sub(r"<.*", "", t) if t[0].isupper() else "bytes")
        out[m.group(1)] = fl
    return out


def oid_bytes(txt):
    arcs = [int(x) for x in txt.split(".")]
    if len(arcs) < 2 or arcs[0] > 2:
        raise ParseError("oid " + txt)
    out = [40 * arcs[0] + arcs[1]]
    for a in arcs[2:]:
        chunk = [a & 0x7F]
        a >>= 7
        while a:
            chunk.insert(0, 0x80 | (a & 0x7F))
            a >>= 7
        out += chunk
    return out


def bstr_bytes(lit):
    body = lit[lit.index('"') + 1:-1]
    out, i = [], 0
    while i < len(body):
        if body[i] == "\\":
            if body[i + 1] == "x":
                out.append(int(body[i + 2:i + 4], 16))
                i += 4
            elif body[i + 1] in "nrt0\\\"":
                out.append({"n": 10, "r": 13, "t": 9, "0": 0, "\\": 92, '"': 34}[body[i + 1]])
                i += 2
            else:
                raise ParseError("escape in " + lit)
        else:
            out += list(body[i].encode("utf-8"))
            i += 1
    return out


def coq_list(bs):
    return "[" + "; ".join(str(b) for b in bs) + "]"


def constants(src):
    out, kinds = [], {}
    for m in re.finditer(r"^const (\w+):\s*([^=]+?)\s*=\s*(.+?);\s*$", src, re.M):
        name, ty, val = m.group(1), m.group(2).strip(), m.group(3).strip()
        line = src[:m.start()].count("\n") + 1
        mo = re.match(r"oid!\(([\d.]+)\)$", val)
        if mo and ty.startswith("Oid"):
            out.append("Definition %s : bytes := %s.   (* %s:%d oid!(%s): DER content octets *)" % (name, coq_list(oid_bytes(mo.group(1))), LIB, line, mo.group(1)))
            kinds[name] = "bytes"
        elif ty == "u8" and re.match(r"\d+$", val):
            out.append("Definition %s : N := %s.   (* %s:%d *)" % (name, val, LIB, line))
            kinds[name] = "N"
        elif ty in ("&[u8]", "&str") and re.match(r'b?"', val):
            out.append("Definition %s : bytes := %s.   (* %s:%d *)" % (name, coq_list(bstr_bytes(val)), LIB, line))
            kinds[name] = "bytes"
        else:
            raise ParseError("constant %s: %s = %s" % (name, ty, val))
    return out, kinds


def container_fn(src, tr, fn, struct):
    """fn f(i) -> IResult<..> { parse_der_container(|i: &[u8], hdr| { … Ok((i, S { .. })) })(i) }"""
    r = R.fn_text(src, fn)
    if r is None:
        raise ParseError("fn %s not found" % fn)
    body = R.parse_body(r[0])
    t = strip_paren(body[2]) if body[2] is not None else None
    if body[1] or t is None or t[0] != "call" or len(t[2]) != 1 or show(t[2][0]) != "i":
        raise ParseError("body is not parse_der_container(..)(i)")
    inner = strip_paren(t[1])
    if inner[0] != "call" or show(inner[1]) != "parse_der_container" or len(inner[2]) != 1 or strip_paren(inner[2][0])[0] != "closure":
        raise ParseError("body is not parse_der_container(closure)(i)")
    clo = strip_paren(inner[2][0])
    if nospace(clo[1]) != "i:&[u8],hdr":
        raise ParseError("closure parameters " + clo[1])
    cb = strip_paren(clo[2])
    if cb[0] != "block":
        raise ParseError("closure body")
    env = {"i": V("i", "bytes"), "hdr": V("hdr", "hdr")}

    def tailk(tail, env2):
        tl = strip_paren(tail)
        if not (tl[0] == "call" and tl[1] == ("path", "Ok") and len(tl[2]) == 1 and strip_paren(tl[2][0])[0] == "tuple"):
            raise ParseError("closure result " + show(tl)[:50])
        items = strip_paren(tl[2][0])[1]
        st = strip_paren(items[1])
        if len(items) != 2 or tr.pe(items[0], env2).kind != "bytes" or st[0] != "struct" or st[1] != struct:
            raise ParseError("closure result " + show(tl)[:50])
        fl = tr.structs[struct]
        if [f for f, _ in st[2]] != list(fl):
            raise ParseError("fields of " + struct)
        vals = [tr.pe(v, env2) for _, v in st[2]]
        for v, f in zip(vals, fl):
            if v.kind != fl[f]:
                raise ParseError("field %s: %s" % (f, v.kind))
        return "Ok %s" % (vals[0].text if len(vals) == 1 else "(%s)" % ", ".join(v.text for v in vals))
    g = tr.stmts(list(cb[1]), cb[2], env, tailk)
    return "(* %s:%d fn %s *)\n  Definition %s (i : bytes) :=\n    der_container (fun i hdr =>\n    %s) i." % (LIB, r[1], fn, fn, g)


def der_fn(src, tr, fn, which):
    r = R.fn_text(src, fn)
    if r is None:
        raise ParseError("fn %s not found" % fn)
    body = R.parse_body(r[0])
    env = {"data": V("data", "bytes")}
    tr.sites = []

    def slice_of(e, env2, site):
        e = strip_paren(e)
        if e[0] == "un" and e[1] == "&":
            e = strip_paren(e[2])
        if e[0] == "index" and strip_paren(e[2])[0] == "range":
            rg = strip_paren(e[2])
            a, b = strip_paren(rg[1]), strip_paren(rg[2])
            if a[0] != "int" or b[0] != "int":
                raise ParseError("range " + show(rg))
            return e[1], a[1], b[1]
        raise ParseError("slice " + show(e)[:50])

    def tailk(tail, env2):
        tl = strip_paren(tail)
        if which == "priv":
            # … if oid == ED { key_data.copy_from_slice(&Sha512::digest(&data[a..b])[c..d]); } else if oid == X { key_data.copy_from_slice(&data[a..b]); } else { return Err(e); }  Ok(StaticSecret::from(key_data))
            raise ParseError("unexpected tail")
        if tl[0] != "if":
            raise ParseError("tail of pubkey_der")
        c1, b1, el = tl[1], tl[2], tl[3]
        if el is None or el[0] != "if" or el[3] is None:
            raise ParseError("tail of pubkey_der")
        c2, b2, b3 = el[1], el[2], el[3]
        want1 = ("CompressedEdwardsY::from_slice(&data).ok().and_then(|c| c.decompress())"
                 ".map(|v| PublicKey::from(v.to_montgomery().to_bytes())).ok_or(Curve25519ParserError::InvalidData)")
        want2 = "Ok(PublicKey::from(MontgomeryPoint(data).to_bytes()))"
        if b1[1] or nospace(show(b1[2])) != nospace(want1) or b2[1] or nospace(show(b2[2])) != nospace(want2):
            raise ParseError("conversion of the public key: " + show(b1)[:60])
        d = tr.pe(("path", "data"), env2)
        e3 = strip_paren(b3[2]) if not b3[1] and b3[2] is not None else None
        if e3 is None or e3[0] != "call" or e3[1] != ("path", "Err"):
            raise ParseError("last arm of pubkey_der")
        return ("if %s then\n      match ed_to_mont %s with Some m => Ok m | None => Err EInval end\n    else if %s then Ok %s\n    else Err %s"
                % (tr.pe(c1, env2).text, d.text, tr.pe(c2, env2).text, d.text, tr.err(e3[2][0])))
    ss = list(body[1])
    if which == "priv":
        # the last three statements: the if / else-if chain on the OID and the result
        if len(ss) < 2 or body[2] is None or nospace(show(body[2])) != "Ok(StaticSecret::from(key_data))":
            raise ParseError("tail of privkey_der")
        chain = strip_paren(ss[-1][1])
        ss = ss[:-1]
        if chain[0] != "if" or chain[3] is None or chain[3][0] != "if" or chain[3][3] is None:
            raise ParseError("OID chain of privkey_der")

        def tailp(tail, env2):
            if "key_data" not in env2 or env2["key_data"].kind != "array32":
                raise ParseError("key_data is not [0u8; 32]")
            c1, b1, c2, b2, b3 = chain[1], chain[2], chain[3][1], chain[3][2], chain[3][3]

            def copy_arg(b):
                st = b[1]
                if len(st) != 1 or b[2] is not None:
                    raise ParseError("OID arm")
                e = strip_paren(st[0][1])
                if e[0] != "mcall" or show(e[1]) != "key_data" or e[2] != "copy_from_slice" or len(e[3]) != 1:
                    raise ParseError("OID arm " + show(e)[:50])
                return strip_paren(e[3][0])
            a1 = copy_arg(b1)
            base, c, d = slice_of(a1, env2, None)
            base = strip_paren(base)
            if base[0] != "call" or show(base[1]) != "Sha512::digest" or len(base[2]) != 1 or d - c != 32:
                raise ParseError("Ed25519 arm " + show(a1)[:60])
            src1, a, b = slice_of(base[2][0], env2, None)
            s_ed = tr.site()
            ed = "do k <- slice %s %s %d %d; slice %s (sha512 k) %d %d" % (s_ed, tr.pe(src1, env2).text, a, b, s_ed, c, d)
            a2 = copy_arg(b2)
            src2, a_, b_ = slice_of(a2, env2, None)
            if b_ - a_ != 32:
                raise ParseError("X25519 arm: not 32 octets")
            s_x = tr.site()
            xx = "slice %s %s %d %d" % (s_x, tr.pe(src2, env2).text, a_, b_)
            st3 = b3[1]
            e3 = strip_paren(strip_paren(st3[0][1])[1]) if len(st3) == 1 and strip_paren(st3[0][1])[0] == "return" else None
            if e3 is None or e3[0] != "call" or e3[1] != ("path", "Err"):
                raise ParseError("last arm of privkey_der")
            return "if %s then\n      %s\n    else if %s then %s\n    else Err %s" % (
                tr.pe(c1, env2).text, ed, tr.pe(c2, env2).text, xx, tr.err(e3[2][0]))
        g = tr.stmts(ss, None, env, tailp)
    else:
        g = tr.stmts(ss, body[2], env, tailk)
    sites = "".join(" (%s : N)" % s for s in tr.sites)
    return "(* %s:%d fn %s *)\n  Definition %s%s (data : bytes) : res bytes :=\n    %s." % (LIB, r[1], fn, fn, sites, g), list(tr.sites)


def pem_first_fn(src, tr, fn, der, der_sites):
    r = R.fn_text(src, fn)
    if r is None:
        raise ParseError("fn %s not found" % fn)
    body = R.parse_body(r[0])
    t = strip_paren(body[2]) if body[2] is not None else None
    if body[1] or t is None or t[0] != "if" or t[1][0] != "letcond" or t[3] is None:
        raise ParseError("body is not `if let Ok(x) = pem::parse(data) {..} else {..}`")
    mo = re.match(r"Ok\((\w+)\)$", nospace(t[1][1]))
    if not mo or nospace(show(t[1][2])) != "pem::parse(data)":
        raise ParseError("condition " + show(t[1])[:60])
    env = {"data": V("data", "bytes"), mo.group(1): V(mo.group(1), "pem")}
    sargs = "".join(" " + s for s in der_sites)

    def tailk(tail, env2):
        tl = strip_paren(tail)
        if tl[0] == "call" and tl[1] == ("path", der) and len(tl[2]) == 1:
            return "%s%s %s" % (der, sargs, tr.pe(tl[2][0], env2).text)
        raise ParseError("tail " + show(tl)[:50])
    th = tr.stmts(list(t[2][1]), t[2][2], env, tailk)
    el = tr.stmts(list(t[3][1]), t[3][2], {"data": V("data", "bytes")}, tailk)
    sites = "".join(" (%s : N)" % s for s in der_sites)
    return ("(* %s:%d fn %s *)\n  Definition %s%s (data : bytes) : res bytes :=\n    match pem_parse data with\n    | Ok %s =>\n    %s\n"
            "    | Err _ =>\n    %s\n    | Crash site => Crash site\n    end." % (LIB, r[1], fn, fn, sites, mo.group(1), th, el))


def pem_many_fn(src, tr, der_sites):
    fn = "parse_openssl_25519_pubkeys_pem_many"
    r = R.fn_text(src, fn)
    if r is None:
        raise ParseError("fn %s not found" % fn)
    body = R.parse_body(r[0])
    ss = list(body[1])
    if len(ss) != 2 or ss[0][0] != "let" or nospace(ss[0][1]) != "mutoutput" or show(ss[0][3]) != "Vec::new()" \
            or body[2] is None or nospace(show(body[2])) != "Ok(output)":
        raise ParseError("shape of the body")
    lp = strip_paren(ss[1][1])
    if lp[0] != "for" or lp[1] is not None or not re.match(r"\w+$", lp[2]) or nospace(show(lp[3])) != "pem::parse_many(data)?":
        raise ParseError("loop head")
    x = lp[2]
    env = {x: V(x, "pem"), "output": V("output", "veckeys")}
    lb = lp[4]
    sts = list(lb[1]) + ([("semi", lb[2])] if lb[2] is not None else [])
    if not sts:
        raise ParseError("empty loop")
    last = strip_paren(sts[-1][1])
    sargs = "".join(" " + s for s in der_sites)
    if not (last[0] == "mcall" and show(last[1]) == "output" and last[2] == "push" and len(last[3]) == 1):
        raise ParseError("loop does not end with output.push(..)")
    arg = strip_paren(last[3][0])
    if not (arg[0] == "try" and strip_paren(arg[1])[0] == "call" and show(strip_paren(arg[1])[1]) == "parse_openssl_25519_pubkey_der"):
        raise ParseError("pushed value " + show(arg)[:60])

    def tailk(tail, env2):
        a = tr.pe(strip_paren(arg[1])[2][0], env2)
        return "do k <- parse_openssl_25519_pubkey_der%s %s;\n    parse_openssl_25519_pubkeys_pem_many_loop%s r (output ++ [k])" % (sargs, a.text, sargs)
    inner = tr.stmts(sts[:-1], None, env, tailk)
    sites = "".join(" (%s : N)" % s for s in der_sites)
    return ("(* %s:%d fn %s *)\n  Fixpoint %s_loop%s (ps : list (bytes * bytes)) (output : list bytes) : res (list bytes) :=\n"
            "    match ps with\n    | [] => Ok output\n    | %s :: r =>\n    %s\n    end.\n"
            "  Definition %s%s (data : bytes) : res (list bytes) :=\n    do ps <- pem_parse_many data;\n    %s_loop%s ps []."
            % (LIB, r[1], fn, fn, sites, x, inner, fn, sites, fn, sargs))


def as_pem_fn(src, fn, field, tagc):
    r = R.fn_text(src, fn, 0, r"impl KeyPair\s*\{")
    if r is None:
        raise ParseError("fn %s not found" % fn)
    want = "let out = pem::Pem::new(%s, self.%s.to_vec()); pem::encode(&out)" % (tagc, field)
    if nospace(show(R.parse_body(r[0]))) != nospace("{ " + want + " }"):
        raise ParseError("body of %s: %s" % (fn, show(R.parse_body(r[0]))[:80]))
    return "(* %s:%d fn KeyPair::%s *)\n  Definition %s (%s : bytes) : bytes := pem_encode %s %s." % (LIB, r[1], fn, fn, field, tagc, field)


def keypair_fn(src):
    r = R.fn_text(src, "generate_keypair")
    if r is None:
        raise ParseError("fn generate_keypair not found")
    b = R.parse_body(r[0])
    got = [nospace(R.show_stmt(s)) for s in b[1]] + [nospace(show(b[2]))]
    want = ["let mut private = [0; 32];", "csprng.fill_bytes(&mut private);", "let priv_key = StaticSecret::from(private);",
            "let pubkey = PublicKey::from(&priv_key);", "let public = pubkey.as_bytes();",
            "let mut private_der = [0; PRIV_KEY_PREFIX.len() + 32];", "private_der[..PRIV_KEY_PREFIX.len()].copy_from_slice(PRIV_KEY_PREFIX);",
            "private_der[PRIV_KEY_PREFIX.len()..].copy_from_slice(&private);",
            "let mut public_der = [0; PUB_KEY_PREFIX.len() + 32];", "public_der[..PUB_KEY_PREFIX.len()].copy_from_slice(PUB_KEY_PREFIX);",
            "public_der[PUB_KEY_PREFIX.len()..].copy_from_slice(&public[..]);", "Some(KeyPair { public_der: public_der, private_der: private_der })"]
    if got != [nospace(w) for w in want]:
        bad = [g for g, w in zip(got, want) if g != nospace(w)]
        raise ParseError("generate_keypair statements: %s" % (bad[:1] or [len(got)]))
    m = re.search(r"pub struct KeyPair\s*\{\s*pub public_der:\s*\[u8;\s*PUB_KEY_PREFIX\.len\(\)\s*\+\s*32\],\s*pub private_der:\s*\[u8;\s*PRIV_KEY_PREFIX\.len\(\)\s*\+\s*32\],?\s*\}", src)
    if not m:
        raise ParseError("struct KeyPair")
    return ("(* %s:%d fn generate_keypair: `private` = the 32 octets csprng.fill_bytes stored; result (private_der, public_der):\n"
            "     each array is filled prefix first ([..P.len()]), then the 32 octets ([P.len()..]) *)\n"
            "  Definition generate_keypair (private : bytes) : bytes * bytes :=\n"
            "    let public := x25519_base private in\n"
            "    (PRIV_KEY_PREFIX ++ private, PUB_KEY_PREFIX ++ public)." % (LIB, r[1]))


def strip_tests(src):
    i = src.find("#[cfg(test)]\nmod tests")
    return src if i < 0 else src[:i]


def generate(repo):
    with open(os.path.join(repo, LIB), encoding="utf-8") as f:
        src = strip_tests(f.read())
    out = ["(* GENERATED by tools/src2v3_keys.py from %s — do not edit. *)" % repo,
           "From MLA Require Import Base.", "From MLA Require Keys.",
           "Import Keys.  (* the re-modelled dependency functions: see the trusted primitive table in tools/src2v3_keys.py *)",
           "Open Scope N_scope.", "", "Module K.   (* the constants of the source, under their own names *)"]
    try:
        cl, kinds = constants(src)
        out += cl
    except Exception as e:
        out += ["End K.", "(* constants: %s *)" % cmt(e), "Definition keys_constants_untranslatable : unit := tt."]
        return "\n".join(out) + "\n"
    out += ["End K.", "", "Section KeysSrc.", "  Import K.",
            "  Variable sha512 : bytes -> bytes.", "  Variable ed_to_mont : bytes -> option bytes.", "  Variable x25519_base : bytes -> bytes.", ""]
    structs = struct_fields(src)
    localfns = {}
    tr = Tr(structs, kinds, localfns)
    der_sites = {"parse_openssl_25519_privkey_der": None, "parse_openssl_25519_pubkey_der": None}

    def item(name, f):
        try:
            out.append("  " + f())
            return True
        except Exception as e:
            out.append("  (* %s: %s *)\n  Definition %s_untranslatable : unit := tt." % (name, cmt(e), name))
            return False
    for fn, st in (("parse_25519_private_header", "Der25519PrivateHeader"), ("parse_25519_private", "Der25519PrivateStruct"),
                   ("parse_25519_public_header", "DerEd25519PublicHeader"), ("parse_25519_public", "DerEd25519PublicStruct")):
        if item(fn, lambda fn=fn, st=st: container_fn(src, tr, fn, st)):
            localfns[fn] = "pair:obj:" + st
    for fn, which in (("parse_openssl_25519_privkey_der", "priv"), ("parse_openssl_25519_pubkey_der", "pub")):
        def f(fn=fn, which=which):
            t, sites = der_fn(src, tr, fn, which)
            der_sites[fn] = sites
            return t
        item(fn, f)
    for fn, der in (("parse_openssl_25519_pubkey", "parse_openssl_25519_pubkey_der"), ("parse_openssl_25519_privkey", "parse_openssl_25519_privkey_der")):
        def g(fn=fn, der=der):
            if der_sites[der] is None:
                raise ParseError(der + " was not translated")
            return pem_first_fn(src, tr, fn, der, der_sites[der])
        item(fn, g)

    def h():
        if der_sites["parse_openssl_25519_pubkey_der"] is None:
            raise ParseError("parse_openssl_25519_pubkey_der was not translated")
        return pem_many_fn(src, tr, der_sites["parse_openssl_25519_pubkey_der"])
    item("parse_openssl_25519_pubkeys_pem_many", h)
    item("public_as_pem", lambda: as_pem_fn(src, "public_as_pem", "public_der", "PUB_KEY_TAG"))
    item("private_as_pem", lambda: as_pem_fn(src, "private_as_pem", "private_der", "PRIV_KEY_TAG"))
    item("generate_keypair", lambda: keypair_fn(src))
    out.append("End KeysSrc.")
    return "\n".join(out) + "\n"


def main(repo=None, outp=None):
    repo = repo or os.environ.get("VERIF_REPO", "/repo")
    outp = outp or os.environ.get("VERIF_SRC3K_OUT") or os.path.join(HERE, "..", "coq", "gen", "Src3k.v")
    try:
        text = generate(repo)
    except Exception as e:  # fail closed as a whole
        text = "(* GENERATED: tools/src2v3_keys.py failed: %s *)\nDefinition src3k_untranslatable : unit := tt.\n" % cmt(e)
    outp = os.path.normpath(outp)
    old = None
    if os.path.exists(outp):
        with open(outp) as f:
            old = f.read()
    if old != text:
        with open(outp, "w") as f:
            f.write(text)
        print("src2v3_keys: wrote", outp)
    else:
        print("src2v3_keys: unchanged", outp)


if __name__ == "__main__":
    main()
