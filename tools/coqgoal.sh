#!/bin/bash
# usage: coqgoal.sh <file.v> <line>  -- compile the file up to (excluding) <line>, print the goal there
f=$1; n=$2
tmp=$(mktemp /tmp/goalXXXX.v)
head -n $((n-1)) "$f" > $tmp
echo "Show. " >> $tmp
cd /verif/coq && timeout 120 coqtop -Q theories MLA -Q gen MLAGen -batch -l $tmp 2>&1 | tail -${3:-60}
rm -f $tmp
