#!/usr/bin/env python3
"""Tie A, level 1 for the BLOCK PARSER (work package blockT): regenerate coq/gen/Src3b.v.

Translated statement by statement from /repo/mla/src/lib.rs (parser: tools/rustmini.py) into Gallina
over an abstract `Stream` (Stream.v: st, rd), exactly as theories/Blocks.v takes it:

  enum ArchiveFileBlockType (#[repr(u8)], variants in source order)  -> Inductive ArchiveFileBlockType
  impl TryFrom<u8> for ArchiveFileBlockType { fn try_from }          -> ArchiveFileBlockType_try_from
  impl<T> ArchiveFileBlock<T> { fn from }                            -> ArchiveFileBlock_from

theories/SrcTie3Block.v proves `block_from_src`: the generated ArchiveFileBlock_from IS Blocks.parse_block
for EVERY stream and state (same value, same stream state, same errors).  The other level-1 translators
(src2v3_reader.py, src2v3_linear.py; src2v3_repair.py through its `block_from` parameter) call THIS
function where the source says `ArchiveFileBlock::from(..)`, so the block parser is no longer a trusted link.

Trusted mapping of primitives (the same conventions as the hand-written model):
  src.read_u8()?  (byteorder: read_exact into [u8; 1], buf[0]) ->  Blocks.rexact S src 1, the single byte
       (a stream whose successful read_exact(1) holds another number of bytes is outside Rust's
        semantics; Stream.read_exact cannot produce one (SrcTie3Block.rexact_ok_len); the arm is labelled
        `Crash site_u8` as the model's 636)
  src.read_u64::<LittleEndian>()?               ->  Blocks.rexact S src 8, then le_val
  vec![0u8; n] / [u8; N]::default() + src.read_exact(&mut buf)?   ->  Blocks.rexact S src n (the bytes)
  Vec::new() + src.by_ref().take(n).read_to_end(&mut v)?          ->  Stream.read_full S (n+1 reads) src n, appended
  usize::try_from(u64).map_err(..)?             ->  identity (64-bit targets)
  String::from_utf8(v)?                         ->  Blocks.utf8_valid v (std's UTF-8 validation = the RFC 3629
                                                    validator of Blocks.v), failure = Err EUtf8
                                                    (From<FromUtf8Error> for Error, checked to exist)
  `?` on io::Error                              ->  the error passes unchanged (From<io::Error> for Error)
  `X as u8` on a variant of the #[repr(u8)] enum ->  the section variable BT_<variant> (values: gen/Src.v BT_*,
                                                    also emitted here as BT_<variant>_src)
  u64 comparison operators                      ->  N.ltb / N.leb / N.eqb
  Self::V { f: e, .. } (fields evaluated in source order)  ->  Blocks.pblock constructor (data must be None)

FAILS CLOSED per item: anything not recognised -> `Definition <name>_untranslatable : unit := tt.`
"""
import os
import re
import sys

sys.path.insert(0, os.path.dirname(os.path.abspath(__file__)))
import rustmini as R  # noqa: E402
from rustmini import ParseError, strip_paren, show  # noqa: E402

REPO = os.environ.get("VERIF_REPO", "/repo")
OUT = os.environ.get("VERIF_SRC3B_OUT") or os.path.join(os.path.dirname(os.path.abspath(__file__)), "..", "coq", "gen", "Src3b.v")

ERR_NAMES = {"Error::FilenameTooLong": "ENameTooLong", "Error::WrongBlockSubFileType": "EBlockType",
             "Error::WrongReaderState": "EState", "Error::DeserializationError": "EDeser"}
# variant of ArchiveFileBlock -> (pblock constructor, its arguments in order, fields that must be `None`)
BLOCK_CONS = {"FileStart": ("PStart", ["id", "filename"], []), "FileContent": ("PContent", ["id", "length"], ["data"]),
              "EndOfFile": ("PEof", ["id", "hash"], []), "EndOfArchiveData": ("PEnd", [], [])}
BLOCK_FIELD_KINDS = {"id": "N", "length": "N", "filename": "bytes", "hash": "bytes"}
# the declaration these constructors stand for (checked against the source)
BLOCK_DECL = {"FileStart": [("filename", "String"), ("id", "ArchiveFileID")],
              "FileContent": [("length", "u64"), ("data", "Option<T>"), ("id", "ArchiveFileID")],
              "EndOfFile": [("id", "ArchiveFileID"), ("hash", "Sha256Hash")], "EndOfArchiveData": []}


def read_file(rel):
    with open(os.path.join(REPO, rel), encoding="utf-8") as f:
        return f.read()


def strip_tests(src):
    i = src.find("#[cfg(test)]\nmod tests")
    if i < 0:
        i = src.find("#[cfg(test)]\npub(crate) mod tests")
    return src if i < 0 else src[:i]


class V:
    def __init__(self, text, kind):
        self.text, self.kind = text, kind   # kinds: N, bytes, buf (text = its length), stream, btype, bool


class Tr:
    def __init__(self, variants, hash_len):
        self.n = 0
        self.variants = variants
        self.hash_len = hash_len

    def fresh(self, base):
        self.n += 1
        return "%s%d" % (re.sub(r"\W", "", base) or "v", self.n)

    # ---------------------------------------------------------------- pure expressions
    def pe(self, e, c):
        e = strip_paren(e)
        k = e[0]
        if k == "int":
            return V(str(e[1]), "N")
        if k == "un" and e[1] in ("&", "&mut", "*"):
            return self.pe(e[2], c)
        if k == "path":
            if e[1] in c["locals"]:
                return c["locals"][e[1]]
            if e[1] == "FILENAME_MAX_SIZE":
                return V("FILENAME_MAX_SIZE", "N")
            raise ParseError("unknown name " + e[1])
        if k == "cast" and e[2] in ("u64", "usize"):
            v = self.pe(e[1], c)
            if v.kind != "N":
                raise ParseError("cast of " + show(e[1]))
            return v
        if k == "bin":
            op = e[1]
            a, b = self.pe(e[2], c), self.pe(e[3], c)
            if a.kind != "N" or b.kind != "N":
                raise ParseError("comparison of non-numbers " + show(e)[:60])
            tbl = {"==": "(%s =? %s)", "!=": "(negb (%s =? %s))", "<": "(%s <? %s)", "<=": "(%s <=? %s)"}
            if op == ">":
                return V("(%s <? %s)" % (b.text, a.text), "bool")
            if op == ">=":
                return V("(%s <=? %s)" % (b.text, a.text), "bool")
            if op in tbl:
                return V(tbl[op] % (a.text, b.text), "bool")
        raise ParseError("expression " + show(e)[:70])

    # ---------------------------------------------------------------- exits
    def fail(self, c, what):
        return "(%s, %s)" % (c["locals"][c["src"]].text, what)

    def err_of(self, e):
        e = strip_paren(e)
        if e[0] == "path" and e[1] in ERR_NAMES:
            return ERR_NAMES[e[1]]
        raise ParseError("error value " + show(e)[:60])

    def is_src(self, e, c):
        e = strip_paren(e)
        while True:
            if e[0] == "un" and e[1] in ("&", "&mut", "*"):
                e = strip_paren(e[2])
            elif e[0] == "mcall" and e[2] == "by_ref" and not e[3]:
                e = strip_paren(e[1])
            else:
                break
        return e == ("path", c["src"])

    def stream_op(self, op_text, c, k, vbase, vkind):
        s1, v1 = self.fresh("s"), self.fresh(vbase)
        c2 = dict(c, locals=dict(c["locals"]))
        c2["locals"][c["src"]] = V(s1, "stream")
        body = k(V(v1, vkind), c2)
        return ("match %s with\n    | (%s, Ok %s) =>\n    %s\n    | (%s, Err e) => (%s, Err e)\n    | (%s, Crash x) => (%s, Crash x)\n    end"
                % (op_text, s1, v1, body, s1, s1, s1, s1))

    # ---------------------------------------------------------------- values with effects (CPS)
    def val(self, e, c, k):
        e = strip_paren(e)
        if e[0] == "try":
            return self.try_val(strip_paren(e[1]), c, k)
        if e[0] == "macro" and e[1] == "vec" and e[3] is not None and len(e[3]) == 2 and ";" in e[2]:
            z = strip_paren(e[3][0])
            if z[0] != "int" or z[1] != 0:
                raise ParseError("vec! fill " + show(z))
            return self.val(e[3][1], c, lambda n, c2: k(self.buf_of(n), c2))
        if e[0] == "call" and e[1] == ("path", "Sha256Hash::default") and not e[2]:
            return k(V(str(self.hash_len), "buf"), c)
        if e[0] == "call" and e[1] == ("path", "Vec::new") and not e[2]:
            return k(V("[]", "bytes"), c)
        return k(self.pe(e, c), c)

    def buf_of(self, n):
        if n.kind != "N":
            raise ParseError("buffer length")
        return V(n.text, "buf")

    def try_val(self, x, c, k):
        src = lambda cc: cc["locals"][cc["src"]].text  # noqa: E731
        if x[0] == "mcall":
            recv, m, args = x[1], x[2], x[3]
            if self.is_src(recv, c):
                if m == "read_u8" and not args:
                    return self.stream_op("read_u8 %s" % src(c), c, k, "b", "N")
                if m == "read_u64::<LittleEndian>" and not args:
                    return self.stream_op("rexact S %s 8" % src(c), c, lambda v, c2: k(V("(le_val %s)" % v.text, "N"), c2), "d", "bytes")
                if m == "read_u32::<LittleEndian>" and not args:
                    return self.stream_op("rexact S %s 4" % src(c), c, lambda v, c2: k(V("(le_val %s)" % v.text, "N"), c2), "d", "bytes")
                if m == "read_exact" and len(args) == 1:
                    a = strip_paren(args[0])
                    if not (a[0] == "un" and a[1] == "&mut" and strip_paren(a[2])[0] == "path"):
                        raise ParseError("read_exact argument " + show(a))
                    name = strip_paren(a[2])[1]
                    b = c["locals"].get(name)
                    if b is None or b.kind != "buf":
                        raise ParseError("read_exact into " + name)

                    def k1(v, c2):
                        c2["locals"][name] = V(v.text, "bytes")
                        return k(V("tt", "unit"), c2)
                    return self.stream_op("rexact S %s %s" % (src(c), b.text), c, k1, "d", "bytes")
            r0 = strip_paren(recv)
            # <src>.take(n).read_to_end(&mut v)?
            if m == "read_to_end" and len(args) == 1 and r0[0] == "mcall" and r0[2] == "take" and len(r0[3]) == 1 and self.is_src(r0[1], c):
                a = strip_paren(args[0])
                if not (a[0] == "un" and a[1] == "&mut" and strip_paren(a[2])[0] == "path"):
                    raise ParseError("read_to_end argument " + show(a))
                name = strip_paren(a[2])[1]
                b = c["locals"].get(name)
                if b is None or b.kind != "bytes":
                    raise ParseError("read_to_end into " + name)
                n = self.pe(r0[3][0], c)
                if n.kind != "N":
                    raise ParseError("take argument")

                def k2(v, c2):
                    c2["locals"][name] = V("(%s ++ %s)" % (b.text, v.text), "bytes")
                    return k(V("(len %s)" % v.text, "N"), c2)
                return self.stream_op("read_full S (Datatypes.S (N.to_nat %s)) %s %s" % (n.text, src(c), n.text), c, k2, "d", "bytes")
            if m == "map_err" and len(args) == 1 and r0[0] == "call" and r0[1] == ("path", "usize::try_from") and len(r0[2]) == 1:
                v = self.pe(r0[2][0], c)
                if v.kind != "N":
                    raise ParseError("usize::try_from of a non-number")
                return k(v, c)
        if x[0] == "call" and x[1][0] == "path":
            fn, args = x[1][1], x[2]
            if fn == "ArchiveFileBlockType::try_from" and len(args) == 1:
                v = self.pe(args[0], c)
                if v.kind != "N":
                    raise ParseError("try_from argument")
                t1 = self.fresh("t")
                return ("match ArchiveFileBlockType_try_from %s with\n    | Ok %s =>\n    %s\n    | Err e => %s\n    | Crash x => %s\n    end"
                        % (v.text, t1, k(V(t1, "btype"), c), self.fail(c, "Err e"), self.fail(c, "Crash x")))
            if fn == "String::from_utf8" and len(args) == 1:
                v = self.pe(args[0], c)
                if v.kind != "bytes":
                    raise ParseError("from_utf8 argument")
                return "if utf8_valid %s then\n    %s\n    else %s" % (v.text, k(V(v.text, "bytes"), c), self.fail(c, "Err EUtf8"))
        raise ParseError("`?` on " + show(x)[:70])

    # ---------------------------------------------------------------- statements
    def stmts(self, stmts, tail, c):
        if not stmts:
            if tail is None:
                raise ParseError("block without a value")
            return self.tail(tail, c)
        s, rest = stmts[0], stmts[1:]
        if s[0] == "let":
            name = s[1][4:] if s[1].startswith("mut ") else s[1]
            if not re.fullmatch(r"[a-z_][a-z0-9_]*", name) or s[3] is None or s[4] is not None:
                raise ParseError("let " + s[1])

            def k(v, c2):
                c3 = dict(c2, locals=dict(c2["locals"]))
                if v.kind == "N" and not re.fullmatch(r"\w+", v.text):
                    g = self.fresh(name)
                    c3["locals"][name] = V(g, "N")
                    return "let %s := %s in\n    %s" % (g, v.text, self.stmts(rest, tail, c3))
                c3["locals"][name] = v
                return self.stmts(rest, tail, c3)
            return self.val(s[3], c, k)
        if s[0] in ("semi", "expr"):
            e = strip_paren(s[1])
            if e[0] == "if" and e[3] is None:
                cond = self.pe(e[1], c)
                if cond.kind != "bool":
                    raise ParseError("condition " + show(e[1]))
                blk = e[2]
                if not (len(blk[1]) == 1 and blk[2] is None and blk[1][0][0] == "semi" and strip_paren(blk[1][0][1])[0] == "return"):
                    raise ParseError("if body " + show(blk)[:60])
                return "if %s then\n    %s\n    else\n    %s" % (cond.text, self.ret(strip_paren(blk[1][0][1])[1], c), self.stmts(rest, tail, c))
            if e[0] == "try":
                return self.val(e, c, lambda v, c2: self.stmts(rest, tail, c2))
        raise ParseError("statement " + R.show_stmt(s)[:70])

    def ret(self, e, c):
        """`return e` / a tail expression of type Result<Self, Error>"""
        e = strip_paren(e)
        if e[0] == "call" and e[1] == ("path", "Err") and len(e[2]) == 1:
            return self.fail(c, "Err " + self.err_of(e[2][0]))
        if e[0] == "call" and e[1] == ("path", "Ok") and len(e[2]) == 1:
            return self.block_lit(strip_paren(e[2][0]), c)
        raise ParseError("result " + show(e)[:60])

    def block_lit(self, e, c):
        if e[0] == "path" and e[1].startswith("Self::"):
            var, fields = e[1][6:], []
        elif e[0] == "struct" and e[1].startswith("Self::"):
            var, fields = e[1][6:], list(e[2])
        else:
            raise ParseError("block literal " + show(e)[:60])
        if var not in BLOCK_CONS:
            raise ParseError("variant " + var)
        con, order, nones = BLOCK_CONS[var]
        if sorted(f for f, _ in fields) != sorted(order + nones):
            raise ParseError("fields of " + var)

        def go(items, got, c1):     # fields evaluated in SOURCE order
            if not items:
                return "(%s, Ok %s)" % (c1["locals"][c1["src"]].text,
                                        "(%s %s)" % (con, " ".join(got[f] for f in order)) if order else con)
            f, fe = items[0]
            if f in nones:
                if strip_paren(fe) != ("path", "None"):
                    raise ParseError("field %s is not None" % f)
                return go(items[1:], got, c1)

            def k(v, c2):
                if v.kind != BLOCK_FIELD_KINDS[f]:
                    raise ParseError("field %s has kind %s" % (f, v.kind))
                return go(items[1:], dict(got, **{f: v.text}), c2)
            return self.val(fe, c1, k)
        return go(fields, {}, c)

    def tail(self, e, c):
        e = strip_paren(e)
        if e[0] == "match":
            return self.val(e[1], c, lambda v, c2: self.match_btype(v, e[2], c2))
        if e[0] == "block":
            return self.stmts(list(e[1]), e[2], c)
        return self.ret(e, c)

    def match_btype(self, v, arms, c):
        if v.kind != "btype":
            raise ParseError("match on a " + v.kind)
        out = []
        for pat, guard, body in arms:
            if guard is not None:
                raise ParseError("guarded arm")
            if pat == "_":
                p = "_"
            elif pat.startswith("ArchiveFileBlockType::") and pat[22:] in self.variants:
                p = pat[22:]
            else:
                raise ParseError("pattern " + pat)
            out.append("| %s =>\n    %s" % (p, self.tail(body, c)))
        return "match %s with\n    %s\n    end" % (v.text, "\n    ".join(out))


def enum_decl(lib):
    m = re.search(r"#\[repr\(u8\)\]\s*enum ArchiveFileBlockType \{", lib)
    if not m:
        raise ParseError("enum ArchiveFileBlockType (#[repr(u8)]) not found")
    i = lib.index("{", m.start())
    body = R.strip_comments(lib[i + 1:R.match_brace(lib, i)])
    vs = []
    for part in body.split(","):
        part = part.strip()
        if not part:
            continue
        mm = re.fullmatch(r"([A-Za-z]+)\s*=\s*(0x[0-9A-Fa-f]+|\d+)", part)
        if not mm:
            raise ParseError("enum variant " + part)
        vs.append((mm.group(1), int(mm.group(2), 0)))
    if any(not 0 <= v < 256 for _, v in vs):
        raise ParseError("discriminant out of u8")
    return vs, lib[:m.start()].count("\n") + 1


def block_enum_check(lib):
    """the declaration of enum ArchiveFileBlock<T> is the one BLOCK_CONS stands for"""
    m = re.search(r"pub enum ArchiveFileBlock<T: Read> \{", lib)
    if not m:
        raise ParseError("enum ArchiveFileBlock not found")
    i = lib.index("{", m.start())
    body = R.strip_comments(lib[i + 1:R.match_brace(lib, i)])
    got = {}
    for mm in re.finditer(r"([A-Z][A-Za-z]+)\s*(\{([^}]*)\})?\s*,", body):
        fs = []
        for f in (mm.group(3) or "").split(","):
            f = f.strip()
            if f:
                n, t = f.split(":", 1)
                fs.append((n.strip(), re.sub(r"\s", "", t)))
        got[mm.group(1)] = fs
    if got != BLOCK_DECL:
        raise ParseError("enum ArchiveFileBlock changed: %s" % got)


def try_from_item(lib, variants):
    r = R.fn_text(lib, "try_from", 0, r"impl TryFrom<u8> for ArchiveFileBlockType \{")
    if r is None:
        raise ParseError("fn try_from not found")
    if re.sub(r"\s+", " ", r[2]).strip() != "fn try_from(value: u8) -> Result<Self, Self::Error>":
        raise ParseError("signature of try_from changed: " + r[2])
    b = R.parse_body(r[0])
    if b[1] or b[2] is None:
        raise ParseError("try_from body")

    def var_of(e):
        e = strip_paren(e)
        if e[0] == "path" and e[1].startswith("Self::") and e[1][6:] in variants:
            return e[1][6:]
        raise ParseError("variant " + show(e))

    def go(e):
        e = strip_paren(e)
        if e[0] == "block" and not e[1] and e[2] is not None:
            return go(e[2])
        if e[0] == "if" and e[3] is not None:
            cnd = strip_paren(e[1])
            if not (cnd[0] == "bin" and cnd[1] == "==" and strip_paren(cnd[2]) == ("path", "value")
                    and strip_paren(cnd[3])[0] == "cast" and strip_paren(cnd[3])[2] == "u8"):
                raise ParseError("try_from condition " + show(cnd))
            return "if value =? ArchiveFileBlockType_as_u8 %s then %s else\n    %s" % (var_of(strip_paren(cnd[3])[1]), go(e[2]), go(e[3]))
        if e[0] == "call" and e[1] == ("path", "Ok") and len(e[2]) == 1:
            return "Ok " + var_of(e[2][0])
        if e[0] == "call" and e[1] == ("path", "Err") and len(e[2]) == 1:
            x = strip_paren(e[2][0])
            if x[0] == "path" and x[1] in ERR_NAMES:
                return "Err " + ERR_NAMES[x[1]]
        raise ParseError("try_from: " + show(e)[:60])
    return "(* mla/src/lib.rs:%d TryFrom<u8> for ArchiveFileBlockType *)\n  Definition ArchiveFileBlockType_try_from (value : N) : res ArchiveFileBlockType :=\n    %s." % (r[1], go(b[2]))


def from_item(lib, variants, hash_len):
    r = R.fn_text(lib, "from", 0, r"impl<T>\s+ArchiveFileBlock<T>")
    if r is None:
        raise ParseError("fn from not found")
    if re.sub(r"\s+", " ", r[2]).strip() != "fn from(src: &mut T) -> Result<Self, Error>":
        raise ParseError("signature of from changed: " + r[2])
    if not re.search(r"impl From<std::string::FromUtf8Error> for Error \{\s*fn from\(error: std::string::FromUtf8Error\) -> Self \{\s*Self::UTF8ConversionError\(error\)",
                     read_file("mla/src/errors.rs")):
        raise ParseError("From<FromUtf8Error> for Error changed")
    b = R.parse_body(r[0])
    tr = Tr(variants, hash_len)
    c = {"src": "src", "locals": {"src": V("src", "stream")}}
    g = tr.stmts(list(b[1]), b[2], c)
    return "(* mla/src/lib.rs:%d fn ArchiveFileBlock::from *)\n  Definition ArchiveFileBlock_from (src : st S) : st S * res pblock :=\n    %s." % (r[1], g)


def generate():
    out = ["(* GENERATED by tools/src2v3_block.py from %s — do not edit. *)" % REPO,
           "From MLA Require Import Base Stream Blocks.", "Open Scope N_scope.", ""]
    lib = strip_tests(read_file("mla/src/lib.rs"))
    try:
        vs, line = enum_decl(lib)
        block_enum_check(lib)
        m = re.search(r"pub\(crate\) type Sha256Hash = \[u8; (\d+)\];", read_file("mla/src/crypto/hash.rs"))
        if not m:
            raise ParseError("type Sha256Hash not found")
        hash_len = int(m.group(1))
        fn = dict(re.findall(r"#\[cfg\((not\(feature = \"mla_verif\"\)|feature = \"mla_verif\")\)\]\s*const FILENAME_MAX_SIZE: u64 = (\d+);", lib))
        if len(fn) != 2:
            raise ParseError("FILENAME_MAX_SIZE (two cfg arms) not found")
    except Exception as e:
        out.append("(* block data: %s *)" % str(e).replace("*)", "* )"))
        out.append("Definition block_data_untranslatable : unit := tt.")
        return "\n".join(out) + "\n"
    names = [v for v, _ in vs]
    out.append("(* mla/src/lib.rs:%d #[repr(u8)] enum ArchiveFileBlockType, variants in source order; discriminants *)" % line)
    out.append("Inductive ArchiveFileBlockType := %s." % " | ".join(names))
    for v, d in vs:
        out.append("Definition BT_%s_src : N := %d." % (v, d))
    out.append("Definition FILENAME_MAX_SIZE_prod_src : N := %s." % fn['not(feature = "mla_verif")'])
    out.append("Definition FILENAME_MAX_SIZE_verif_src : N := %s." % fn['feature = "mla_verif"'])
    out.append("Definition SHA256_HASH_LEN_src : N := %d.   (* mla/src/crypto/hash.rs type Sha256Hash = [u8; %d] *)" % (hash_len, hash_len))
    out.append("")
    out.append("Section BlockSrc.")
    out.append("  Variable S : Stream.")
    out.append("  Variables FILENAME_MAX_SIZE %s : N." % " ".join("BT_" + v for v in names))
    out.append("  (* label of the arm `read_exact(1) delivered another number of bytes` (a convention of the model) *)")
    out.append("  Variable site_u8 : N.")
    out.append("  (* `Self::X as u8` *)")
    out.append("  Definition ArchiveFileBlockType_as_u8 (t : ArchiveFileBlockType) : N :=\n    match t with %s end." % " | ".join("%s => BT_%s" % (v, v) for v in names))
    out.append("  (* byteorder ReadBytesExt::read_u8: read_exact into [u8; 1], then buf[0] *)")
    out.append("  Definition read_u8 (src : st S) : st S * res N :=\n    match rexact S src 1 with\n    | (s, Ok d) => match d with [b] => (s, Ok b) | _ => (s, Crash site_u8) end\n"
               "    | (s, Err e) => (s, Err e)\n    | (s, Crash x) => (s, Crash x)\n    end.")
    for name, f in (("ArchiveFileBlockType_try_from", lambda: try_from_item(lib, names)),
                    ("ArchiveFileBlock_from", lambda: from_item(lib, names, hash_len))):
        try:
            out.append("  " + f())
        except Exception as e:  # fail closed, per item
            out.append("  (* %s: %s *)" % (name, str(e).replace("*)", "* )")))
            out.append("  Definition %s_untranslatable : unit := tt." % name)
    out.append("End BlockSrc.")
    return "\n".join(out) + "\n"


def main():
    try:
        text = generate()
    except Exception as e:  # fail closed as a whole
        text = "(* GENERATED: tools/src2v3_block.py failed: %s *)\nDefinition src3b_untranslatable : unit := tt.\n" % str(e).replace("*)", "* )")
    outp = os.path.normpath(OUT)
    old = None
    if os.path.exists(outp):
        with open(outp) as f:
            old = f.read()
    if old != text:
        os.makedirs(os.path.dirname(outp), exist_ok=True)
        with open(outp, "w") as f:
            f.write(text)
        print("src2v3_block: wrote", outp)
    else:
        print("src2v3_block: unchanged", outp)


if __name__ == "__main__":
    main()
