CFG = {
    "jobs": lambda tier: [
        J("scaled", "witness --only C06"),
        J("prod", "witness --only C06"),
        J("prod", "c06", imports="Base Stream Inst Run RunC06", shard=24, timeout=3000),
        J("scaled", "c06", imports="Base Stream Inst Run RunC06", shard=6, timeout=3000),
        # work package wrows: AesGcm256::decrypt / decrypt_unauthenticated (any call sequence on one object) vs Gcm.v
        J("prod", "c06-gcmdec", imports="Base Stream Inst Run RunWRows", shard=20),
    ],
    "run_modules": ["RunC06", "RunWRows"],
    "rule": "(a) library -> independent decoder: generated writing plans (1-4 files, 0-7 interleaved pieces of boundary sizes, 4 layer combinations, "
            "levels {0,1,5,9,11}, 1-3 recipients, any recipient's key), production constants (incl. sizes crossing 128 KiB chunk edges and one 4 MiB block "
            "edge) and scaled constants (CHUNK 64, BLOCK 256); (b) independent encoder -> library on the same plan distribution (random ephemeral scalar, key, "
            "nonce, footer order, brotli quality), plus archives with zero-length FileContent blocks (all layer combinations, and crafted layer-less ones - empty blocks "
            "first, last, in a row, alone in a run between blocks of other files, in files with nothing else, 40 in a row - whose whole reading history, single "
            "reads / read to end / linear extraction, is compared with the reader model, hist_plain); (c) samples/archive_v1.mla; (d) AES-GCM core: EVERY split "
            "into two pieces of messages of length 0..40 (quick: lengths divisible by 3 and 15-17, 31-33; thorough: all) and random multi-piece splits with empty "
            "pieces, fresh random key/nonce/aad per length; model comparison: scaled archives below 2600 bytes through Format.decode (brotli as a table, X25519 "
            "in Coq for the first encrypted ones, as an oracle input otherwise), a sample of the splits through the Gcm.v model; non-trivial = at least one "
            "content byte (archives) / every cipher case; distinct = distinct (plan or tuple)",
    "exhaustive": {"quick": False, "thorough": False},
    "explanation": "theorems: incremental AES-GCM = one-shot GCM for any block cipher, any GF product and every split incl. empty pieces; decrypt returns the "
                   "message and the one-shot tag; the FORMAT.md codec of Format.v round-trips (header, ECIES key wrap, chunked AES-GCM, block stream and index) "
                   "and reads what the writer model writes; Tie A: chunk/block/tag/nonce sizes, magic, version, layer bits and ORDER, block tags, HKDF info/hash/"
                   "salt, ECIES nonce, nonce construction (prefix . BE32 counter) and counter start/step, struct field orders and bincode fixint are re-translated "
                   "from /repo and proved equal to Format.v's; oracle: an independent implementation of FORMAT.md in the harness (aes-gcm, hkdf, sha2, "
                   "x25519-dalek, brotli crates) decodes every library archive to exactly the files written, and the library reads every archive it encodes "
                   "identically; correspondence: Format.decode (concrete AES/GHASH/HKDF/SHA-256/X25519 in Coq) yields the same rows as the real ArchiveReader",
    "assumptions": ["brotli (RFC 7932) itself is not modelled: compressed blocks enter the model as a per-case table produced with the brotli crate called directly",
                    "X25519: computed in Coq (Concrete/X25519.v, RFC 7748 vectors) for the first encrypted model cases of a run, oracle mode for X25519 "
                    "(shared secret computed with x25519-dalek by the harness) for the others; commutativity of D-H is curve mathematics, a hypothesis of the round-trip theorem",
                    "fewer than 2^32 chunks per archive (u32 chunk counter)"],
    "trusted_base": ["RustCrypto aes-gcm / hkdf / sha2, x25519-dalek, brotli crates as independent oracles",
                     "Concrete/{Aes,Ghash,GcmSpec,Sha256,Hmac,Hkdf,X25519}.v specification-level primitives validated by the standards' vectors"],
}

# work package wrows
CFG["rule"] += ("; c06-gcmdec: per message length (quick: 0,1,2,15,16,17,20,31,32,33,40; thorough: 0..40), fresh random key/nonce/aad: decrypt in one call with the "
                "standard tag, with an altered tag or ciphertext bit (2 / 4 variants), decrypt_unauthenticated and decrypt called twice on one object for the splits "
                "(quick: every fifth, the block edges and the end; thorough: all), plus 50 (quick) / 300 (thorough) random sequences of 1-5 mixed encrypt / decrypt / "
                "decrypt-with-expected-tag / decrypt_unauthenticated calls of 0..64 bytes on one object followed by into_tag")
CFG["explanation"] += (" || wrows: job c06-gcmdec gives AesGcm256::decrypt and decrypt_unauthenticated direct rows: every call's buffer afterwards, the tag decrypt returns, "
                       "the ConstantTimeEq comparison with the expected tag and the final into_tag of the real object equal Gcm.gcm_decrypt / gcm_decrypt_unauth / "
                       "gcm_encrypt_piece / gcm_into_tag threaded through ONE gstate (concrete AES-256 / GF(2^128)), for every call sequence incl. repeated decrypt calls "
                       "(which are not a GCM operation: model rows only); oracle where GCM defines the answer: one-call decrypt returns the message and the aes-gcm tag, "
                       "altered tag / ciphertext compare unequal (aes-gcm rejects them too), decrypt_unauthenticated in pieces returns the message")
