CFG = {
    "jobs": lambda tier: [
        J("scaled", "c02-comp --aspect C13", imports="Base Stream Inst Run RunFsComp", shard=20),
        J("scaled", "witness --only C13"),
        J("scaled", "c13", imports="Base Stream Inst Run RunC13"),
        # work package wrows: PositionLayerWriter + write_all over a scripted sink vs Sink.v
        J("scaled", "c13-sinkrows", imports="Base Stream Inst Run RunWRows"),
        J("scaled", "c13-encsink", imports="Base Stream Inst Run RunWRows", shard=10),
        J("scaled", "c13-hdr", imports="Base Stream Inst Run RunHdr"),
        J("prod", "c13-hdr", imports="Base Stream Inst Run RunHdr"),
        # the C write callback accepting part of each buffer (shared with C20)
        J("prod", "c20-rt", needs_repo_bins=["mla-bindings-c"], imports="Base Stream Inst Run RunC20", shard=30),
    ],
    "run_modules": ["RunC13", "RunFsComp", "RunWRows", "RunWRowsProofs", "RunHdr", "RunC20"],
    "rule": "c20-rt also runs C-interface round trips whose write callback reports EINTR once at its k-th invocation (the archive must be completed). scaled constants: 48 (quick) / 300 (thorough) generated archives (as C01: 1-4 files, boundary-sized interleaved pieces, the 4 layer "
            "combinations in turn, levels {0,1,5,9,11}), each (a) written through a sink accepting at most sched[i] bytes at the i-th write "
            "(schedules: constant 1, 2, 3, one of {5,7,13,31,97}, 100000, or 2-11 random quotas in 1..39; last entry repeats) and reporting "
            "ErrorKind::Interrupted at every intr-th call, intr in {never, 2, 3, 5}, then read back; (b) written to memory and read (list, hash "
            "and full read of every file, linear extraction of all files) through a source returning at most ssched[i] bytes per read (same "
            "schedule family); (c) repaired from that source, intact and cut at two random positions after the header, in both decryption modes "
            "when encrypted; non-trivial = the archive has content; distinct = distinct (plan, sink schedule, interruptions, source schedule)",
    "rule_fscomp": 'c02-comp (scaled, BLOCK=256, FSBUF=32): 40 (quick) / 160 (thorough) compressed-only layer streams of 0..3*BLOCK+20 bytes (fixed lengths 0, 1, BLOCK-1, BLOCK, BLOCK+1, 2*BLOCK, 3*BLOCK+20, then random), entropy {runs, text, random} x levels {0, 5, 11}, written in random pieces, every second one with flush() after random pieces; for each stream EVERY truncation length of the wire x read sizes {1, 7, 32, 4096}: the real CompressionLayerFailSafeReader run to the first Ok(0)/error; oracles: the four read sizes give the same output at every cut; at 14 cuts per stream a ThrottledReader returning 1, 2, 3 bytes per read gives the same total output as memory; model comparison with inner quotas {1, 2, 3, 5} (model source: Stream.Throttled)',
    "exhaustive": {"quick": False, "thorough": False},
    "explanation": "theorems (writing side, Sink.v/SinkProofs.v): std's write_all into a destination that accepts any part (>= 1 byte) of each "
                   "write and reports any number of interruptions leaves exactly data ++ buf, for EVERY finite schedule (write_all_sched); a "
                   "sequence of write_all calls leaves the concatenation (write_all_seq); hence every append-only producer (push_outs_spec), in "
                   "particular the archive writer model (wstep_out_prefix, archive_sink_indep: w_out), pushed increment by increment, "
                   "cut in any way, through any such sink leaves the bytes it leaves in memory; an Ok(0) write gives WriteZero and a prefix; the "
                   "position layer, which counts what `write` accepted, equals the number of bytes in the sink under every schedule and outcome "
                   "(pos_counts), so footer offsets do not depend on the schedule. Theorems (reading side, ThrottledProofs.v): Throttled b refines a "
                   "cursor over b for every schedule; read_full / read_exact / parse_block / get_hash over any two streams refining a cursor over the "
                   "same bytes (Throttled b from any schedule state, Cursor b) give the same result at corresponding positions. Correspondence: the rows (list, hashes, every single read, "
                   "linear extraction) of the real ArchiveReader over a ThrottledReader with a constant quota equal hist_plain_thr (reader model over "
                   "Stream.Throttled) on layer-less archives below 3000 bytes. Oracles (all layer combinations): (a) the archive collected by the "
                   "throttled sink lists the same names and gives hashes and contents equal to what was written (independent SHA-256), and has the "
                   "same length as the memory-written one when no layer is on; (b) rows through the throttled source == rows from memory == what was "
                   "written; (c) repair from the throttled source gives the same status, unfinished set and recovered files as from memory.",
    "explanation_fscomp": "fail-safe decompression (props/C13.v): C13_fs_comp_sched_indep — two runs over the same available bytes deliver the same total output whatever the inner source's read schedule (Throttled with any schedule, Cursor: C13_fs_comp_sources), the client's read sizes and the decoder's emission schedule (any two step functions satisfying DecoderLaws for the same D); this is what makes the Tie B comparison of TOTAL outputs between the real decoder and the greedy table-driven instance legitimate.",
    "trusted_base": ["DecoderLaws (theories/CompFailSafeProofs.v), assumed of brotli's streaming decoder and observed on the real decoder by job c02-comp (fscomp.rs::check_laws, random input slices and output room): D x = maximal output decodable from the consumed bytes x, fin x = x is exactly one complete stream; fin [] = false; fin is prefix-free; D is monotone; a call consumes <= the input and produces <= the room; never consumes past the end of a complete stream; everything emitted so far is a prefix of D(consumed); ResultSuccess only with exactly one complete stream consumed and nothing pending; NeedsMoreInput only with all input consumed and (room exhausted or nothing pending); NeedsMoreOutput only with the room exhausted and something pending; ResultFailure never on bytes consistent with a complete stream. No assumption on how much one call emits otherwise.", 'the bytes after the last compressed block (SizesInfo footer) are `dead` for a fresh decoder: no output and no complete stream on any prefix (complete EMPTY streams inside the footer are covered by listing them as blocks); checked for every generated stream by c02-comp (tail_fail_at)'],
    "assumptions": ['fail-safe decompression: per-read granularity is NOT schedule independent (and not claimed); on INVALID streams the output may depend on the schedule (output of a call that reports ResultFailure is dropped by the code): theorems are for valid blocks + dead footer',
                    
        "the destination never returns Ok(n) with n larger than the buffer (std's write_all would panic on the slice) and a finite number of "
        "interruptions per write_all (std retries forever otherwise); a destination returning another error or Ok(0) makes the writer fail: not "
        "part of the property (write_all_any / write_all_zero: the destination then holds a prefix)",
        "the model sink follows a finite schedule then accepts everything: any terminating run makes finitely many calls, so it covers sinks "
        "that throttle or interrupt forever; the theorems quantify over all finite schedules",
        "writing side is proved for the archive writer model's block stream and for any append-only producer handing its increments down with "
        "write_all (the encryption layer does: inner.write_all for ciphertext and tags; instantiated per call by C13_enc_writer_over_sink / C13_enc_finalize_over_sink); "
        "the compression layer's writer (brotli CompressorWriter over the inner layer) is covered by the oracle only",
        "reading side is proved for the block parser and get_hash (read_footer, get_file/read, linear extraction: same combinators, not lifted; "
        "covered by the correspondence rows); for the encryption reader it follows from enc_reader_refines (C11/C01: any inner stream "
        "refining a cursor, short reads allowed) instantiated with throttled_refines; the decompressor and repair over a throttled source are "
        "covered by the oracle (D5 was found this way and is fixed)",
    ],
}
# work package fscomp: the fail-safe decompression reader (appended to the texts above)
CFG["rule"] += "; " + CFG.pop("rule_fscomp")
CFG["explanation"] += " || " + CFG.pop("explanation_fscomp")

# work package wrows
CFG["rule"] += ("; c13-sinkrows: 240 (quick) / 1500 (thorough) scripts for a destination below the real PositionLayerWriter (over RawLayerWriter): 0, 1-3 or 4-39 events, "
                "each Accept(k) (k constant 1, 0..3, 1..40 or one of {0,1,7,100000}; at least one byte is taken), Interrupted (30%), and in one script in four also Ok(0) "
                "and a hard error; then everything is accepted; 1-5 buffers of {0,1,2,3,9,17,40,64,100} bytes, two thirds written with std's write_all, one third with "
                "single Write::write calls")
CFG["explanation"] += (" || wrows: job c13-sinkrows compares, for the real PositionLayerWriter + std::io::Write::write_all (and single write calls) over a scripted sink, the "
                       "result of every call, position() after it, the complete log of what the sink was offered and answered (offered length, outcome, accepted) and the "
                       "bytes it holds with Sink.write_all / Sink.pos_write over Sink.sink_write run on the same script (theorems C13_rows_write_all / C13_rows_write: the "
                       "logging wrapper used for the rows is invisible, the rows ARE write_all / pos_write of Sink.v); oracle: position() = bytes in the destination, and the "
                       "destination holds the concatenation when every write_all returned Ok")

CFG["rule"] += ("; c13-encsink: 100 (quick) / 600 (thorough) runs of the real EncryptionLayerWriter (fixed random key / nonce) over a scripted destination: 1-5 single "
                "write / write_all calls of {0, 1, CIPHERBUF-1..+1, CHUNK-1..+1, 2*CHUNK, 2*CHUNK+1, 3*CHUNK+5, random} bytes with flushes in between, then finalize; scripts of "
                "0-3, 4-29 or 30-399 events, one in four Interrupted, the others Accept(k) (k = 1, 0..3, 1..30 or one of {1,15,16,17,100000})")
CFG["explanation"] += (" || c13-encsink: after EVERY call of the real encryption layer writer over the scripted destination, the accepted count, the number of bytes the "
                       "destination holds and the number of scripted events it has used (= the number of write calls it saw), and at the end its bytes, equal EncLayer.ew_write / "
                       "ew_finalize pushed through Sink.push_outs with the buffers of the layer's inner.write_all calls (tag of the closed chunk, then ciphertext) "
                       "(theorems C13_enc_writer_over_sink / C13_enc_finalize_over_sink: in that composition every call succeeds with the model's accepted count and the "
                       "destination holds exactly ew_out — the instantiation of C13_push_outs for the encryption layer, which was not a separate theorem before); oracle: "
                       "the destination holds the bytes the same calls leave in memory and every write accepts the same count")
# work package hdrsrc: the header stage through short-read sources
CFG["rule"] += ("; c13-hdr (both flavours): ArchiveHeader::from through sources returning at most 1, 2, 3, 7 bytes per read, a random schedule "
                "and memory, on valid headers (4 layer combinations, 1-3 recipients), every truncation of a header and hostile headers "
                "(magic, version, Option tag, layers, key count in {0, n-1, n+1, 2^20, limit/48, 2^31, 2^63+5, 2^64-1}): outcome, error class and "
                "bytes consumed from the source are model-compared (RunHdr.hdr_read = HeaderStream.read_header_s over Stream.Throttled)")
CFG["explanation"] += (" || header stage (props/C13.v C13_header_any_source, C13_archive_open_any_source): ArchiveHeader::from modelled as the code's "
                "read_exact sequence (3, 4, then bincode's single-byte and 8-byte reads, limit charged before each) over ANY stream refining a cursor "
                "returns what Archive.read_header returns on the bytes and leaves the source at the end of the header; composed with the layer "
                "theorems (any refining inner stream) and C01: archive_open over any such source of an archive_write output reads back what was written")

# round-5 seed C13-m7
CFG["rule"] += ("; c20-rt (the round-trip family of C20's job): archives created through the C interface with write callbacks that accept part of each buffer (1 byte, half, all but one, at most 7 / 4095 bytes): "
                "readable by the Rust reader with the files and bytes passed in")
