# C16 — per-property configuration (supersedes the PROPS["C16"] entry of propcfg.py).
# Work package `extract`: job c16-pool (whole-archive form through the writer pool, model-compared at the
# capacity of the source), run module RunC16Pool.
CFG = {
        "jobs": lambda tier: [
            # c16 also runs the cases `c16b-*` (work package fixcli): hand-written layer-less archives (re-used file ids) and the
            # states of the -o argument; model = CliExtractOut.cmd_extract_*_o on the archive BYTES (RunC16Bytes.c16b_run)
            J("prod", "c16", needs_repo_bins=["mlar"], imports="Base Stream Inst Run RunC17 RunC16Bytes"),
            J("prod", "c16-symlink", needs_repo_bins=["mlar"]),
            # "extracted beneath it with exactly their content", whole-archive form, members whose
            # runs are separated by more than the writer pool's 1000 other members (shared with C12)
            J("prod", "c12-cli", needs_repo_bins=["mlar"]),
            # the writer POOL, model-compared: more members than the pool keeps open (1001 / 1100), runs interleaved so that
            # every handle is evicted between two blocks of its member; model = Pool.extract_linear_pool at POOL_CAP = 1000
            J("prod", "c16-pool", needs_repo_bins=["mlar"], imports="Base Stream Inst Run RunC16Pool", shard=1),
        ],
        "run_modules": ["RunC16Pool", "RunC16Bytes"],
        "rule": "c16: member-name sets from the path grammar: EVERY name of depth <= 2 (quick) / <= 3 (thorough) over 11 component kinds "
                "('.', '..', normal, empty, unicode, 255 and 256 bytes, '...', absolute markers) x leading/trailing separator, "
                "each together with a benign member, plus random sets of 1-4 names of depth <= 4; forms cycle over {linear, glob '*', one listed "
                "name}; output directory argument relative/absolute, existing/absent. c16-prefix (run with c16-symlink): output directories holding a link to a sibling whose NAME extends their own (restore/latest -> ../restore-old; o / o2; out / out.bak), linear and listed forms, nothing outside may change; c16-symlink: output directory pre-populated with "
                "out/link -> ../sibling, out/deep/l2 -> ../../sibling/keepdir, out/flink -> ../outside.txt, out/dlink -> ../nowhere.txt (dangling); 30 (quick) / 120 (thorough) random sets of "
                "1-4 of 22 member names routed through the links (existing and missing directories behind them, the links themselves, a link to a "
                "file used as a directory, '..' spellings) plus a benign member, random archive order, the three forms; every case is non-trivial; "
                "distinct = distinct (set, form); c12-cli: whole-archive extraction of 1001 / 1300 interleaved members, content compared; "
                "c16-pool: 5 / 1001 / 1100 (thorough: also 999, 1000, 1037, three rounds) tiny members written in 2-3 interleaved rounds with a "
                "rotation per round, every 13th member without any byte (created by the pre-pass only), zero-length appends; whole-archive "
                "extraction by the real binary, every file under the output directory (path, content) and the exit status compared with the "
                "model run THROUGH the pool at capacity 1000; c16b (in job c16, work package fixcli): six layer-less archives whose blocks and "
                "footer are written by hand — FileStart(0,b) FileStart(0,../x) FileContent(0,DATA) (a re-used id re-bound by a refused name), "
                "both names accepted, the refused name first, an id re-used after its EndOfFile, two interleaved ids, a plain control — in the "
                "three forms, and for the first and the control every state of the -o argument (missing, directory, regular file, symbolic link "
                "to a directory, dangling link, below a missing parent): whole sandbox snapshot and exit status = the model reading the same bytes",
        "exhaustive": {"quick": True, "thorough": True},
        "explanation": "theorems: on ANY model file system (directories, files, symbolic links with relative/absolute targets anywhere) both "
                       "extraction forms leave every regular file outside the output directory untouched and create none there, every touched "
                       "file has a physical path beneath it (extract_confined_with_symlinks, touched_*_beneath); filter-based and "
                       "canonical-check-based derivations; benign members with a clear way extracted exactly; D23 regression witness (the "
                       "pre-repair code is refuted by computation); the writer pool of the whole-archive form is transparent for any capacity, any "
                       "write sequence, any cutting into buffers (C16_pool_transparent, C16_linear_through_pool), bounded (C16_pool_bounded), the "
                       "wrong re-open modes refuted (C16_pool_reopen_truncate/write_refuted); from archive BYTES: C16_extract_archive_confined "
                       "(any bytes, both forms, failure at any point, delivered pieces included) and C16_extract_archive_benign (created archive, "
                       "benign names: both forms deliver the bytes given); Tie A: pool capacity, `.append(true)` only, put / get_mut / write order, "
                       "pre-pass before linear_extract (C16_pool_source_facts). correspondence: the regular files (path, content) the real `mlar extract` "
                       "leaves beneath the output directory equal the model's extract_all / extract_linear on the same members (c16), and with the "
                       "pre-existing links the WHOLE sandbox snapshot (files with content, directories, symbolic links, exit status) equals the "
                       "model's (c16-symlink); the files left by the whole-archive form on > 1000 interleaved members equal the model's run through "
                       "the pool (c16-pool); a recursive snapshot shows no file outside changed",
        "assumptions": ["no other process modifies the file system during the extraction (no link can appear between a file's creation and "
                        "its append-mode reopen within one run: no operation of the model creates a link)",
                        "Linux limits NAME_MAX=255, PATH_MAX=4096, 40 symbolic links per resolution in the model (the kernel counts the links of "
                        "one open() together, the model gives the parent and the final chain a budget each: only the ELOOP threshold differs)"],
        "trusted_base": ["std::path::Path::components modelled in Path.v (56 examples generated from the real rustc output)",
                         "path_resolution(7), mkdir, open(O_CREAT|O_TRUNC / O_APPEND), lstat, std::fs::create_dir_all as modelled in Path.v "
                         "(validated on the c16-symlink sandbox snapshots and the rust/cf.rs scenarios)"],
    }
