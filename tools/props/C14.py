CFG = {
    "jobs": lambda tier: [
        J("scaled", "c02-comp --aspect C14", imports="Base Stream Inst Run RunFsComp", shard=20),
        J("scaled", "witness --only C14"),
        J("scaled", "c14", imports="Base Stream Inst Run RunFsComp RunFsStack"),
        J("prod", "c14"),
    ],
    "run_modules": ["RunFsComp", "RunFsStack"],
    "rule": "scaled constants (CHUNK=64, TAG=16): 60 (quick) / 400 (thorough) generated archives with at least one piece (1-4 files, "
            "boundary-sized interleaved pieces around CIPHERBUF/CHUNK/BLOCK, the 4 layer combinations in turn, levels {0,1,5,9,11}, compressible "
            "and random data), flush() called after 1-2 randomly chosen appends; one case per flush: the bytes the destination held when "
            "flush() returned are given to repair; non-trivial = some file byte was appended before the flush; distinct = distinct (plan, flush "
            "point)",
    "rule_fscomp": 'c02-comp (scaled, BLOCK=256, FSBUF=32): 40 (quick) / 160 (thorough) compressed-only layer streams of 0..3*BLOCK+20 bytes (fixed lengths 0, 1, BLOCK-1, BLOCK, BLOCK+1, 2*BLOCK, 3*BLOCK+20, then random), entropy {runs, text, random} x levels {0, 5, 11}, written in random pieces, every second one with flush() after random pieces; for each stream EVERY truncation length of the wire x read sizes {1, 7, 32, 4096}: the real CompressionLayerFailSafeReader run to the first Ok(0)/error; oracle: for every flush() (destination length f, g plaintext bytes written before), the reader on wire[..f] delivers at least g bytes, for every read size; model comparison at every flush point',
    "exhaustive": {"quick": False, "thorough": False},
    "explanation": "theorems (EncWriterProofs.v, FlushProofs.v): the encryption writer keeps the invariant EwInv s p (ew_out = for every renewed chunk "
                   "ciphertext ++ tag, for the current chunk the ciphertext of what it holds and NO tag, also when the chunk is full) for every "
                   "sequence of writes of any sizes (ew_write_all_spec); at any point between writes - where flush, which only forwards, returns - "
                   "the fail-safe reader in unauthenticated mode over the bytes handed down so far delivers EXACTLY the plaintext written so far and "
                   "never crashes (flush_prefix_unauth), and in authenticated mode exactly the plaintext of the chunks whose tag is already "
                   "there, plus chunk 0 (loaded without verification by the constructor: finding D2, kept) (flush_prefix_auth); the archive "
                   "writer model only appends to its block stream and every append executed so far sits in it as a complete FileContent block "
                   "(wstep_out_prefix, appended_blocks_present), so without compression the flushed encrypted bytes decrypt to a block stream "
                   "holding every appended byte in complete blocks (C14_flush_enc_layer_output). END TO END, one theorem per layer combination "
                   "(props/C14.v part 4: C14_flush_durable_plain / _enc / _enc_auth / _comp / _comp_enc / _comp_enc_auth): for ANY call list "
                   "pre ++ flush :: post with the calls before the flush free of short sources, the destination bytes when that flush returned, "
                   "read through ANY source behaving as a cursor over them and the matching fail-safe readers, make repair return Ok with, under "
                   "every started name, EXACTLY the bytes appended before the flush (no encryption / unauthenticated), resp. exactly the content "
                   "bytes in the prefix covered by the completed encryption chunks (authenticated). For the compressed combinations the repair "
                   "loop runs over the model of CompressionLayerFailSafeReader as a stream (FsCompStream.FsComp) under the DecoderLaws; "
                   "RepairMask.repair_mask shows that a source ending with an error (UnexpectedEof inside a brotli stream) yields the same "
                   "output archive and unfinished list as one ending with Ok(0) - only the stopping status differs. Correspondence: the rows of the real repair "
                   "(status, unfinished names sorted, re-read of the repaired archive: per-file recovered bytes) of the flushed bytes equal repair_plain / "
                   "repair_enc (concrete AES-GCM in Coq) for layer-less and encrypt-only archives, and repair_comp / repair_comp_enc "
                   "(theories/RunFsStack.v) for compressed and compressed+encrypted archives: the flushed prefix ends inside a compressed block at a "
                   "flush point; the repair loop runs over the model of CompressionLayerFailSafeReader (over the cursor / the fail-safe decryptor) "
                   "with the greedy table-driven decoder instance of RunFsComp.v, brotli tabulated per archive by the harness without mla for every "
                   "prefix of every block of the FULL archive's compression-layer stream (schedule independence: fs_comp_sched_indep, "
                   "repair_fscomp_exact). Oracle (all layer combinations): flush returns after the header reached the "
                   "destination; unauthenticated repair of the flushed bytes succeeds and every file's recovered bytes start with what was appended "
                   "before the flush; authenticated repair recovers at least what unauthenticated repair recovers from the flushed bytes cut at the "
                   "last complete chunk.",
    "explanation_fscomp": "compressed archives (props/C14.v): C14_fs_comp_flush — if the destination holds the complete blocks and the bytes c' the current block's encoder had emitted when flush() returned, and D c' = everything written to that block so far (dec_flush: brotli's flush contract, hypothesis on the wire, observed by the oracle), the fail-safe decompression reader delivers everything written before the flush (D6: pending output is drained at the end of the input).",
    "trusted_base": ["DecoderLaws (theories/CompFailSafeProofs.v), assumed of brotli's streaming decoder and observed on the real decoder by job c02-comp (fscomp.rs::check_laws, random input slices and output room): D x = maximal output decodable from the consumed bytes x, fin x = x is exactly one complete stream; fin [] = false; fin is prefix-free; D is monotone; a call consumes <= the input and produces <= the room; never consumes past the end of a complete stream; everything emitted so far is a prefix of D(consumed); ResultSuccess only with exactly one complete stream consumed and nothing pending; NeedsMoreInput only with all input consumed and (room exhausted or nothing pending); NeedsMoreOutput only with the room exhausted and something pending; ResultFailure never on bytes consistent with a complete stream. No assumption on how much one call emits otherwise.", 'the bytes after the last compressed block (SizesInfo footer) are `dead` for a fresh decoder: no output and no complete stream on any prefix (complete EMPTY streams inside the footer are covered by listing them as blocks); checked for every generated stream by c02-comp (tail_fail_at)'],
    "assumptions": ["compression: the encoder side of flush (CompressorWriter::flush emits a flush point making all input so far decodable) is the hypothesis D c' = written, covered by the oracle only",
                    
        "fewer than 2^32 encryption chunks (current_ctr is a u32; beyond that the writer panics in debug builds: Crash 228 in the model)",
        "compressed combinations: the ENCODER side of flush is the explicit premise `fs_spec D bs w = w_out s` of C14_flush_durable_comp* (what the "
        "compression layer had been handed is decodable from what it had emitted; derived from `D c' = written` by C14_flush_premise_from_blocks); "
        "brotli's decoder enters through the DecoderLaws; both are observed by job c02-comp, not proved",
        "the calls before the flush must be clean: no append from a short source (D8: it leaves a content block whose announced length is wrong) "
        "and no finalize; sizes < 2^64, names valid UTF-8, fewer than 2^64 files (what the types guarantee)",
        "with compression the stopping status of repair is not stated by the theorems (the fail-safe decompressor ends a cut stream with an error inside a brotli stream); "
        "it is compared by the correspondence (repair_comp / repair_comp_enc rows)",
        "the destination accepts every write in the c14 cases (C13 lifts this: sink independence)",
    ],
}
# work package fscomp: the fail-safe decompression reader (appended to the texts above)
CFG["rule"] += "; " + CFG.pop("rule_fscomp")
CFG["explanation"] += " || " + CFG.pop("explanation_fscomp")

# round-4 seed C14-m7
CFG["rule"] += ("; chunk-edge family (both flavours): a first append that leaves the stream at every distance (scaled: every third; thorough: every) from an encryption-chunk "
                "boundary, then a small append of 1-40 bytes, a flush, a cut: unauthenticated repair of the flushed bytes recovers both appends")
