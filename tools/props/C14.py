CFG = {
    "jobs": lambda tier: [
        J("scaled", "witness --only C14"),
        J("scaled", "c14"),
    ],
    "rule": "scaled constants (CHUNK=64, TAG=16): 60 (quick) / 400 (thorough) generated archives with at least one piece (1-4 files, "
            "boundary-sized interleaved pieces around CIPHERBUF/CHUNK/BLOCK, the 4 layer combinations in turn, levels {0,1,5,9,11}, compressible "
            "and random data), flush() called after 1-2 randomly chosen appends; one case per flush: the bytes the destination held when "
            "flush() returned are given to repair; non-trivial = some file byte was appended before the flush; distinct = distinct (plan, flush "
            "point)",
    "exhaustive": {"quick": False, "thorough": False},
    "explanation": "theorems (EncWriterProofs.v, FlushProofs.v): the encryption writer keeps the invariant EwInv s p (ew_out = for every renewed chunk "
                   "ciphertext ++ tag, for the current chunk the ciphertext of what it holds and NO tag, also when the chunk is full) for every "
                   "sequence of writes of any sizes (ew_write_all_spec); at any point between writes - where flush, which only forwards, returns - "
                   "the fail-safe reader in unauthenticated mode over the bytes handed down so far delivers EXACTLY the plaintext written so far and "
                   "never crashes (flush_prefix_unauth), and in authenticated mode exactly the plaintext of the chunks whose tag is already "
                   "there, plus chunk 0 (loaded without verification by the constructor: finding D2, kept) (flush_prefix_auth); the archive "
                   "writer model only appends to its block stream and every append executed so far sits in it as a complete FileContent block "
                   "(wstep_out_prefix, appended_blocks_present), so without compression the flushed encrypted bytes decrypt to a block stream "
                   "holding every appended byte in complete blocks (C14_flush_durable_enc_partial). Correspondence: the rows of the real repair "
                   "(status, unfinished, re-read of the repaired archive) of the flushed bytes equal repair_plain / repair_enc (concrete AES-GCM in "
                   "Coq) for layer-less and encrypt-only archives. Oracle (all layer combinations): flush returns after the header reached the "
                   "destination; unauthenticated repair of the flushed bytes succeeds and every file's recovered bytes start with what was appended "
                   "before the flush; authenticated repair recovers at least what unauthenticated repair recovers from the flushed bytes cut at the "
                   "last complete chunk.",
    "assumptions": [
        "fewer than 2^32 encryption chunks (current_ctr is a u32; beyond that the writer panics in debug builds: Crash 228 in the model)",
        "the step from 'the fail-safe top layer delivers w_out, which holds the complete blocks' to 'repair recovers these bytes' is the repair "
        "work package's theorem (repair of any prefix of a block stream recovers every complete content block); here it is covered by the "
        "correspondence rows and the oracle",
        "the compression layer (brotli flush semantics, fail-safe decompressor: D4-D6 fixed) is NOT modelled here: oracle only",
        "the destination accepts every write in the c14 cases (C13 lifts this: sink independence)",
    ],
}
