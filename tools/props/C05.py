CFG = {
    "jobs": lambda tier: [
        J("scaled", "c02-comp --aspect C05", imports="Base Stream Inst Run RunFsComp", shard=20),
        J("scaled", "c05"),
        J("scaled", "c05-blocks", imports="Base Stream Inst Run RunFsComp RunFsStack", shard=8),
        J("scaled", "c05-ids"),
        J("scaled", "c02-exotic", imports="Base Stream Inst Run"),
        J("scaled", "witness --only C05"),
    ],
    "run_modules": ["RunFsComp", "RunFsStack"],
    "rule": "scaled constants: generated archives as for C02 (12 quick / 60 thorough, 4 layer combinations, authenticated and "
            "unauthenticated recovery); for each archive EVERY cut point from the end of the header to the full length, in "
            "increasing order: no panic, no file shrinks when one more byte is given, without compression every content byte "
            "present in the usable part is recovered, the intact archive is recovered completely with EndOfOriginalArchiveData; "
            "non-trivial = the archive has content; distinct = distinct (archive, mode); plus 160 (quick) / 1200 (thorough) undamaged "
            "compressed (and compressed+encrypted) archives of 300-3000 bytes in 1-12 blocks, entropy {runs, text, random}, levels {0,1,5,9,11}, "
            "repaired from memory in both modes and from sources returning 1, 2, 3 or 7 bytes per read: complete recovery and EndOfOriginalArchiveData, "
            "and every from-memory repair (archive x mode) model-compared (repair_comp / repair_comp_enc); "
            "plus 24 (120) layer-less archives whose file ids are remapped (+1, +2^40+7, reversed): read normally and repaired completely (model-compared)",
    "rule_fscomp": 'c02-comp (scaled, BLOCK=256, FSBUF=32): 40 (quick) / 160 (thorough) compressed-only layer streams of 0..3*BLOCK+20 bytes (fixed lengths 0, 1, BLOCK-1, BLOCK, BLOCK+1, 2*BLOCK, 3*BLOCK+20, then random), entropy {runs, text, random} x levels {0, 5, 11}, written in random pieces, every second one with flush() after random pieces; for each stream EVERY truncation length of the wire x read sizes {1, 7, 32, 4096}: the real CompressionLayerFailSafeReader run to the first Ok(0)/error; oracles: the output for cut n+1 extends the output for cut n (every n, every read size); once all blocks are present everything is delivered; model comparison as for C02',
    "exhaustive": {"quick": False, "thorough": False},
    "explanation": "theorems (props/C05.v): on the uncut stream the loop reports EndOfOriginalArchiveData, nothing unfinished, every "
                   "file complete; for n <= m the content recovered under every name from the first n bytes is a prefix of the "
                   "one recovered from the first m bytes; for every file the recovered content is EXACTLY the concatenation of "
                   "its content bytes lying before the cut (`present`), for every cut position and all read sizes; "
                   "encrypted archives end to end (writer, ANY cut of the wire, fail-safe decryptor, repair): C05_repair_encrypted_max (exactly the "
                   "content present in what the decryptor delivers), C05_repair_encrypted_monotone - for cuts n <= m and every pair of modes except "
                   "(unauthenticated at n, authenticated at m), in particular BOTH authenticated: every name's content at n is a prefix of its content at m, "
                   "OR the shorter cut contains an exhibited forgery (EncAuth.Forgery: a window accepted under counter i whose ciphertext the writer did "
                   "not produce for chunk i) - no unforgeability assumed; C05_example_auth_auth_forgery_disjunct_needed shows with a weak tag function "
                   "that the disjunct cannot be dropped, C05_example_unauth_then_auth_not_monotone why the excluded pair is excluded; "
                   "correspondence and oracle as for C02 (byte counts against the generating plan); c05-blocks: the rows (status, unfinished names sorted, "
                   "per-file recovered bytes via the re-read of the repaired archive) of the real repair of every undamaged compressed / "
                   "compressed+encrypted archive, in both decryption modes, equal the model's repair_comp / repair_comp_enc "
                   "(theories/RunFsStack.v: repair loop over the fail-safe decompression reader model over the cursor / the fail-safe decryptor, "
                   "greedy table-driven decoder instance, brotli tabulated per archive without mla; schedule independence by fs_comp_sched_indep / "
                   "repair_fscomp_exact); job c05 itself stays oracle-only (one case per archive with all cuts inside; C02 model-compares every cut)",
    "explanation_fscomp": 'compressed archives (props/C05.v): C05_fs_comp_monotone — a longer prefix of the wire gives a longer-or-equal output of the fail-safe decompression reader (prefix order), for any two runs (sources, read sizes, decoder emission schedules), from the law that D is monotone; C05_fs_comp_complete — with all blocks present the whole plaintext is delivered; C02_fs_comp_maximal — everything decodable from the available bytes is delivered (D4-D6).',
    "trusted_base": ["DecoderLaws (theories/CompFailSafeProofs.v), assumed of brotli's streaming decoder and observed on the real decoder by job c02-comp (fscomp.rs::check_laws, random input slices and output room): D x = maximal output decodable from the consumed bytes x, fin x = x is exactly one complete stream; fin [] = false; fin is prefix-free; D is monotone; a call consumes <= the input and produces <= the room; never consumes past the end of a complete stream; everything emitted so far is a prefix of D(consumed); ResultSuccess only with exactly one complete stream consumed and nothing pending; NeedsMoreInput only with all input consumed and (room exhausted or nothing pending); NeedsMoreOutput only with the room exhausted and something pending; ResultFailure never on bytes consistent with a complete stream. No assumption on how much one call emits otherwise.", 'the bytes after the last compressed block (SizesInfo footer) are `dead` for a fresh decoder: no output and no complete stream on any prefix (complete EMPTY streams inside the footer are covered by listing them as blocks); checked for every generated stream by c02-comp (tail_fail_at)'],
    "assumptions": ['compression: maximality is relative to D (what brotli can decode from a prefix of a compressed block), not to the plaintext bytes written: a cut inside a compressed block loses the bytes brotli had not yet emitted (the property text excludes them)',
                    "block-stream level over a source that refines a cursor; with encryption the delivered prefix is what the "
                    "fail-safe decryptor yields (complete authenticated chunks, or everything in unauthenticated mode)",
                    "compression: not covered by the maximality theorem (the property text excludes it)"],
}
# work package fscomp: the fail-safe decompression reader (appended to the texts above)
CFG["rule"] += "; " + CFG.pop("rule_fscomp")
CFG["explanation"] += " || " + CFG.pop("explanation_fscomp")

# round-4 seeds C05-m7 / C05-m8 / C14-m8
CFG["rule"] += ("; c02-exotic (shared with C02): archives written by the INDEPENDENT encoder (file ids from 10, empty FileContent blocks - also as the very first content "
                "block -, a file named \"\", interleaved pieces), every cut, model-compared: the intact archive is recovered completely, no file shrinks when one more byte is "
                "given, and a repair that does not return within 10 s is a failure; c05: intact ENCRYPTED archives also from sources that report one interruption")
