CFG = {
    "jobs": lambda tier: [
        J("scaled", "c05"),
        J("scaled", "c05-blocks"),
        J("scaled", "witness --only C05"),
    ],
    "rule": "scaled constants: generated archives as for C02 (12 quick / 60 thorough, 4 layer combinations, authenticated and "
            "unauthenticated recovery); for each archive EVERY cut point from the end of the header to the full length, in "
            "increasing order: no panic, no file shrinks when one more byte is given, without compression every content byte "
            "present in the usable part is recovered, the intact archive is recovered completely with EndOfOriginalArchiveData; "
            "non-trivial = the archive has content; distinct = distinct (archive, mode); plus 160 (quick) / 1200 (thorough) undamaged "
            "compressed (and compressed+encrypted) archives of 300-3000 bytes in 1-12 blocks, entropy {runs, text, random}, levels {0,1,5,9,11}, "
            "repaired from memory in both modes and from sources returning 1, 2, 3 or 7 bytes per read: complete recovery and EndOfOriginalArchiveData",
    "exhaustive": {"quick": False, "thorough": False},
    "explanation": "theorems (props/C05.v): on the uncut stream the loop reports EndOfOriginalArchiveData, nothing unfinished, every "
                   "file complete; for n <= m the content recovered under every name from the first n bytes is a prefix of the "
                   "one recovered from the first m bytes; for every file the recovered content is EXACTLY the concatenation of "
                   "its content bytes lying before the cut (`present`), for every cut position and all read sizes; "
                   "correspondence and oracle as for C02 (byte counts against the generating plan)",
    "assumptions": ["block-stream level over a source that refines a cursor; with encryption the delivered prefix is what the "
                    "fail-safe decryptor yields (complete authenticated chunks, or everything in unauthenticated mode)",
                    "compression: not covered by the maximality theorem (the property text excludes it)"],
}
