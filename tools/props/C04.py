"""C04 — default repair only outputs authenticated, contiguous data."""
CFG = {
    "jobs": lambda tier: [
        J("scaled", "witness --only D3"),
        J("scaled", "c04", shard=6, timeout=3000),
        J("prod", "c04-cli", script="tools/cli/c04_cli_job.py", needs_repo_bins=["mlar"], timeout=900),
    ],
    "rule": "scaled constants (CHUNK=64): 2 (quick) / 6 (thorough) generated 3-6-chunk encrypt-only archives with 2-3 interleaved files, plus the "
            "adversarial-tail archive (every chunk edge is a block edge followed by FileContent blocks of files already started); for each: one random "
            "bit flipped in EVERY byte of the body (payload and tag of every chunk; thorough: two bits), truncation at every 3rd (quick) / every "
            "(thorough) body length; each repaired in both modes. Non-trivial always; distinct = distinct (altered archive, mode). Every ~23rd case "
            "and every case whose oracle fails also goes to the Coq model repair_enc (concrete AES-256-GCM, SHA-256) and all rows are compared.",
    "exhaustive": {"quick": False, "thorough": False},
    "explanation": "theorems (fail-safe encryption reader, arbitrary inner bytes): in authenticated mode any sequence of reads delivers consecutive "
                   "bytes of auth_out w = [chunk 0 unverified: D2] ++ chunks verified under their index up to the first that fails, then Ok [] for "
                   "ever; auth_out is a prefix of unauth_out; outside D2 auth_out is a prefix of the original plaintext or a forgery is exhibited. "
                   "oracle: no panic, repair succeeds, authenticated: names original, every file a prefix of the original, per file no more bytes "
                   "than lie in the chunks before the failing one, authenticated result a prefix of the unauthenticated result per file.",
    "assumptions": [
        "no unforgeability assumption (Forgery disjunct)",
        "fewer than 2^32 - 1 chunks",
        "the lifting from the layer's byte stream to files (block parser, repair loop) is covered by the correspondence with Repair.v, not by a theorem of this property",
    ],
}

# round-5 seeds C04-m7 / C04-m8
CFG["rule"] += ("; c04-cli (production mlar): `mlar repair` in both modes of encrypted (and compressed+encrypted) archives of three files of 150-300 KB with ONE byte flipped in the "
                "middle third: every member of the default-mode output is a prefix of the original file and of the member the unauthenticated mode recovers, and (without compression) "
                "no more bytes are recovered than lie in the chunks before the failing one; c04: both modes also from a source that fails ONCE with a hard I/O error inside a chunk")
