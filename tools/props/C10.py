CFG = {
    "jobs": lambda tier: [J("scaled", "c10", imports="Base Stream Inst Run RunHistStack"),
                          J("scaled", "c10-order"), J("prod", "c10-order")],
    "run_modules": ["RunHistStack"],
    "rule": "scaled constants: generated archives (1-4 files, boundary-sized interleaved pieces, 4 layer combinations, levels {0,1,5,9,11}, "
            "1-3 recipients) each with a random history of 4-14 (quick) / 4-30 (thorough) operations: list, hash, open + 0-4 reads of sizes "
            "{0,1,7,13,23,64,65,100,4099} then abandon, read to the end with one buffer size, unknown names; non-trivial = the archive has content; "
            "distinct = distinct (archive plan, history)",
    "exhaustive": {"quick": False, "thorough": False},
    "explanation": "theorems: every operation's result in any history equals its result on the freshly opened reader, for every top-layer "
                   "stream whose absolute seek forgets state (cursor; preserved by the encryption reader), any archive bytes; correspondence: "
                   "rows of the real ArchiveReader along the history equal the model's (all four layer combinations below 4000 bytes: concrete AES-GCM in Coq; for archives with the "
                   "compression layer the model runs the stack compression∘(encryption∘)raw∘cursor over the whole archive (RunHistStack.v) with brotli as a "
                   "table of the archive's blocks decoded by the brotli crate, reads compared after read-until-n-or-end); archive level for the full stack (HistStack.v): every Reader.v operation respects any bisimulation of the stream calls, so "
                   "hist_groups over compression∘encryption∘raw∘cursor is history independent for ANY archive bytes while the reader is in the stack "
                   "invariant (compression reader not poisoned, same sizes_info and offset_pos), which is carried along the history when every "
                   "operation leaves the FRESH reader in it; oracle on all layer combinations: each operation in the history == the same operation on a fresh reader == what was written",
    "assumptions": ["Rust borrow rules make histories sequences (an ArchiveFile borrows the reader exclusively)",
                    "compression layer: after an operation that fails inside the layers the reader is Empty (poisoned) and later seeks are refused — results then depend on the history (C10_comp_strict_refuted); the theorem excludes these states through the invariant Gstack"],
}

# round-3 seed C10-m5: order independence in bulk (oracle only)
CFG["rule"] += ("; c10-order: 1200 (quick) / 6000 (thorough) small archives of 3-5 files written one after the other (sizes 0..2*CHUNK+40, biased to the chunk size "
                "and to the sizes that put a block edge on a chunk edge), layers ENCRYPT / none / COMPRESS|ENCRYPT; for EVERY ordered pair (x, y) a fresh reader reads x to "
                "its end, then reads y and asks y's hash: bytes, size and hash must be what was written; production constants (where the last chunk of an archive holds the end of the last files AND the footer): "
                "encrypted archives of four files of 100, 1000, CHUNK-1200+d, 1000 bytes, d = 0..110 (thorough 220), the long file read first, then each of the four")
