CFG = {
    "jobs": lambda tier: [J("scaled", "c10")],
    "rule": "scaled constants: generated archives (1-4 files, boundary-sized interleaved pieces, 4 layer combinations, levels {0,1,5,9,11}, "
            "1-3 recipients) each with a random history of 4-14 (quick) / 4-30 (thorough) operations: list, hash, open + 0-4 reads of sizes "
            "{0,1,7,13,23,64,65,100,4099} then abandon, read to the end with one buffer size, unknown names; non-trivial = the archive has content; "
            "distinct = distinct (archive plan, history)",
    "exhaustive": {"quick": False, "thorough": False},
    "explanation": "theorems: every operation's result in any history equals its result on the freshly opened reader, for every top-layer "
                   "stream whose absolute seek forgets state (cursor; preserved by the encryption reader), any archive bytes; correspondence: "
                   "rows of the real ArchiveReader along the history equal the model's (layer-less and encrypted archives, concrete AES-GCM in "
                   "Coq); oracle on all layer combinations: each operation in the history == the same operation on a fresh reader == what was written",
    "assumptions": ["Rust borrow rules make histories sequences (an ArchiveFile borrows the reader exclusively)",
                    "the compression layer is covered by the oracle and, once merged, by the same SeekForgets lemma (its absolute seek rebuilds the decompressor)"],
}
