"""C03 — encrypted archives: any alteration is detected on read."""
CFG = {
    "jobs": lambda tier: [
        J("scaled", "c03", imports="Base Stream Inst Run RunC03", shard=4, timeout=3000),
        J("prod", "c03-lengths"),
        J("prod", "c03-cli", script="tools/cli/c03_cli_job.py", needs_repo_bins=["mlar"], timeout=600),
    ],
    "run_modules": ["RunC03"],
    "rule": "scaled constants (CHUNK=64): 4 (quick) / 20 (thorough) generated encrypted and encrypted+compressed archives of <= 560/900 bytes "
            "plus the D17 adversarial archive; for each: EVERY byte with one random bit flipped (thorough: all 8 bits), header included; "
            "40/200 byte substitutions; chunk-level edits with the tags (swap every pair, duplicate, delete each, drop every number of trailing "
            "chunks, rotate, splice the same-index chunk of the same plan written under another key); truncation at EVERY length; header fields "
            "(ephemeral key, wrapped key, its tag, nonce) overwritten; bytes appended. Each altered archive is opened with the normal reader, "
            "listed, every listed file read completely in 3 orders/buffer sizes on the same reader, under catch_unwind. "
            "A case is non-trivial always; distinct = distinct altered archive. Every ~97th (quick) header-intact encrypt-only case and every "
            "case whose oracle fails also goes to the Coq model (concrete AES-256-GCM) and the rows are compared.",
    "exhaustive": {"quick": False, "thorough": False},
    "explanation": "theorems (encryption layer, arbitrary inner bytes, any reads/seeks): every byte returned at position p comes from a ciphertext "
                   "that verified under counter p / CHUNK, hence equals the original byte or exhibits a forgery; failed loads are sticky; "
                   "unaltered streams open. ARCHIVE LEVEL (EncAuthStream/ReaderAuthSim/ReaderAuth/ReaderAuthRun): the layer theorem is packaged as "
                   "AgreesOn S I plain E (every Ok read is original data at the claimed position; E = the end the stream claims); over any such stream and "
                   "the block stream of any successful ArchiveWriter run: if the claimed end is not before the true end, ropen yields the ORIGINAL footer, "
                   "list_files = the original names, get_file announces the original size, every successful read delivers the NEXT original bytes, "
                   "read_all a PREFIX of the content, get_hash the original hash; without that hypothesis every listed name and every delivered byte "
                   "string is a SUBSTRING of the original plaintext (..._partial) and C03_D17_refuted exhibits a truncated wire on which the model lists "
                   "a name never written. oracle (exactly the property): names listed are original names, every byte returned for a file "
                   "equals the original byte at that position, no panic. Known finding D17 is generated deliberately.",
    "assumptions": [
        "no unforgeability assumption: conclusions are `original bytes or Forgery` (a ciphertext accepted under counter i that the writer did not produce for chunk i)",
        "fewer than 2^32 chunks (current_chunk_number: u32); beyond, the model reports Crash 419",
        "archive-level statements need `len plain <= enc_end w` (the length of the altered wire still maps to at least the original plaintext length: no whole trailing chunks dropped); nothing authenticates it (D17): without it only the substring statement is proved and C03_D17_refuted shows the names statement false of the model",
        "archive-level statements are under `~ Forgery` (classically the same as the layer theorem's `\\/ Forgery`); no toy cipher with fixed-size byte tags satisfies it for all counters, so its non-vacuity is shown by computed instances, not by a proved instance",
        "after a failed read of a BlocksToFileReader nothing is claimed for further reads of THAT file reader (the archive reader itself stays usable: C03_archive_reader_keeps)",
        "splice from an archive with the SAME key and nonce is not generated: ArchiveWriterConfig offers no way to choose them (EncryptionConfig::verif_new exists at layer level only); by construction such a chunk verifies (it is the Forgery disjunct of the theorem)",
    ],
}

# round-3 seed C03-m5: "unaltered archives always open" for every length of the encryption layer's plaintext
CFG["rule"] += ("; unaltered length sweep: scaled - one file of every size 0..3*CHUNK+8 (thorough 4*CHUNK+20), layers ENCRYPT and ENCRYPT|COMPRESS, opened, listed and read; "
                "c03-lengths (production constants) - the layer's plaintext takes every length in [k*CHUNK-8, k*CHUNK+24], k = 1, 2 (3 in thorough): an archive of one chunk "
                "plus 1-3 bytes exists only at production constants")

# round-4 seeds C03-m7 / C03-m8
CFG["rule"] += ("; alteration while a reader is open (4 / 12 archives): every file read once, then one bit of each chunk in turn altered in the source, the SAME reader reads every "
                "file again: each returned byte is the original one or the read fails; c03-cli (production mlar): the header of an encrypted archive altered to claim no "
                "encryption (ENCRYPT bit cleared / all bits cleared, key material kept) over the body of an attacker-written unencrypted archive: `mlar list -k` / `cat -k` fail")
