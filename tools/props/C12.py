CFG = {
    "jobs": lambda tier: [J("scaled", "c12"), J("prod", "c12-cli", needs_repo_bins=["mlar"])],
    "rule": "scaled constants: generated archives (as C01) read fully, then linear extraction into the subsets {empty, each singleton, all in "
            "reverse order, one random subset}; plus layer-less archives whose data part is cut at every 5th (quick) / every (thorough) position "
            "before and after the end-of-data marker with the footer kept (so that the archive still opens); non-trivial = content present or a cut; "
            "distinct = distinct (plan, subsets) or (archive, cut); plus, through the mlar binary, whole-archive extraction of archives of "
            "3 / 1001 / 1300 (thorough: also 999, 1000, 1500, 2500) files written interleaved in 2-3 rounds (more files than the extractor keeps open)",
    "exhaustive": {"quick": False, "thorough": False},
    "explanation": "theorems: Ok implies the block walk reached an EndOfArchiveData tag (any stream, any bytes); data is delivered to chosen names "
                   "only; correspondence: rows of helpers::linear_extract on the real reader equal the model's; oracle: sink(n) = bytes written for n "
                   "(= get_file), Ok on a cut data part only if an independent block walk reaches a marker",
    "assumptions": ["equality with per-file extraction on valid archives rests on the C01 round-trip theorem (both equal the bytes written)"],
}
