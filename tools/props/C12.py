CFG = {
    "jobs": lambda tier: [J("scaled", "c12", imports="Base Stream Inst Run RunHistStack"), J("prod", "c12-cli", needs_repo_bins=["mlar"]),
                           # the C interface's extraction (bindings/C: linear extraction into the writers the file callback hands back)
                           J("prod", "c12-capi", needs_repo_bins=["mla-bindings-c"], imports="Base Stream Inst Run RunC20 RunC20Read", shard=20),
                           # work package extract: the FileWriter pool, model-compared at the capacity of the source
                           J("prod", "c16-pool", needs_repo_bins=["mlar"], imports="Base Stream Inst Run RunC16Pool", shard=1)],
    "run_modules": ["RunHistStack", "RunC16Pool", "RunC20", "RunC20Read"],
    "rule": "scaled constants: generated archives (as C01) read fully, then linear extraction into the subsets {empty, each singleton, all in "
            "reverse order, one random subset}; plus layer-less archives whose data part is cut at every 5th (quick) / every (thorough) position "
            "before and after the end-of-data marker with the footer kept (so that the archive still opens); non-trivial = content present or a cut; "
            "distinct = distinct (plan, subsets) or (archive, cut); plus, through the mlar binary, whole-archive extraction of archives of "
            "3 / 1001 / 1300 (thorough: also 999, 1000, 1500, 2500) files written interleaved in 2-3 rounds (more files than the extractor keeps open); "
            "c12-capi: mla_roarchive_extract of libmla.so on archives of all four layer combinations, file callbacks that accept all / decline every second file (alternately before and after filling the writer structure) / decline the first after filling it: accepted writers receive exactly their file, declined ones nothing, rows model-compared (c20r_extract); "
            "c16-pool: 5 / 1001 / 1100 tiny members in interleaved rounds (every handle of the 1000-entry pool evicted and re-opened), every "
            "extracted file compared with the model run through the pool (Pool.extract_linear_pool at capacity 1000)",
    "exhaustive": {"quick": False, "thorough": False},
    "explanation": "theorems: Ok implies the block walk reached an EndOfArchiveData tag (any stream, any bytes) [C12_ok_needs_marker]; data is "
                   "delivered to chosen names only [C12_only_chosen]; on every archive the writer model produces (any successful call list + "
                   "finalize, any interleaving), over any stream refining a cursor over it, for any export list, linear extraction succeeds and each "
                   "chosen file's writer receives exactly the bytes written for it, files not chosen and chosen names the archive lacks receive "
                   "nothing [C12_linear_delivers_written, via C12_walk_is_spec + C12_spec_file]; that is literally the result of get_file + reads to "
                   "the end [C12_linear_equals_per_file]; and it is what any write_all-driven sink accepting partial writes / interrupting holds, "
                   "however io::copy cuts the pieces [C12_linear_any_sink]; the compared row is `delivered` [C12_row_is_delivered]; "
                   "correspondence: rows of helpers::linear_extract on the real reader (ThrottledWriter sinks) equal the model's; oracle: sink(n) = "
                   "bytes written for n (= get_file), Ok on a cut data part only if an independent block walk reaches a marker",
    "assumptions": ["functional clause proved for streams that behave as a cursor over the block stream (Refines: what every layer stack provides, "
                    "C11) and writers that never fail (a failing writer makes linear_extract return its error: not modelled); the BufReader "
                    "around the source is modelled as transparent (same bytes; its read-ahead only matters on failing sources); model fuel "
                    "bound: more loop steps than the archive has bytes"],
}
