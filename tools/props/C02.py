CFG = {
    "jobs": lambda tier: [
        J("scaled", "c02-comp --aspect C02", imports="Base Stream Inst Run RunFsComp", shard=20),
        J("scaled", "c02", imports="Base Stream Inst Run RunFsComp RunFsStack RunHdr"),
        J("scaled", "c02-small", imports="Base Stream Inst Run RunHdr"),
        J("scaled", "c02-src", imports="Base Stream Inst Run"),
        J("prod", "c02-small", imports="Base Stream Inst Run RunHdr"),
    ],
    "run_modules": ["RunFsComp", "RunFsStack", "RunHdr"],
    "rule": "scaled constants (CACHE=512, CHUNK=64, BLOCK=256): generated archives (1-4 interleaved files, pieces of boundary sizes, "
            "4 layer combinations); EVERY cut point of EVERY archive - layer-less, encrypted, compressed, compressed+encrypted - in quick (every byte: inside the header, "
            "a block tag, an id, a name, a content, a hash, between blocks, inside the footer; with compression: inside a compressed block, at its end, "
            "inside the SizesInfo footer) and every third cut in thorough, ALL of them model-compared (compressed ones too: repair_comp / repair_comp_enc); "
            "for encrypted archives both authenticated and unauthenticated recovery; non-trivial = the cut lies in the body and at "
            "least one block was recovered; distinct = distinct (archive, cut, mode)",
    "rule_fscomp": 'c02-comp (scaled, BLOCK=256, FSBUF=32): 40 (quick) / 160 (thorough) compressed-only layer streams of 0..3*BLOCK+20 bytes (fixed lengths 0, 1, BLOCK-1, BLOCK, BLOCK+1, 2*BLOCK, 3*BLOCK+20, then random), entropy {runs, text, random} x levels {0, 5, 11}, written in random pieces, every second one with flush() after random pieces; for each stream EVERY truncation length of the wire x read sizes {1, 7, 32, 4096}: the real CompressionLayerFailSafeReader run to the first Ok(0)/error; oracles: no panic / termination, output is a prefix of the plaintext, output == exactly what brotli (driven directly) decodes from the available bytes and the expected end status; decoder laws observed on the real decoder; model comparison (fscomp_read_all: total output and end status) at 7 cuts per stream (random, in-body, first block end -1/0/+1, in-footer, full) with a random read size and inner quota {memory, 1, 3 bytes/read}',
    "exhaustive": {"quick": False, "thorough": False},
    "explanation": "theorems (props/C02.v): for EVERY prefix of EVERY well-formed block stream, read through any source that behaves "
                   "as a cursor over the prefix, the repair loop returns Ok (never Err/Crash, fuel n+1), the output is a finalized "
                   "writer state reached by successful calls only whose stream is a well-formed block list + footer, every output "
                   "file carries an original name and a prefix of its content, files not reported unfinished are complete, "
                   "EndOfOriginalArchiveData only if everything was recovered; correspondence: status, unfinished names and the "
                   "complete re-read (list, hashes, contents) of the archive repaired by the real convert_to_archive equal the "
                   "model's repair_plain / repair_enc on the same bytes, and for archives with the COMPRESS layer (alone, and over encryption in "
                   "both decryption modes) the model's repair_comp / repair_comp_enc (theories/RunFsStack.v): the repair loop over "
                   "FsCompStream.FsComp (the model of CompressionLayerFailSafeReader) over the cursor / over the fail-safe decryptor with "
                   "concrete AES-GCM, with the greedy table-driven decoder instance of RunFsComp.v - brotli is tabulated per archive by the "
                   "harness without mla (encryption removed with the aes-gcm crate, blocks cut with the layer's sizes table, for every prefix "
                   "of every compressed block the number of bytes brotli's streaming decoder has produced); compared at every cut: stopping "
                   "status, unfinished names (sorted), and per file the recovered bytes through the re-read rows (list, hash, full read) of "
                   "the repaired archive; the real decoder's emission schedule differs from the greedy one, which the rows do not depend on "
                   "(fs_comp_sched_indep, ComposeFsComp.repair_fscomp_exact); oracle: names subset, prefix, completeness, EndOfData "
                   "clause checked on the real implementation against the generating plan",
    "explanation_fscomp": 'compressed archives (props/C02.v, C02_fs_comp_*): under DecoderLaws, for every prefix w of blocks ++ footer, any inner source delivering w with any short reads, any read sizes: the fail-safe decompression reader (faithful model of read/read_pass incl. cache, offsets, the four BrotliResult arms, D4-D6 repairs) terminates (fuel 2|w|+2 passes per read) with Ok(0)/UnexpectedEof/InvalidData, never crashes, delivers a prefix of the plaintext and exactly fs_spec(w) = plaintext of the whole blocks ++ D(partial block) (maximality: D4-D6). Composition with C02_repair_sound_any_prefix: the delivered bytes are a prefix of the block stream. Tie B: model (greedy table-driven decoder instance, D tabulated from the real decoder) == real reader on total output and end status.',
    "trusted_base": ["DecoderLaws (theories/CompFailSafeProofs.v), assumed of brotli's streaming decoder and observed on the real decoder by job c02-comp (fscomp.rs::check_laws, random input slices and output room): D x = maximal output decodable from the consumed bytes x, fin x = x is exactly one complete stream; fin [] = false; fin is prefix-free; D is monotone; a call consumes <= the input and produces <= the room; never consumes past the end of a complete stream; everything emitted so far is a prefix of D(consumed); ResultSuccess only with exactly one complete stream consumed and nothing pending; NeedsMoreInput only with all input consumed and (room exhausted or nothing pending); NeedsMoreOutput only with the room exhausted and something pending; ResultFailure never on bytes consistent with a complete stream. No assumption on how much one call emits otherwise.", 'the bytes after the last compressed block (SizesInfo footer) are `dead` for a fresh decoder: no output and no complete stream on any prefix (complete EMPTY streams inside the footer are covered by listing them as blocks); checked for every generated stream by c02-comp (tail_fail_at)'],
    "assumptions": ['compression layer: theorems are under DecoderLaws (trusted_base) and for wires = complete blocks of <= BLOCK plaintext bytes each + dead footer; the result of `read` after an error was returned is not covered (the repair loop stops at the first error)',
                    "theorems are at the block-stream level over a source that refines a cursor (plain EOF at the end of the "
                    "delivered data): the raw and fail-safe encryption layers; read ERRORS from the source (ErrorInFile, "
                    "IOErrorOnNextBlock: compression layer on damaged data) are covered by the correspondence only",
                    "the repaired archive opens normally: by C01's round-trip theorem from `history out` (all writer calls succeeded)",
                    "sha2::Sha256 enters as any function with 32-byte output"],
}
# work package fscomp: the fail-safe decompression reader (appended to the texts above)
CFG["rule"] += "; " + CFG.pop("rule_fscomp")
CFG["explanation"] += " || " + CFG.pop("explanation_fscomp")

# work package hdrsrc: the header is part of the model-compared input
CFG["rule"] += ("; job c02 hands the model the archive prefix INCLUDING the header (RunHdr.repair_archive_kn / every 16th case repair_archive "
                "with the model's own ECIES unwrap in oracle mode for X25519): cuts inside the magic, the version, the persistent configuration and "
                "the key-wrap table are model-compared rows; c02-small (scaled AND production constants): 2 (quick) / 6 (thorough) tiny archives x "
                "layers {none, ENCRYPT} (one short chunk), ~16 cuts each (header, block edges, inside the chunk, inside its tag, footer, intact), "
                "both modes, from memory and through a 3-byte-per-read source, all model-compared")
CFG["explanation"] = CFG.get("explanation", "") + (" || whole archive (props/C02.v C02_archive_cut_sound, theories/ArchiveSrcRepair.v): for every cut of "
                "header ++ body (layers none / ENCRYPT) and any source refining a cursor over the prefix, ArchiveFailSafeReader::from_config + "
                "convert_to_archive (ArchiveSrc.failsafe_repair: streamed header read, load_config, fail-safe stack over the SAME source, repair) "
                "returns UnexpectedEof (cut < 7), DeserializationError (cut inside the configuration) or the result C02_repair_cut_sound / "
                "C02_repair_encrypted_cut_sound describe (or an exhibited tag collision on a wrapped key)")

# round-3 seeds C02-m5 / C02-m6 / C14-m6: unusual but legal sources, archives and configuration orders
CFG["rule"] += ("; c02-src (scaled): (a) prefixes (the intact archive and 13 / 39 random cuts of 6 / 24 archives, 4 layer combinations, both modes) delivered by a "
                "source that serves reads of at most {1,2,3,7,13,100000} bytes and answers ErrorKind::Interrupted once at 1-3 read indices: the C02 clauses must hold "
                "of the result; (b) EVERY cut of 3 / 12 layer-less archives whose file ids were rewritten (+1, +2^40+7, reversed), model-compared with repair_plain; "
                "in every repair job the reader configuration is built alternately as keys-then-mode and mode-then-keys")
CFG["explanation"] += (" || c02-src: the property quantifies over every prefix of every VALID archive, whoever wrote it (ids are opaque u64 in FORMAT.md) and however the "
                       "source delivers it; an interrupted read either is retried by the caller (read_exact, read_to_end) or stops the reconstruction of the current file "
                       "(ErrorInFile) - in both cases what was written must be a prefix, and a file not reported unfinished complete")
