CFG = {
    "jobs": lambda tier: [
        J("scaled", "c02"),
    ],
    "rule": "scaled constants (CACHE=512, CHUNK=64, BLOCK=256): generated archives (1-4 interleaved files, pieces of boundary sizes, "
            "4 layer combinations); EVERY cut point of the layer-less and encrypted archives in quick (every byte: inside the header, "
            "a block tag, an id, a name, a content, a hash, between blocks, inside the footer) and a stride for compressed ones; "
            "for encrypted archives both authenticated and unauthenticated recovery; non-trivial = the cut lies in the body and at "
            "least one block was recovered; distinct = distinct (archive, cut, mode)",
    "exhaustive": {"quick": False, "thorough": False},
    "explanation": "theorems (props/C02.v): for EVERY prefix of EVERY well-formed block stream, read through any source that behaves "
                   "as a cursor over the prefix, the repair loop returns Ok (never Err/Crash, fuel n+1), the output is a finalized "
                   "writer state reached by successful calls only whose stream is a well-formed block list + footer, every output "
                   "file carries an original name and a prefix of its content, files not reported unfinished are complete, "
                   "EndOfOriginalArchiveData only if everything was recovered; correspondence: status, unfinished names and the "
                   "complete re-read (list, hashes, contents) of the archive repaired by the real convert_to_archive equal the "
                   "model's repair_plain / repair_enc on the same bytes; oracle: names subset, prefix, completeness, EndOfData "
                   "clause checked on the real implementation against the generating plan",
    "assumptions": ["theorems are at the block-stream level over a source that refines a cursor (plain EOF at the end of the "
                    "delivered data): the raw and fail-safe encryption layers; read ERRORS from the source (ErrorInFile, "
                    "IOErrorOnNextBlock: compression layer on damaged data) are covered by the correspondence only",
                    "the repaired archive opens normally: by C01's round-trip theorem from `history out` (all writer calls succeeded)",
                    "sha2::Sha256 enters as any function with 32-byte output"],
}
