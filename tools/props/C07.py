CFG = {
    "jobs": lambda tier: [J("prod", "c07")],
    "rule": "production build: (1) groups of 4 archives built in one process from IDENTICAL inputs (same files, same recipient keys) plus 2 built in "
            "fresh processes: symmetric key, archive nonce and ephemeral public key pairwise distinct, key not in the header; (2) archives "
            "(encrypt, encrypt+compress) whose contents and names carry random 24-byte markers: no 10-byte window of any marker after the header; "
            "(3) 1-6 recipients, each recipient's key at a random position among decoy keys opens and returns the files, decoys only / no key fail; "
            "every case non-trivial; distinct = distinct (kind, inputs)",
    "exhaustive": {"quick": False, "thorough": False},
    "explanation": "theorems: any one recipient key at any position among candidates recovers the session key and no non-recipient list does, up to an "
                   "exhibited GCM tag collision (no unforgeability assumption); reader-side tag = writer-side tag; Tie A: key, nonce, wrapping "
                   "generator and ephemeral scalar are drawn from OS-seeded ChaCha generators in the source; correspondence (oracle only): the three "
                   "observable clauses on the real library",
    "assumptions": ["PARTIAL: that getrandom/ChaCha20 output is unpredictable and never repeats, and that AES-CTR masking hides the plaintext, are "
                    "cryptographic / OS facts outside Coq; they are observed (distinct secrets, absent markers), not proved",
                    "Diffie-Hellman commutativity of X25519 is the curve group law (hypothesis of the theorem, trusted mathematics)",
                    "that every plaintext byte is masked before reaching the inner writer is the canonical-form theorem of the encryption writer (C01_enc_writer_canonical)"],
    "level_note": "partial: logic of key wrapping / candidate loop proved; freshness and secrecy are runtime/cryptographic and only observed by the correspondence job; "
                  "trusted: Coq kernel + vm_compute, tools/src2v.py, the Rust harness",
}
