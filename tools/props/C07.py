CFG = {
    "jobs": lambda tier: [J("prod", "c07"),
                          # work package c07rng: model-compared rows (coq/theories/RunC07.v)
                          J("scaled", "c07-model", imports="Base Stream Inst Run RunWRows RunC07", shard=8),
                          J("prod", "c07-cli", script="tools/cli/c07_cli_job.py", needs_repo_bins=["mlar"], timeout=600)],
    "run_modules": ["RunWRows", "RunC07"],
    "rule": "production build: (1) groups of 4 archives built in one process from IDENTICAL inputs (same files, same recipient keys) plus 2 built in "
            "fresh processes: symmetric key, archive nonce and ephemeral public key pairwise distinct, key not in the header; (2) archives "
            "(encrypt, encrypt+compress) whose contents and names carry random 24-byte markers: no 10-byte window of any marker after the header; "
            "(3) 1-6 recipients, each recipient's key at a random position among decoy keys opens and returns the files, decoys only / no key fail; "
            "every case non-trivial; distinct = distinct (kind, inputs)",
    "exhaustive": {"quick": False, "thorough": False},
    "explanation": "theorems: any one recipient key at any position among candidates recovers the session key and no non-recipient list does, up to an "
                   "exhibited GCM tag collision (no unforgeability assumption); reader-side tag = writer-side tag; Tie A: key, nonce, wrapping "
                   "generator and ephemeral scalar are drawn from OS-seeded ChaCha generators in the source; correspondence (oracle only): the three "
                   "observable clauses on the real library",
    "assumptions": ["PARTIAL: that getrandom/ChaCha20 output is unpredictable and never repeats, and that AES-CTR masking hides the plaintext, are "
                    "cryptographic / OS facts outside Coq; they are observed (distinct secrets, absent markers), not proved",
                    "Diffie-Hellman commutativity of X25519 is the curve group law (hypothesis of the theorem, trusted mathematics)",
                    "that every plaintext byte is masked before reaching the inner writer is the canonical-form theorem of the encryption writer (C01_enc_writer_canonical)"],
    "level_note": "partial: key wrapping / candidate loop, freshness relative to an explicit entropy resource, and 'every body byte is keystream-masked' are proved; "
                  "unpredictability of the OS generator and cipher secrecy are cryptographic / runtime facts no executable model exhibits (explicit premises H1-H5); "
                  "trusted: Coq kernel + vm_compute, tools/src2v.py + src2v3_fresh.py, the Rust harness, tools/cli/c07_cli_job.py",
}
CFG["rule"] += ("; c07-model (scaled build, model-compared): (a) 16 (quick) / 80 (thorough) ENCRYPT-only archives of 1-3 files written in 1-5 pieces of boundary sizes around "
                "CIPHERBUF / CHUNK with 0-2 flush calls before every writer call: the bytes after the header == EncLayer.enc_format, under the concrete AES-256-GCM, of the Writer model's "
                "block stream (oracle, aes-gcm crate only: every byte after the header lies in a chunk that authenticates under the configuration's key and nonce ++ BE32(i); names and "
                "contents are in the decrypted stream and no 8-byte window of a name is in the body); (b) 10 / 40 seeds: ChaChaRng::from_seed(seed).random::<[u8;32]>(), "
                ".random::<[u8;8]>() and fill_bytes(32) of a fresh generator == Fresh.key_of / nonce_of / eph_of under the concrete ChaCha20 (oracle: low bytes of the raw output words); "
                "(c) builder-path matrix: 14 fixed + 6 / 40 random sequences of enable_layer / disable_layer / set_layers / add_public_keys (0-2 keys) / with_compression_level (incl. "
                "out-of-range) x {new(), default()}: layer bits, encryption_key(), encryption_nonce() and check() == the builders of Fresh.v folded over the sequence (oracle: key and nonce "
                "unchanged by the builders, not all-zero, pairwise different between all configurations)")
CFG["explanation"] += ("; work package c07rng: randomness is an explicit resource (Fresh.v: a state-passing machine over entropy : nat -> bytes, one global request counter, and the ChaCha20 "
                       "expander): C07_secrets_are_entropy_functions (for ANY trace of processes / threads / builder paths the key and nonce of an archive are fixed functions of one OS "
                       "request, the ephemeral scalar of another, all requests pairwise distinct), C07_fresh_if_entropy_fresh (no repeated key / nonce / ephemeral public key if the OS does "
                       "not repeat and the expansions of the seeds that occurred do not collide), C07_builders_do_not_touch_secrets / C07_builder_sequence_keeps_secrets; nothing in clear: "
                       "C07_body_is_keystream_masked(_layer) (any calls, flush anywhere, any cuts: the body is enc_format of the layer plaintext), C07_write_emits_cipher_only, "
                       "C07_flush_emits_nothing, C07_enc_format_byte, C07_plain_windows_need_keystream_coincidence (an occurrence of a plaintext window needs exactly keystream = window XOR "
                       "plaintext there); Tie A (tools/src2v3_fresh.py -> gen/Src3.v, SrcTie3Fresh.v): draw order in EncryptionConfig::default (one from_os_rng, key then nonce), a generator "
                       "per to_persistent call, ephemeral = first fill_bytes of it, no stored generator, exactly two from_os_rng sites, configurations not clonable and consumed by "
                       "from_config, flush only forwards, every inner.write_all argument of the encryption writer is a cipher output or a tag")
CFG["assumptions"] += ["c07rng hypotheses of C07_fresh_if_entropy_fresh (explicit premises, stated for the B requests of the period considered): the OS generator returns pairwise different seeds; "
                       "key_of / nonce_of / eph_of (ChaCha20 low bytes of words 0-31 / 32-39, bytes 0-31) do not collide on the seeds that occurred; pubk does not collide on the scalars drawn",
                       "c07rng: C07_plain_windows_need_keystream_coincidence exhibits the event an occurrence needs; that it is improbable is AES-CTR's secrecy, not proved",
                       "c07rng not modelled: fork() of a process holding a live configuration, getrandom failure (from_os_rng panics), memory disclosure; the bit-level ChaCha20 / rand "
                       "sampling is bound to the code by job c07-model (b) only"]

# round-4 seeds C07-m7 / C07-m8
CFG["rule"] += ("; one key ring, two archives (8 / 40): a reader configuration loads the header of one encrypted archive, then of another: it must hold the key / nonce of the "
                "one loaded last and read it; c07-cli (production mlar): `mlar create -l encrypt -p A -p B (-p C)` with the public keys given as PEM or DER files in every "
                "combination and order the samples allow: every recipient's private key reads the file back, no other sample key does")
