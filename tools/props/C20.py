CFG = {
    "level_note": "partial: handle machine, callback adapters, extraction and info logic modelled and proved; raw-pointer validity, Box ownership and CStr conversion are outside any executable model and only exercised through dlopen in child processes; trusted: Coq kernel + vm_compute, tools/src2v.py, the Rust harness (capi.rs, capiread.rs) and its oracles",
    "jobs": lambda tier: [
        J("prod", "witness --only C20", needs_repo_bins=["mla-bindings-c"]),
        J("prod", "c20", needs_repo_bins=["mla-bindings-c"], imports="Base Stream Inst Run RunC20", shard=30),
        J("prod", "c20r", needs_repo_bins=["mla-bindings-c"], imports="Base Stream Inst Run RunC20 RunC20Read", shard=40),
    ],
    "run_modules": ["RunC20", "RunC20Read"],
    "rule": "programs of C calls executed against libmla.so (cdylib of /repo/bindings/C, dlopen) each in a child process: "
            "(1,2) C01-style writing plans (1-4 files, 0-7 interleaved pieces, boundary sizes capped at 5 KB, every sixth at 140 KB, levels {0,1,5,9,11}, one or "
            "three recipients) through config/add_public_keys/archive_new/file_new/append/flush/file_close/close with write callbacks accepting "
            "{all, 1 byte, a random part}, read back by the Rust reader and extracted through mla_roarchive_extract with partial-read callbacks; "
            "(3) six misuse programs (NULL at every pointer/handle position of every entry point, D16, reader configuration reused, double close, "
            "use after close, writer refusals), write callback failing at its k-th invocation for k=1..8 and every n/12-th (quick) / every k (thorough), "
            "transient and persistent, EINTR, flush callback failing, extraction read/seek/file-writer/file-callback failures k=1..12, "
            "60 (quick) / 400 (thorough) random programs over the whole alphabet with NULL sprinkled in; every case is non-trivial; distinct = distinct program",
    "exhaustive": {"quick": False, "thorough": False},
    "explanation": "theorems: no program of C calls reaches a crash site (all null checks as written, D16 repair included; the pre-repair model crashes), "
                   "calls on NULL/cleared handles return BadAPIArgument with the state unchanged, archives closed with Success are runs of the Rust writer "
                   "model on the operations of the successful calls, write_all over any acceptance schedule delivers exactly the buffer, a callback "
                   "failure gives an error status except in brotli's stream finish and for code 4 (both refuted with witnesses = known findings); "
                   "correspondence: status and NULL-ness of all ten handle variables after every call equal the model's; oracle: names/bytes/SHA-256 "
                   "through the Rust reader, exact bytes per extraction sink, error status when a callback failed, no abnormal child exit",
    "assumptions": ["non-null pointers passed by the caller are valid and of the right handle kind (raw-pointer validity is not modelled)",
                    "callbacks never report more bytes than they were shown",
                    "the compression/encryption layers between the writer and the callback enter the model as the per-call observation "
                    "'a callback failed during this call' (C13/C14 cover the layers themselves); SerializationError and IOError are one class when a callback failed",
                    "the reading side (mla_roarchive_extract/info) is modelled for its handle logic only; its outcome status is an input"],
    "trusted_base": ["dlopen/dlsym FFI declarations of harness/src/capi.rs mirroring bindings/C/mla.h"],
}
