CFG = {
    "jobs": lambda tier: [
        J("prod", "c15", timeout=2400),
        J("scaled", "c15-dims", imports="Base Stream Inst Run RunC15", shard=32),
        J("prod", "c15-blocks", timeout=1200),
        J("prod", "c15-cli", script="tools/cli/c15_cli_job.py", needs_repo_bins=["mlar"], timeout=1200),
        # the reading side at the command line (extract, extract with a failing output, repair) and linear extraction through the C interface
        J("prod", "c15-xcli", script="tools/cli/c15_extract_job.py", needs_repo_bins=["mlar"], timeout=1200),
        J("prod", "c15-capi", needs_repo_bins=["mla-bindings-c"], timeout=1200),
    ],
    "run_modules": ["RunC15"],
    "rule": "c15: production build with a counting global allocator: for each of the 4 layer combinations and each of {write to a counting sink, repair from a "
            "file into a counting sink, linear extraction from a file into counting sinks}: an archive of three interleaved files in exactly 12 runs, fed "
            "in 1 MiB appends from a generator, of 24 MiB and of 96 MiB (thorough: 384 MiB); peak live heap above the live heap at entry is measured for "
            "both sizes; the same with three runs only, each handed over in ONE append call (one content block per file, 8 / 32 MiB each: layers none and compress+encrypt; thorough: all four); every case is non-trivial; distinct = distinct (operation, layers, block shape). "
            "c15-dims (scaled name limit): 250 (thorough 1500) generated call sequences on the real layer-less ArchiveWriter — 1-6 files started up front or lazily "
            "(names incl. empty / maximal / multi-byte; 1 in 12 over-long or duplicate, refused), 0-5 appends per file randomly interleaved, append sizes "
            "{0, 1-64, 1000-5000, 50000-300000} bytes, add_file 1 in 6, occasional flush and calls on unknown ids, files left open for the epilogue 1 in 8 — "
            "plus three fixed sequences (an end call recording a run without any append; one 4 MB append; interleaved 70/90 KB appends) and one case "
            "checking the nominal sizes of the measure against size_of of the Rust types; non-trivial = at least one byte appended; distinct = distinct call sequence. "
            "c15-xcli: peak resident memory of the mlar process (wait4) for `extract` (linear form), `extract` whose output files fail beyond 32 KiB (RLIMIT_FSIZE, SIGXFSZ ignored), "
            "`repair` and `repair` of the archive cut in half, on a member of 6 000 and of 60 000 (thorough 240 000) content blocks of 512 bytes under a 2.8 KB name: peak(big) <= peak(small) + 8 MiB; "
            "c15-capi: mla_roarchive_extract of libmla.so in a child process whose callbacks read a 4 MiB / 48 MiB (thorough 160 MiB) archive from a FILE and count what the writers receive, with a seek "
            "callback and with a NULL one (refused today), layers none and compress: VmHWM(big) <= VmHWM(small) + 8 MiB; "
            "c15-blocks (production build, counting allocator): layers {none, compress+encrypt} x {write, repair, linear extraction} of an archive holding ONE FileContent block of 4 MiB "
            "and of 48 MiB (thorough: 192 MiB) written by a single append_file_content call fed by a generator",
    "exhaustive": {"quick": True, "thorough": True},
    "explanation": "theorems: chunk cache <= CHUNK in every reachable reader state, repair cache <= CACHE, copy pieces <= 8 KiB, writer tables depend on "
                   "the shape of the call sequence only (not on the bytes per append); an explicit size measure (theories/MemSize.v) with bounds over EVERY "
                   "input: archive writer wmem <= 208 + 208 per file started + 8 per run + name bytes, runs + open <= 2 * files + append calls (an append of any "
                   "size adds at most one run); encryption writer holds <= CHUNK, encrypts <= min(CIPHERBUF, CHUNK) per write; compression writer buffers <= BLOCK and "
                   "its size table has T/BLOCK-1..T/BLOCK entries after T bytes (the one data-proportional term: 4 bytes per block, stated as "
                   "C15_comp_sizes_table_growth); linear extraction peak <= fixed + (32 + FNMAX) per FileStart parsed; repair loop state after any number of "
                   "blocks <= fixed + CACHE + (384 + 2 FNMAX) per output file + 8 per run, a FileContent block of any length adds at most one run. "
                   "correspondence c15 (oracle only): peak(big) <= peak(small) + 1 MiB + 16 bytes per 4 MiB block (the compression size table, the one "
                   "structure that grows with the data) and peak <= 80 MiB. correspondence c15-dims: results of every call, per-file number of offsets, "
                   "number of files, runs, name bytes and the measure, read from the footer of the real archive by the harness's own parser, equal the "
                   "writer model's on the same calls with appends cut down to 1-3 bytes (C15_writer_mem_shape_only); oracle: the real writer on the "
                   "cut-down calls gives the same results and dimensions, offsets <= 2 * files + append calls, no panic, size_of::<String / FileInfo / "
                   "Sha256 / ArchiveWriterState / HashMap>() match the constants of the measure. correspondence c15-blocks (oracle only): the peak live heap "
                   "does not follow the size of a single FileContent block (same 1 MiB + 16 bytes per 4 MiB tolerance): the implementation side of "
                   "C15_repair_content_block_one_run / C15_copy_pieces_bounded / a single append of any size",
    "assumptions": ["PARTIAL: the process heap (allocator, Vec growth, brotli encoder/decoder state of ~19 MB / ~7 MB at window 22) is measured, not proved",
                    "the number of files and of non-contiguous runs is the same at both sizes, as the property's bound allows a term proportional to them",
                    "the measure counts nominal 64-bit sizes of the fields listed in theories/MemSize.v; spare capacity of Vec / HashMap (a constant factor), "
                    "allocator headers and the stack are not counted; Sha256 / GHASH / brotli states are fixed-size objects the model stands for by the bytes "
                    "they absorbed (not counted by length)",
                    "the compression writer's size table grows by 4 bytes per BLOCK (4 MiB) of data: the property's bound ignores this term"],
    "level_note": "partial: buffer and table bounds proved on the model; the live heap is only measured by the job; trusted: Coq kernel, the harness and its counting allocator, the correspondence list of MemSize.v (which Rust field each component of the measure stands for)",
}

# round-3 seeds C15-m5 / C15-m6
CFG["rule"] += ("; c15: every other read of the generator ends on an odd size (a pipe-like source: reads end anywhere); c15-cli (production mlar binary): peak resident "
                "memory (wait4 rusage) of `mlar create` archiving a named pipe fed with 8 MiB and with 72 MiB (thorough 160 MiB; also with compression) and a regular "
                "file of the same sizes: peak(big) <= peak(small) + 8 MiB")
