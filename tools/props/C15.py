CFG = {
    "jobs": lambda tier: [J("prod", "c15", timeout=2400)],
    "rule": "production build with a counting global allocator: for each of the 4 layer combinations and each of {write to a counting sink, repair from a "
            "file into a counting sink, linear extraction from a file into counting sinks}: an archive of three interleaved files in exactly 12 runs, fed "
            "in 1 MiB appends from a generator, of 24 MiB and of 96 MiB (thorough: 384 MiB); peak live heap above the live heap at entry is measured for "
            "both sizes; every case is non-trivial; distinct = distinct (operation, layers)",
    "exhaustive": {"quick": True, "thorough": True},
    "explanation": "theorems: chunk cache <= CHUNK in every reachable reader state, repair cache <= CACHE, copy pieces <= 8 KiB, writer tables depend on "
                   "the shape of the call sequence only (not on the bytes per append); correspondence (oracle only): peak(big) <= peak(small) + 1 MiB + "
                   "16 bytes per 4 MiB block (the compression size table, the one structure that grows with the data) and peak <= 80 MiB",
    "assumptions": ["PARTIAL: the process heap (allocator, Vec growth, brotli encoder/decoder state of ~19 MB / ~7 MB at window 22) is measured, not proved",
                    "the number of files and of non-contiguous runs is the same at both sizes, as the property's bound allows a term proportional to them"],
    "level_note": "partial: buffer and table bounds proved on the model; the live heap is only measured by the job; trusted: Coq kernel, the harness and its counting allocator",
}
