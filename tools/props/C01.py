# C01 — copied from tools/propcfg.py (this file takes precedence over the entry there) with the two
# jobs of work package "wrows" added: c01-encw (EncryptionLayerWriter call by call vs EncLayer.ew_*),
# c01-aw (whole archives of the real ArchiveWriter vs Archive.archive_write, byte for byte).
CFG = {
    "jobs": lambda tier: [
        J("scaled", "c01", imports="Base Stream Inst Run RunHistStack"),
        J("scaled", "c01-header", imports="Base Stream Inst Run RunC01"),
        J("prod", "c01-header", imports="Base Stream Inst Run RunC01"),
        # work package wrows: direct model=implementation rows for the WRITER side
        J("scaled", "c01-encw", imports="Base Stream Inst Run RunWRows", shard=20),
        J("scaled", "c01-aw", imports="Base Stream Inst Run RunWRows", shard=8),
        J("prod", "c03-lengths"),
    ],
    "run_modules": ["RunC01", "RunHistStack", "RunWRows", "RunWRowsProofs"],
    "rule": "scaled constants: generated writing plans (1-4 files, 0-7 pieces of boundary sizes around CIPHERBUF/CHUNK/BLOCK, "
            "random interleaving, names incl. empty/unicode/max-length, 4 layer combinations, levels {0,1,5,9,11}, 1-3 recipients, "
            "reader holding any one key), plus EVERY interleaving of up to 5 (quick) / 6 (thorough) pieces of two files with piece sizes {0, 3} "
            "(layer-less; files started up front, and for shorter sequences also started lazily; 1704 / 6824 plans); non-trivial = at least one content byte; distinct = distinct (plan, read history); c01-header (both flavours): 72 (216) real archives x 4 layer "
            "combinations x 1-3 recipients: header bytes vs the model's dump_header (oracle mode for the ephemeral scalar), and read_header + load_config "
            "with four candidate key lists vs the library",
    "exhaustive": {"quick": False, "thorough": False},
    "explanation": "",
    "assumptions": [],
}
CFG["rule"] += ("; c01-encw (scaled): 150 (quick) / 900 (thorough) call sequences on the real EncryptionLayerWriter with a fixed random key and nonce "
                "(mla_verif constructor): 0-6 calls per phase of single Write::write (accepted count observed), write_all, flush, with buffer sizes "
                "{0, 1, 2, CIPHERBUF-1..+1, 2*CIPHERBUF, CHUNK-CIPHERBUF, CHUNK-1..+1, CHUNK+CIPHERBUF, 2*CHUNK-1..+1, 3*CHUNK, 3*CHUNK+5, random}, then finalize; "
                "one sequence in seven continues writing after the finalize and finalizes again; the first 34 are a single write / write_all of each boundary size; "
                "c01-aw (scaled): 64 (quick) / 400 (thorough) generated plans (as c01, at most 1400 content bytes) over the 4 layer combinations, levels {0,1,5,9,11}, 1-3 recipients, "
                "the block stream and the compressed stream handed to the layer models cut at 0-4 random places")
CFG["explanation"] += ((" || " if CFG["explanation"] else "") + "wrows: c01-encw compares, call by call, the accepted count of every Write::write, the number of bytes the inner writer holds after every call "
                       "and the complete wire of the real EncryptionLayerWriter with EncLayer.ew_write / ew_write_all / ew_finalize (ew_renew) evaluated under the concrete "
                       "AES-256-GCM of Concrete/ (theorem C01_rows_enc_writer: on write_all + finalize these rows end with the bytes of EncWriter.ew_archive, the encryption "
                       "branch of Archive.lower_write); its oracle cuts the wire into chunks from the accepted counts alone and requires every chunk to authenticate and decrypt "
                       "with the aes-gcm crate under nonce = archive nonce ++ BE32(chunk index) to the bytes accepted. c01-aw compares the COMPLETE archive bytes of the real "
                       "ArchiveWriter (header, key wrap, layers, block stream, footer) with Archive.archive_write: X25519 in oracle mode (ephemeral public key and shared secrets "
                       "are inputs; C01_rows_archive_write: this is archive_write with any pubk / dh), the HashMap iteration order observed in the real footer passed as the model's "
                       "`order` (C01_rows_order_is_permutation), brotli's compressor as a table from block plaintext to the real compressed block (cut apart by the sizes footer, "
                       "decoded by the brotli crate directly); its oracle is the independent FORMAT.md decoder returning exactly the files written")

# round-4 seeds C01-m7 / C01-m8
CFG["rule"] += ("; c03-lengths (production constants, shared with C03): one file sized so that the encryption layer's plaintext takes every length in [k*CHUNK-8, k*CHUNK+24], "
                "k = 1, 2 (thorough 3) - the archive opens, lists and reads back what was written; recipients are handed to the configuration in one or in two add_public_keys calls")
