"""C19 — seeded key generation and key derivation (mlar keygen --seed / mlar keyderive)."""
CFG = {
    "jobs": lambda tier: [
        J("prod", "c19", script="tools/keys/c19_job.py", needs_repo_bins=["mlar"], timeout=2400),
    ],
    "run_modules": ["RunC19"],
    "rule": "real `mlar keygen --seed S` for S in {'', ascii, unicode, 10 KiB random text} and real `mlar keyderive` for parents in "
            "{every private key of /repo/samples (X25519/Ed25519, DER/PEM), keys written by `mlar keygen` with and without seed, "
            "OpenSSL-style clamped keys in DER and PEM, a PEM file holding two PRIVATE KEY blocks (the parent key is the first)} x path lists of length 1-5 over {'', 'a', 'App X', 'v1.2.3', unicode, "
            "'-x', '--path', ' ', the salt itself, 300 octets, random unicode} incl. repeated paths; quick: 7 seeds and every parent once "
            "plus one 3-path case per parent class; thorough: 41 seeds, 120+ derivations; plus 3 CLI panics (no path, not a key); "
            "every case is non-trivial; distinct = distinct (seed) / (parent file, path list)",
    "exhaustive": {"quick": False, "thorough": False},
    "explanation": "theorems: derivation on stored octets is a fold (compose for all path lists), file-level compose unconditional "
                   "(panics included), outcome depends on the input file only through the parsed secret, public file parses to "
                   "X25519(clamp private) for keygen and keyderive outputs (through the Keys.v DER/PEM parsers), keygen = README, "
                   "keyderive = README iff every parent on the way is stored clamped (D18 refutation witnesses by vm_compute); "
                   "Tie A: salt, digest[0..32], lengths, hash/generator names, DER prefixes; correspondence: private DER and public "
                   "PEM written by the real binary equal byte for byte the concrete Coq model's (SHA-512, HKDF-SHA512, ChaCha20, "
                   "X25519 evaluated in Coq), and the Coq README model equals an independent Rust implementation of the README",
    "assumptions": ["rand_chacha 0.9 ChaCha20Rng: 64-bit block counter from 0, stream 0, one fill_bytes (Concrete/ChaCha20.v, 6 KATs from the crate)",
                    "x25519-dalek 2.0.1 StaticSecret stores and returns the octets unclamped; PublicKey::from clamps",
                    "the seed and the paths are valid UTF-8 without NUL (they are command-line arguments)"],
    "trusted_base": ["tools/keys/c19_job.py (case generation, independent DER/PEM reading, oracles) and harness c19-tester (README re-implementation)"],
}
