CFG = {
    "jobs": lambda tier: [J("prod", "c17", script="tools/cli/c17_job.py", needs_repo_bins=["mlar"], timeout=2400)],
    "rule": "production build of the mlar binary from the working tree: 14 (quick) / 160 (thorough) pipelines; each draws 1-6 input files (nesting, "
            "spaces, unicode, empty files, sizes {0,1,2,100,999..1001,4095..4097,65536,131071..131073,262161} (thorough also 4 MiB-1..+1) or random, "
            "zeros / text / random content), layers {none, compress, encrypt, both}, level {0,1,5,9,11}, 1-3 recipients of the sample keys; then "
            "create, list, list -vv, cat of every file, extract whole (linear) and one name at a time, to-tar, convert to another layer/key choice "
            "(all of the above again on the converted archive), repair of the intact archive, and the key misuse cases; every pipeline is non-trivial; "
            "distinct = distinct pipeline",
    "exhaustive": {"quick": False, "thorough": False},
    "explanation": "theorems: what the commands copy out of an archive the writer produced is exactly the bytes given (8 KiB reads), sizes and hashes "
                   "true, linear form delivers to chosen names only, missing / wrong key never yields a session key (up to tag collision); Tie A: key "
                   "policy of open_mla_file; correspondence (oracle only): paths listed == given, cat / both extract forms / to-tar / convert / repair "
                   "give back each file's bytes, list -vv shows the SHA-256 and a size consistent with the true size, wrong / missing key and key on "
                   "an unencrypted archive exit non-zero without output content",
    "assumptions": ["PARTIAL: clap argument parsing, exit-status plumbing, tar header encoding, humansize rounding and the file system are not modelled; "
                    "they are exercised by the job only",
                    "the selected-files form of `extract` takes one name per invocation (clap single value); the job extracts the names one at a time"],
    "level_note": "partial: library-level composition proved, process / file-system behaviour only observed; trusted: Coq kernel, tools/src2v.py, the job script tools/cli/c17_job.py",
}
