CFG = {
    "run_modules": ["RunC17", "RunC17Info"],
    "jobs": lambda tier: [J("prod", "c17", script="tools/cli/c17_job.py", needs_repo_bins=["mlar"], timeout=2400,
                            imports="Base Stream Inst Run RunC17 RunC17Info", shard=3)],
    "rule": "production build of the mlar binary from the working tree. (1) ORACLE pipelines, 14 (quick) / 160 (thorough): each draws 1-6 input files (nesting, backslashes in names, paths given as arguments or - every third archive - on standard input with / without a final newline, "
            "spaces, unicode, empty files, sizes {0,1,2,100,999..1001,4095..4097,65536,131071..131073,262161} (thorough also 4 MiB-1..+1) or random, "
            "zeros / text / random content), layers {none, compress, encrypt, both}, level {0,1,5,9,11}, 1-3 recipients of the sample keys; then "
            "create, list, list -vv, cat of every file, extract whole (linear) and one name at a time, to-tar, convert to another layer/key choice "
            "(all of the above again on the converted archive), repair of the intact archive, and the key misuse cases. (2) MODEL-COMPARED cases "
            "(work package cli17), 9+6 (quick) / 40+40 (thorough) small archives with names from a pool of special shapes (> 100 bytes, exactly 99/100 "
            "bytes, cut inside a UTF-8 character, absolute, unicode, spaces, leading ./, //, /./, `..` short and long) and sizes around 0/64/512/1000: "
            "(a) layer-less archives: the Coq command model READS THE REAL ARCHIVE BYTES and its list lines, list -vv sizes + stored hashes, cat output "
            "and exit status for each name and for a missing name, and the to-tar output BYTE FOR BYTE are compared with the real binary's; convert and "
            "repair into a layer-less archive compared as member sets (model reader over the model's output vs list + cat of the real output); a key "
            "given for the unencrypted archive: open status and, per command (list, cat -o, cat, to-tar, convert, repair), exit status and what is left "
            "in a pre-existing output file (untouched / truncated / written) — `repair` included since repair 9ea79db; `cat -o` / `to-tar -o` onto an existing LONGER file (result = exactly the new output); `create <dir>` of a directory holding a symbolic link to a longer regular file (+ a link given explicitly), model-compared like the others; (b) any layer combination: the outputs the theorems predict from the "
            "input files (sorted names, sizes, SHA-256 computed in Coq, cat, tar bytes) vs the real binary on encrypted / compressed archives; missing "
            "key on encrypted archives: per-command exit status and output effect; distinct = distinct pipeline / case",
    "exhaustive": {"quick": False, "thorough": False},
    "explanation": "theorems (props/C17.v): for an archive made by cmd_create from any files with any configuration (premises of C01_archive_roundtrip), "
                   "opened with any candidate key list holding a recipient key: list = the sorted given paths; list -vv = true size and H(bytes); cat of any "
                   "argument list = the bytes in argument order (missing names add nothing, exit 0); to-tar = Tar.tar_of, which an independent tar reader "
                   "written in Coq reads back as the (tar name, bytes) list; convert to any configuration = create of the name-sorted files with that "
                   "configuration, and the converted archive lists / returns the same; both extract forms leave the same bytes for benign names (C12 + C16); "
                   "a failing open (key for an unencrypted archive, missing key, wrong key) leaves the output untouched for to-tar / convert / repair / "
                   "extract and an EMPTY created file for cat -o (the destination is created before the open); Tie A: key policy of open_mla_file, order of "
                   "open / output-creation events per command, cat's and to-tar's swallowed errors, tar crate version. to-tar for ANY names: the tarball read back = exactly the members whose path the tar crate accepts, each with its own bytes "
                   "(C17_to_tar_refused_member_leaves_nothing, C17_to_tar_reads_back; dry run of 6302e72, Tie A CLI_to_tar_dry_run_before_append); repair refuses a key for "
                   "an unencrypted archive (C17_repair_key_for_unencrypted_fails; Tie A CLI_repair_refuses_key_on_unencrypted_before_reading); the old code of both is "
                   "kept as refuted models (…_old_code_refuted). Still true: a member with a `..` component is omitted with exit 0 "
                   "(C17_to_tar_dotdot_member_omitted, known finding K17-totar-dotdot-omitted); cat of a missing name exits 0",
    "assumptions": ["PARTIAL: clap argument parsing, key-file reading, stderr, humansize rounding (sizes >= 1000 bytes are checked for consistency only), the glob forms, "
                    "stdin input of create, the directory walk (the flattened list is the model's input) and the creation of a missing output directory are not modelled",
                    "repair of the intact archive: the command is modelled for all four layer combinations of the source; the theorem that its output holds every "
                    "file is proved at the block-stream level for sources without compression (C17_repair_intact_preserves_files_partial); model = implementation is "
                    "checked on layer-less archives",
                    "the selected-files form of `extract` and `cat` take one name per invocation (clap single value); the model takes lists",
                    "tar crate 0.4.44 is modelled (Tar.v); Tie A pins the version in Cargo.lock"],
    "level_note": "partial: command logic modelled and proved as compositions of the library theorems; process / clap / file-system plumbing observed; trusted: Coq kernel, tools/src2v.py, the job script tools/cli/c17_job.py",
}
