"""C08: untrusted input never crashes, hangs or exhausts memory."""

CFG = {
    "jobs": lambda tier: [
        J("scaled", "witness --only C08"),
        J("prod", "witness --only C08"),
        J("scaled", "c08", shard=12, timeout=2400, imports="Base Stream Inst Run RunC08"),
        J("prod", "c08", timeout=2400),
        J("scaled", "c08-stack", imports="Base Stream Inst Run RunC08Stack", shard=8),
        J("scaled", "c13-hdr", imports="Base Stream Inst Run RunHdr"),
    ],
    "rule": "valid archives < 2 KiB in all 4 layer combinations (scaled and production constants), then 1-3 structured mutations each: "
            "truncation at any length, bit flip, byte substitution {00,01,7f,80,fe,ff}, 4/8-byte field overwrite at any offset with "
            "{0,1,2^31,2^32-1,2^63,2^64-1,cur+-1,len,len+1,rest+-1}, footer / size-table splice between two archives, arbitrary splice, "
            "duplicated slice (half of the positions in the trailing-length region / last 64 bytes); EXHAUSTIVE sweep of every offset of the "
            "last 64 bytes x width {4,8} x 10 values on unencrypted archives; attacker-owned bodies (mutated layer-less block stream + footer "
            "re-compressed with the real CompressionLayerWriter and/or re-encrypted with aes-gcm under the archive's own key) under every "
            "combination; random tails after a valid header. quick: 30k/15k mutants (scaled/prod) + 6k owned + 2k random; thorough: 200k + 20k + 8k "
            "per flavour. Each input: open, list, per name get_hash and get_file read to end with buffers {1,7,4096}, linear extraction of all, "
            "the same reader used again, drop, repair (both modes when encrypted). Cases run in child processes (stack overflow = abnormal exit "
            "attributed to the running case), 8 MiB-stack thread, 5 s watchdog, counting global allocator. non-trivial = body non-empty; "
            "distinct = distinct input bytes. c08-stack (scaled, MODEL-COMPARED): 220 / 900 compression-over-encryption streams (half of them an exact multiple of the block size, half incompressible so that a compressed block spans several encryption chunks) with the tag of 1-2 chunks altered (six times in seven only chunks before the compression footer, so that the stack opens), 23-op histories of reads and seeks of every kind continued after errors, seeks to exactly the end; an instrumented LayerReader between the real compression and encryption readers records every read (bytes asked, bytes delivered) and seek the compression layer issues. Oracle: no panic, successful reads return the written bytes, the decoder law NoNmiAtEnd observed on the real brotli decoder (random slicing, room 0 included)",
    "exhaustive": {"quick": False, "thorough": False},
    "explanation": "theorems (Total*.v): over ANY byte string, block parser, footer reader, open, get_hash, get_file, file reads, linear extraction, "
                   "encryption layer reads/seeks and whole operation histories never reach a Crash site of the model and never run out of the "
                   "model's fuel (loop iterations bounded by the number of offsets / the input length); footer allocation bounded by the input "
                   "length. correspondence: no panic / abort / hang / allocation above 8 MiB (40 MiB with compression; 64 MiB at production "
                   "constants) + 64*|input| on every generated input, and on a sample (layers none / encrypt, scaled) the outcome rows of "
                   "hist_plain / hist_enc / repair_plain / repair_enc equal the implementation's",
    "run_modules": ["RunC08", "RunC08Stack", "RunHdr"],
    "assumptions": ["fewer than 2^32 chunks per encrypted stream (input < 2^32 * (CHUNK+TAG) bytes, 512 TiB at production constants)",
                    "the compression reader is modelled with the decoder as a function of the whole compressed block (TotalComp*.v: totality over any bytes and any sizes table); the brotli decoder itself is outside the model (D22 lives there) and is covered by the direct oracle only",
                    "c08-stack is model-compared against the STREAMING model of the compression reader (theories/CompLayerS.v: brotli::Decompressor<Take<R>> as written in brotli-decompressor 4.0.2 - input buffer of min(csize, BLOCK) bytes (4096 when 0), refilled by ONE inner read of (buffer length - kept bytes) bytes only when a decoder call asked for input without producing output, copy_to_front as in the crate; io::copy skip in chunks of 8192) with brotli's decoder tabulated per case from the real crate (for every prefix of every compressed block the number of plaintext bytes produced; greedy table-driven step RunFsComp.gstep): per operation the Ok/Err class, value, stream_position and bytes equal the real stack's, AND the sequence of inner reads/seeks (sizes asked and delivered) of every operation that returned Ok equals the one recorded between the real layers - so the read-ahead (refill size) is compared exactly. The Empty placeholder is observed through the operations that follow an error (seek(Start) answers WrongReaderState iff Empty; streams that are a multiple of the block size end with seek(Start(len)), which performs no inner I/O). The log of an operation that failed is not compared (the model has dropped its inner layer with the log)",
                    "theorems on the streaming model (props/C08.v, C08_comp_stream_*): totality of read / seek over an inner stream that may return Err at any read or seek, any bytes, any SizesInfo, any decoder step respecting its buffers (DstepBounded); after an Err the reader is Empty inside the invariant and later calls are total; error timing: a read whose bytes are decodable from input already pulled succeeds without touching the inner stream, a starved read issues one refill of min(refill_want, Take limit) bytes and returns that read's error. props/C11.v: under DecoderLaws + NoNmiAtEnd + the block table being the decoder's, the streaming reader refines a cursor over the plaintext and agrees with the whole-block model on read-until-n and seeks",
                    "allocation is measured, not proved, for the implementation; the model bound is on the footer (the only input-sized allocation above the layers)"],
}

# work package hdrsrc
CFG["rule"] += ("; c13-hdr (scaled): the header stage alone (ArchiveHeader::from) on every truncation of a header and on hostile headers (magic, "
                "version, Option tag, layers, key count up to 2^64-1) through short-read sources: no panic, error class and bytes consumed == model")
CFG["explanation"] += (" || header (props/C08.v C08_header_total): over ANY bytes and any source refining a cursor over them the streamed header read "
                "ends in Ok or one of UnexpectedEof / WrongMagic / UnsupportedVersion / DeserializationError, never a Crash site, never out of the "
                "model's fuel (the key-table loop is bounded by the bincode limit: 48 bytes are charged per entry), consumes at most 7 + limit bytes, "
                "and an accepted header's key table is at most the limit")
