"""C08: untrusted input never crashes, hangs or exhausts memory."""

CFG = {
    "jobs": lambda tier: [
        J("scaled", "witness --only C08"),
        J("prod", "witness --only C08"),
        J("scaled", "c08", shard=12, timeout=2400, imports="Base Stream Inst Run RunC08"),
        J("prod", "c08", timeout=2400),
        J("scaled", "c08-stack"),
        J("scaled", "c13-hdr", imports="Base Stream Inst Run RunHdr"),
    ],
    "rule": "valid archives < 2 KiB in all 4 layer combinations (scaled and production constants), then 1-3 structured mutations each: "
            "truncation at any length, bit flip, byte substitution {00,01,7f,80,fe,ff}, 4/8-byte field overwrite at any offset with "
            "{0,1,2^31,2^32-1,2^63,2^64-1,cur+-1,len,len+1,rest+-1}, footer / size-table splice between two archives, arbitrary splice, "
            "duplicated slice (half of the positions in the trailing-length region / last 64 bytes); EXHAUSTIVE sweep of every offset of the "
            "last 64 bytes x width {4,8} x 10 values on unencrypted archives; attacker-owned bodies (mutated layer-less block stream + footer "
            "re-compressed with the real CompressionLayerWriter and/or re-encrypted with aes-gcm under the archive's own key) under every "
            "combination; random tails after a valid header. quick: 30k/15k mutants (scaled/prod) + 6k owned + 2k random; thorough: 200k + 20k + 8k "
            "per flavour. Each input: open, list, per name get_hash and get_file read to end with buffers {1,7,4096}, linear extraction of all, "
            "the same reader used again, drop, repair (both modes when encrypted). Cases run in child processes (stack overflow = abnormal exit "
            "attributed to the running case), 8 MiB-stack thread, 5 s watchdog, counting global allocator. non-trivial = body non-empty; "
            "distinct = distinct input bytes. c08-stack (scaled): 220 / 900 compression-over-encryption streams (half of them an exact multiple of the block size) with the tag of 1-2 chunks altered, 22-op histories of reads and seeks of every kind continued after errors, seeks to exactly the end: no panic, successful reads return the written bytes",
    "exhaustive": {"quick": False, "thorough": False},
    "explanation": "theorems (Total*.v): over ANY byte string, block parser, footer reader, open, get_hash, get_file, file reads, linear extraction, "
                   "encryption layer reads/seeks and whole operation histories never reach a Crash site of the model and never run out of the "
                   "model's fuel (loop iterations bounded by the number of offsets / the input length); footer allocation bounded by the input "
                   "length. correspondence: no panic / abort / hang / allocation above 8 MiB (40 MiB with compression; 64 MiB at production "
                   "constants) + 64*|input| on every generated input, and on a sample (layers none / encrypt, scaled) the outcome rows of "
                   "hist_plain / hist_enc / repair_plain / repair_enc equal the implementation's",
    "run_modules": ["RunC08", "RunHdr"],
    "assumptions": ["fewer than 2^32 chunks per encrypted stream (input < 2^32 * (CHUNK+TAG) bytes, 512 TiB at production constants)",
                    "the compression reader is modelled with the decoder as a function of the whole compressed block (TotalComp*.v: totality over any bytes and any sizes table); the brotli decoder itself is outside the model (D22 lives there) and is covered by the direct oracle only",
                    "c08-stack is oracle-only: on an encrypted stream with an unverifiable chunk the model reports the inner error when the decompressor is created, the code at the first read reaching the chunk",
                    "allocation is measured, not proved, for the implementation; the model bound is on the footer (the only input-sized allocation above the layers)"],
}

# work package hdrsrc
CFG["rule"] += ("; c13-hdr (scaled): the header stage alone (ArchiveHeader::from) on every truncation of a header and on hostile headers (magic, "
                "version, Option tag, layers, key count up to 2^64-1) through short-read sources: no panic, error class and bytes consumed == model")
CFG["explanation"] += (" || header (props/C08.v C08_header_total): over ANY bytes and any source refining a cursor over them the streamed header read "
                "ends in Ok or one of UnexpectedEof / WrongMagic / UnsupportedVersion / DeserializationError, never a Crash site, never out of the "
                "model's fuel (the key-table loop is bounded by the bincode limit: 48 bytes are charged per entry), consumes at most 7 + limit bytes, "
                "and an accepted header's key table is at most the limit")
