#!/usr/bin/env python3
"""Tie A, level 1 for the cryptographic glue (work package cryptoT): regenerate coq/gen/Src3g.v.

Translated statement by statement (parser: tools/rustmini.py) into Gallina:

  mla/src/crypto/aesgcm.rs   consts BLOCK_SIZE TAG_LENGTH KEY_SIZE NONCE_AES_SIZE, struct AesGcm256,
                             AesGcm256::{new, encrypt, into_tag, decrypt_unauthenticated, decrypt}
  mla/src/crypto/ecc.rs      consts DERIVE_KEY_INFO ECIES_NONCE, structs KeyAndTag / MultiRecipientPersistent,
                             derive_key, MultiRecipientPersistent::count_keys,
                             store_key_for_multi_recipients, retrieve_key
  (mla/src/crypto/hash.rs `HashWrapperReader::read` is translated by tools/src2v2.py: Src2.v / Builders.v.)

theories/SrcTie3Gcm.v / SrcTie3Ecies.v prove the generated functions EQUAL to the model (Gcm.gcm_new,
gcm_encrypt_piece, gcm_into_tag, gcm_decrypt_unauth, gcm_decrypt; Ecies.derive_key, store_key, retrieve_key)
for every input, and carry the C06 / C07 / C03 theorems onto the translated code.

TRUSTED PRIMITIVE TABLE (what a call into a dependency is taken to mean; everything else is translated or refused)
  crate `aes`
    Aes256::new(GenericArray::from_slice(key))      -> Aes256_new key      (panics unless key.len() = 32: Crash site_len)
    aes.encrypt_block(&mut b)                       -> b := E key b        (the model's abstract block function E, keyed)
  crate `ctr`   (type Aes256Ctr = ctr::Ctr128BE<Aes256>; record Ctr = (key, iv, byte position))
    Aes256Ctr::new(key.into(), &iv.into())          -> Ctr_new key iv      (position 0)
    c.seek(p)                                       -> Ctr_seek c p        (byte position := p)
    c.apply_keystream(buf)                          -> Ctr_apply_keystream c buf = (position += len buf,
                                                       buf xor Gcm.ks_range (E key) iv position (len buf)):
                                                       key-stream block k is E(be128(int(iv) + k mod 2^128)), the whole
                                                       16-byte block is ONE big-endian counter (Ctr128BE).  With
                                                       iv = nonce || 00000001 and seek(16), data starts at counter 2.
  crate `ghash` (record GHash = (key H as a number, accumulator Y))
    GHash::new(&k)                                  -> GHash_new k         (H = block_to_N k, Y = 0)
    g.update(slice::from_ref(B)) / g.update(&[B])   -> GHash_update1 g B   (Y := (Y xor B) . H, `.` = the abstract gmul)
    g.update_padded(data)                           -> GHash_update_padded g data  (16-byte blocks of data, the last one
                                                       zero padded = Gcm.gh_update_padded)
    g.finalize() / g.clone().finalize()             -> GHash_finalize g    (the 16 bytes of Y)
  crate `generic-array`
    GenericArray::default()                         -> zeros 16   (both uses are inferred to GenericArray<u8, U16>: the
                                                       AES block and the GHash block)
    GenericArray::from_slice(x) / x.as_slice().into() as a GHash block -> as_block x  (panics unless x.len() = 16: Crash site_len)
  crate `subtle`
    a.ct_eq(&b).unwrap_u8() == 1                    -> ct_eq a b = bytes_eqb a b  (slices: equal length and contents)
  crate `x25519-dalek`
    s.diffie_hellman(p)                             -> dh s p  (abstract);  PublicKey::from(&secret) -> pubk secret (abstract)
    StaticSecret::from(bytes), PublicKey::from(bytes), .as_bytes(), *array -> the bytes themselves (clamping is inside dh / pubk)
  crate `hkdf`
    Hkdf::<Sha256>::new(salt, ikm)                  -> hkdf_extract salt ikm  (abstract PRK; salt: None / Some bytes)
    h.expand(info, &mut out)?                       -> Hkdf_expand h info out = Err when 255*32 < out.len(), else
                                                       out := hkdf_expand h info (len out)  (abstract)
  crate `rand`
    csprng.fill_bytes(&mut b)                       -> (csprng', b) := rng_fill csprng (len b)   (abstract generator state)
  crate `zeroize`
    x.zeroize()                                     -> x := zeros (len x)
  std
    [0u8; n] -> zeros n;  Vec::new() / Vec::with_capacity(n) -> [];  v.extend_from_slice(x) -> v ++ x;  v.clear() -> [];
    v.push(x) -> v ++ [x];  x.len(); x.is_empty() -> (len x =? 0);  n.to_be_bytes() (u64) -> be_bytes 8 n (reduces mod 2^64);
    d[a..b].copy_from_slice(s) -> copy_range: Crash site_index unless a <= b <= len d, Crash site_len unless len s = b - a;
    d[i] = x -> set_byte: Crash site_index unless i < len d;  a - b (usize) -> csub: Crash site_sub when a < b;
    u64 / usize `+`, `*`, `+=` -> unbounded N (as in the hand-written model: the u64 fields reach the output only through
       to_be_bytes, i.e. the release profile's wrapping; a debug build would panic beyond 2^61 bytes);
    buf.split_at_mut(k) -> split_at: Crash site_index when k > len buf, else (takeN k buf, dropN k buf);
    `&mut [u8]` views: every view is a region of the caller's buffer; the function's result carries the final contents of
       the whole buffer (regions concatenated in order); `buffer = out_block` rebinds the name;
    let mut it = buf.chunks_exact_mut(B); for chunk in &mut it { body }; it.into_remainder()
       -> a structural Fixpoint running `body` on the len buf / B successive B-byte windows (takeN B / dropN B), the
          rewritten windows concatenated; the remainder is dropN (B * (len buf / B)) buf;
    for x in slice { body }  -> a structural Fixpoint over the list (a `return` in the body leaves the function; what
       follows the loop is the [] case).
  Types taken from the signatures: &Key / &Nonce / &[u8] / &[u8; n] -> bytes (array lengths are premises of the tie lemmas:
  len key = 32, len nonce = 12), &StaticSecret / &PublicKey -> bytes.

FAILS CLOSED per item: anything not recognised -> `Definition <name>_untranslatable : unit := tt.`
"""
import copy
import os
import re
import sys

sys.path.insert(0, os.path.dirname(os.path.abspath(__file__)))
import rustmini as R  # noqa: E402
from rustmini import ParseError, strip_paren, show  # noqa: E402

REPO = os.environ.get("VERIF_REPO", "/repo")
OUT = os.environ.get("VERIF_SRC3G_OUT") or os.path.join(os.path.dirname(os.path.abspath(__file__)), "..", "coq", "gen", "Src3g.v")
F_GCM = "mla/src/crypto/aesgcm.rs"
F_ECC = "mla/src/crypto/ecc.rs"

COQ_TYPES = {"N": "N", "bytes": "bytes", "scalar": "bytes", "point": "bytes", "bool": "bool", "gcm": "AesGcm256",
             "ctr": "Ctr", "ghash": "GHash", "aes": "bytes", "rng": "rng", "prk": "bytes", "kt": "KeyAndTag",
             "mrp": "MultiRecipientPersistent", "list:point": "list bytes", "list:kt": "list KeyAndTag"}
BYTES_KINDS = ("bytes", "scalar", "point")
GCM_FIELDS = [("cipher", "ctr"), ("ghash", "ghash"), ("associated_data_bits_len", "N"), ("current_block", "bytes"),
              ("bytes_encrypted", "N")]
GCM_FIELD_TYPES = {"cipher": "Aes256Ctr", "ghash": "GHash", "associated_data_bits_len": "u64",
                   "current_block": "Vec<u8>", "bytes_encrypted": "u64"}
STRUCTS = {
    "AesGcm256": ("mkAesGcm256", "gcm", GCM_FIELDS),
    "Self": ("mkAesGcm256", "gcm", GCM_FIELDS),
    "KeyAndTag": ("mkKeyAndTag", "kt", [("key", "bytes"), ("tag", "bytes")]),
    "MultiRecipientPersistent": ("mkMRP", "mrp", [("public", "bytes"), ("encrypted_keys", "list:kt")]),
}
ACCESSOR = {("gcm", f): f for f, _ in GCM_FIELDS}
ACCESSOR.update({("kt", "key"): "kt_key", ("kt", "tag"): "kt_tag", ("mrp", "public"): "mrp_public",
                 ("mrp", "encrypted_keys"): "mrp_encrypted_keys"})
PARAM_TYPES = {"&Key": "bytes", "&Nonce": "bytes", "&[u8]": "bytes", "&[u8;KEY_SIZE]": "bytes", "&StaticSecret": "scalar",
               "&PublicKey": "point", "&[PublicKey]": "list:point", "&MultiRecipientPersistent": "mrp", "&mut T": "rng",
               "&mut[u8]": "view"}


class V:
    def __init__(self, text, kind="N"):
        self.text, self.kind = text, kind


class View:
    """a region of a caller's `&mut [u8]`: a leaf holds its current contents, a node its sub-regions in order"""

    def __init__(self, text):
        self.text, self.kids, self.lentext = text, None, None

    def flat(self):
        if self.kids is None:
            return self.text
        return "(" + " ++ ".join(k.flat() for k in self.kids) + ")"

    def split(self, kids):
        self.lentext = "(len %s)" % self.text
        self.kids = kids


class Chunks:
    def __init__(self, view, size):
        self.view, self.size, self.rem = view, size, None


def unref(e):
    e = strip_paren(e)
    while e[0] == "un" and e[1] in ("&", "&mut", "*"):
        e = strip_paren(e[2])
    return e


def is_call(e, name, nargs=None):
    e = strip_paren(e)
    return e[0] == "call" and e[1][0] == "path" and e[1][1] == name and (nargs is None or len(e[2]) == nargs)


def idents(x):
    """identifiers occurring in an AST fragment (through its canonical text)"""
    if isinstance(x, list):
        return set().union(*[idents(s) for s in x]) if x else set()
    if x is None:
        return set()
    t = R.show_stmt(x) if x[0] in ("let", "semi", "expr") else show(x)
    return set(re.findall(r"[A-Za-z_][A-Za-z0-9_]*", t))


class Fn:
    def __init__(self, gen, name, coqname, params, ret_kind, consts):
        self.gen, self.name, self.coqname = gen, name, coqname
        self.params = params            # [(rust name, kind)]
        self.ret_kind = ret_kind        # kind of the value (None = unit)
        self.consts = consts
        self.counter = {}
        self.aux = []                   # auxiliary Fixpoints (text), emitted before the function
        self.outs = [n for n, k in params if k in ("view", "rng") or n == "self&mut"]
        self.nloops = 0

    # ---------------------------------------------------------------- names
    def fresh(self, base):
        base = re.sub(r"[^A-Za-z0-9_]", "_", base)
        n = self.counter.get(base, 0)
        self.counter[base] = n + 1
        return base if n == 0 else "%s%d" % (base, n)

    # ---------------------------------------------------------------- places
    def self_field(self, e):
        e = strip_paren(e)
        if e[0] == "field" and strip_paren(e[1]) == ("path", "self"):
            return e[2]
        return None

    def get(self, e, env):
        """value of a place / pure expression"""
        e = unref(e)
        k = e[0]
        if k == "int":
            return V(str(e[1]))
        if k == "str":
            s = e[1]
            if not s.startswith('b"'):
                raise ParseError("string " + s)
            b = bytes(s[2:-1], "latin-1").decode("unicode_escape").encode("latin-1")
            return V("[" + "; ".join(str(x) for x in b) + "]", "bytes")
        if k == "path":
            n = e[1]
            if n in env:
                v = env[n]
                if isinstance(v, View):
                    return V(v.flat(), "bytes")
                if isinstance(v, Chunks):
                    raise ParseError("chunk iterator used as a value")
                return v
            if n in self.consts:
                return V(n, self.consts[n])
            if n == "None":
                return V("None", "optbytes")
            raise ParseError("unknown name " + n)
        if k == "field":
            base = self.get(e[1], env)
            acc = ACCESSOR.get((base.kind, e[2]))
            if acc is None:
                raise ParseError("field %s of %s" % (e[2], base.kind))
            fk = dict(STRUCTS["AesGcm256"][2] + STRUCTS["KeyAndTag"][2] + STRUCTS["MultiRecipientPersistent"][2])[e[2]]
            return V("(%s %s)" % (acc, base.text), fk)
        if k == "cast" and e[2] in ("u64", "usize"):
            v = self.get(e[1], env)
            if v.kind != "N":
                raise ParseError("cast of " + v.kind)
            return v
        if k == "bin":
            op = e[1]
            if op == "==" and strip_paren(e[3]) == ("int", 1):
                l = strip_paren(e[2])
                if l[0] == "mcall" and l[2] == "unwrap_u8" and not l[3]:
                    q = strip_paren(l[1])
                    if q[0] == "mcall" and q[2] == "ct_eq" and len(q[3]) == 1:
                        a, b = self.get(q[1], env), self.get(q[3][0], env)
                        if a.kind != "bytes" or b.kind != "bytes":
                            raise ParseError("ct_eq operands")
                        return V("(ct_eq %s %s)" % (a.text, b.text), "bool")
            a, b = self.get(e[2], env), self.get(e[3], env)
            if a.kind != "N" or b.kind != "N":
                raise ParseError("operands of " + op)
            if op in ("+", "*", "/"):
                return V("(%s %s %s)" % (a.text, op, b.text))
            tbl = {"<": "(%s <? %s)", "<=": "(%s <=? %s)", "==": "(%s =? %s)"}
            if op in tbl:
                return V(tbl[op] % (a.text, b.text), "bool")
            raise ParseError("operator " + op)   # `-` is a checked operation: only as the whole right-hand side of a let / argument
        if k == "un" and e[1] == "!":
            v = self.get(e[2], env)
            if v.kind != "bool":
                raise ParseError("! of " + v.kind)
            return V("(negb %s)" % v.text, "bool")
        if k == "mcall":
            m, args = e[2], e[3]
            if m == "len" and not args:
                r0 = unref(e[1])
                if r0[0] == "path" and isinstance(env.get(r0[1]), View) and env[r0[1]].kids is not None:
                    return V(env[r0[1]].lentext)
                v = self.get(e[1], env)
                if v.kind not in BYTES_KINDS and not v.kind.startswith("list:"):
                    raise ParseError("len of " + v.kind)
                return V("(len %s)" % v.text)
            if m == "is_empty" and not args:
                v = self.get(e[1], env)
                if v.kind != "bytes":
                    raise ParseError("is_empty of " + v.kind)
                return V("(len %s =? 0)" % v.text, "bool")
            if m == "to_be_bytes" and not args:
                v = self.get(e[1], env)
                if v.kind != "N":
                    raise ParseError("to_be_bytes of " + v.kind)
                return V("(be_bytes 8 %s)" % v.text, "bytes")       # both uses are u64 (checked against the struct / locals below)
            if m in ("as_slice", "as_mut_slice", "as_bytes") and not args:
                v = self.get(e[1], env)
                if v.kind not in BYTES_KINDS:
                    raise ParseError(m + " of " + v.kind)
                return V(v.text, "bytes")
            if m == "clone" and not args:
                v = self.get(e[1], env)
                if v.kind != "ghash":
                    raise ParseError("clone of " + v.kind)
                return v
            if m == "finalize" and not args:
                v = self.get(e[1], env)
                if v.kind != "ghash":
                    raise ParseError("finalize of " + v.kind)
                return V("(GHash_finalize %s)" % v.text, "bytes")
            if m == "diffie_hellman" and len(args) == 1:
                a, b = self.get(e[1], env), self.get(args[0], env)
                if a.kind != "scalar" or b.kind != "point":
                    raise ParseError("diffie_hellman operands")
                return V("(dh %s %s)" % (a.text, b.text), "bytes")
        if k == "call" and e[1][0] == "path":
            fn, args = e[1][1], e[2]
            if fn in ("Vec::new",) and not args:
                return V("[]", "vec")
            if fn == "Vec::with_capacity" and len(args) == 1:
                self.get(args[0], env)
                return V("[]", "vec")
            if fn == "GenericArray::default" and not args:
                return V("(zeros 16)", "bytes")
            if fn == "GHash::new" and len(args) == 1:
                v = self.get(args[0], env)
                if v.kind != "bytes":
                    raise ParseError("GHash::new argument")
                return V("(GHash_new %s)" % v.text, "ghash")
            if fn == "Aes256Ctr::new" and len(args) == 2:
                a, b = strip_paren(unref(args[0])), strip_paren(unref(args[1]))
                for x in (a, b):
                    if not (x[0] == "mcall" and x[2] == "into" and not x[3]):
                        raise ParseError("Aes256Ctr::new arguments")
                ka, kb = self.get(a[1], env), self.get(b[1], env)
                if ka.kind != "bytes" or kb.kind != "bytes":
                    raise ParseError("Aes256Ctr::new operands")
                return V("(Ctr_new %s %s)" % (ka.text, kb.text), "ctr")
            if fn == "Hkdf::new" and len(args) == 2:
                salt, ikm = self.get(args[0], env), self.get(args[1], env)
                if salt.kind == "optbytes" and ikm.kind == "bytes":
                    return V("(hkdf_extract %s %s)" % (salt.text, ikm.text), "prk")
                raise ParseError("Hkdf::new arguments")
            if fn == "StaticSecret::from" and len(args) == 1:
                v = self.get(args[0], env)
                if v.kind != "bytes":
                    raise ParseError("StaticSecret::from of " + v.kind)
                return V(v.text, "scalar")
            if fn == "PublicKey::from" and len(args) == 1:
                v = self.get(args[0], env)
                if v.kind == "scalar":
                    return V("(pubk %s)" % v.text, "point")
                if v.kind == "bytes":
                    return V(v.text, "point")
                raise ParseError("PublicKey::from of " + v.kind)
        if k == "repeat":
            if strip_paren(e[1]) != ("int", 0):
                raise ParseError("array initialiser")
            n = self.get(e[2], env)
            return V("(zeros %s)" % n.text, "bytes")
        if k == "struct":
            return self.struct(e, env)
        raise ParseError("expression " + show(e)[:70])

    def struct(self, e, env):
        if e[1] not in STRUCTS:
            raise ParseError("struct literal " + e[1])
        ctor, kind, fields = STRUCTS[e[1]]
        given = dict(e[2])
        if set(given) != set(f for f, _ in fields) or len(e[2]) != len(fields):
            raise ParseError("fields of %s literal" % e[1])
        parts = []
        for f, fk in fields:
            v = self.get(given[f], env)
            ok = v.kind == fk or (v.kind == "vec" and fk in ("bytes", "list:kt")) or (fk == "bytes" and v.kind in BYTES_KINDS)
            if not ok:
                raise ParseError("field %s: %s given for %s" % (f, v.kind, fk))
            parts.append(v.text)
        return V("(%s %s)" % (ctor, " ".join(parts)), kind)

    def bind(self, name, v, env, out, coq_hint=None):
        """let name = v"""
        g = self.fresh(coq_hint or name)
        out.append("let %s := %s in" % (g, v.text))
        env[name] = V(g, v.kind)
        return g

    def set_place(self, e, text, kind, env, out):
        """store a new value into a local or a field of self"""
        e = unref(e)
        if e[0] == "mcall" and e[2] in ("as_mut_slice", "as_slice") and not e[3]:
            e = unref(e[1])
        f = self.self_field(e)
        if f is not None:
            s = env["self"]
            if s.kind != "gcm" or dict(GCM_FIELDS).get(f) != kind:
                raise ParseError("store to self." + f)
            g = self.fresh("self")
            out.append("let %s := set_%s %s %s in" % (g, f, s.text, text))
            env["self"] = V(g, "gcm")
            return
        if e[0] == "path" and e[1] in env:
            cur = env[e[1]]
            if isinstance(cur, View):
                if cur.kids is not None or kind != "bytes":
                    raise ParseError("store to a split view " + e[1])
                g = self.fresh(e[1])
                out.append("let %s := %s in" % (g, text))
                cur.text = g
                return
            if isinstance(cur, Chunks) or cur.kind != kind and not (cur.kind == "vec"):
                raise ParseError("store to %s" % e[1])
            g = self.fresh(e[1])
            out.append("let %s := %s in" % (g, text))
            env[e[1]] = V(g, kind)
            return
        raise ParseError("place " + show(e)[:50])

    def set_pair(self, pat1, pat2, rhs, out):
        out.append("let '(%s, %s) := %s in" % (pat1, pat2, rhs))

    # ---------------------------------------------------------------- checked values (may add `do` lines)
    def val(self, e, env, out):
        e0 = strip_paren(e)
        if e0[0] == "bin" and e0[1] == "-":
            a, b = self.val(e0[2], env, out), self.val(e0[3], env, out)
            if a.kind != "N" or b.kind != "N":
                raise ParseError("operands of -")
            g = self.fresh("d")
            out.append("do %s <- csub site_sub %s %s;" % (g, a.text, b.text))
            return V(g)
        if e0[0] == "try":
            x = strip_paren(e0[1])
            if x[0] == "call" and x[1][0] == "path":
                fn, args = x[1][1], x[2]
                if fn == "derive_key" and len(args) == 2:
                    a, b = self.get(args[0], env), self.get(args[1], env)
                    if a.kind != "scalar" or b.kind != "point":
                        raise ParseError("derive_key arguments")
                    g = self.fresh("dk")
                    out.append("do %s <- derive_key %s %s;" % (g, a.text, b.text))
                    return V(g, "bytes")
                if fn in ("aesgcm::AesGcm256::new", "AesGcm256::new") and len(args) == 3:
                    vs = [self.get(a, env) for a in args]
                    if [v.kind for v in vs] != ["bytes"] * 3:
                        raise ParseError("AesGcm256::new arguments")
                    g = self.fresh("c")
                    out.append("do %s <- AesGcm256_new %s;" % (g, " ".join(v.text for v in vs)))
                    return V(g, "gcm")
            raise ParseError("`?` on " + show(x)[:60])
        if e0[0] == "call" and e0[1][0] == "path" and e0[1][1] == "Aes256::new" and len(e0[2]) == 1:
            a = strip_paren(e0[2][0])
            if not is_call(a, "GenericArray::from_slice", 1):
                raise ParseError("Aes256::new argument")
            v = self.get(a[2][0], env)
            if v.kind != "bytes":
                raise ParseError("Aes256::new key")
            g = self.fresh("aes")
            out.append("do %s <- Aes256_new site_len %s;" % (g, v.text))
            return V(g, "aes")
        e1 = unref(e0)
        if e1[0] == "mcall" and e1[2] in ("decrypt", "into_tag") and self.name not in ("decrypt", "into_tag"):
            return self.gcm_call(e1, env, out)
        return self.get(e0, env)

    def gcm_call(self, e, env, out):
        """calls of the translated AesGcm256 methods on a local cipher object (ecc.rs)"""
        recv, m, args = unref(e[1]), e[2], e[3]
        if recv[0] != "path" or recv[1] not in env or isinstance(env[recv[1]], (View, Chunks)) or env[recv[1]].kind != "gcm":
            raise ParseError("receiver of " + m)
        c = env[recv[1]]
        if m == "into_tag" and not args:
            g = self.fresh("t")
            out.append("do %s <- AesGcm256_into_tag %s;" % (g, c.text))
            del env[recv[1]]                        # moved
            return V(g, "bytes")
        if m in ("encrypt", "decrypt") and len(args) == 1:
            b = unref(args[0])
            if b[0] != "path" or b[1] not in env or isinstance(env[b[1]], (View, Chunks)) or env[b[1]].kind != "bytes":
                raise ParseError("buffer of " + m)
            c1, b1 = self.fresh(recv[1]), self.fresh(b[1])
            if m == "encrypt":
                out.append("do (%s, %s) <- AesGcm256_encrypt %s %s;" % (c1, b1, c.text, env[b[1]].text))
                env[recv[1]], env[b[1]] = V(c1, "gcm"), V(b1, "bytes")
                return None
            t = self.fresh("t")
            out.append("do (%s, %s, %s) <- AesGcm256_decrypt %s %s;" % (c1, b1, t, c.text, env[b[1]].text))
            env[recv[1]], env[b[1]] = V(c1, "gcm"), V(b1, "bytes")
            return V(t, "bytes")
        raise ParseError("cipher call " + m)

    def ghash_block(self, a, env, out):
        """the single block of g.update(..): slice::from_ref(B) or &[B]"""
        a = unref(a)
        if a[0] == "array" and len(a[1]) == 1:
            v = self.get(a[1][0], env)
            if v.kind != "bytes":
                raise ParseError("GHash block")
            return v.text
        if is_call(a, "slice::from_ref", 1):
            b = unref(a[2][0])
            if is_call(b, "GenericArray::from_slice", 1):
                src = b[2][0]
            elif b[0] == "mcall" and b[2] == "into" and not b[3]:
                src = b[1]
            else:
                raise ParseError("GHash block " + show(b)[:50])
            v = self.get(src, env)
            if v.kind != "bytes":
                raise ParseError("GHash block source")
            g = self.fresh("blk")
            out.append("do %s <- as_block site_len %s;" % (g, v.text))
            return g
        raise ParseError("argument of GHash::update " + show(a)[:50])

    # ---------------------------------------------------------------- effects
    def effect(self, e, env, out):
        e = strip_paren(e)
        k = e[0]
        if k == "assign":
            op, lhs, rhs = e[1], strip_paren(e[2]), e[3]
            f = self.self_field(lhs)
            if f is not None and op == "+=" and dict(GCM_FIELDS).get(f) == "N":
                v = self.val(rhs, env, out)
                cur = self.get(lhs, env)
                return self.set_place(lhs, "(%s + %s)" % (cur.text, v.text), "N", env, out)
            if lhs[0] == "index" and op == "=":
                d = unref(lhs[1])
                if d[0] == "path" and d[1] in env and not isinstance(env[d[1]], (View, Chunks)) and env[d[1]].kind == "bytes":
                    i, x = self.val(lhs[2], env, out), self.val(rhs, env, out)
                    g = self.fresh(d[1])
                    out.append("do %s <- set_byte site_index %s %s %s;" % (g, env[d[1]].text, i.text, x.text))
                    env[d[1]] = V(g, "bytes")
                    return
            if lhs[0] == "path" and op == "=" and isinstance(env.get(lhs[1]), View):
                r = strip_paren(rhs)
                if r[0] == "path" and isinstance(env.get(r[1]), View):
                    env[lhs[1]] = env[r[1]]          # the name now denotes the other region
                    return
            raise ParseError("assignment " + show(e)[:60])
        if k == "try":
            x = strip_paren(e[1])
            if x[0] == "mcall" and x[2] == "expand" and len(x[3]) == 2:
                prk, info, o = self.get(x[1], env), self.get(x[3][0], env), self.get(x[3][1], env)
                d = unref(x[3][1])
                if prk.kind != "prk" or info.kind != "bytes" or o.kind != "bytes" or d[0] != "path":
                    raise ParseError("hkdf.expand operands")
                g = self.fresh(d[1])
                out.append("do %s <- Hkdf_expand %s %s %s;" % (g, prk.text, info.text, o.text))
                env[d[1]] = V(g, "bytes")
                return
            raise ParseError("statement " + show(e)[:60])
        if k != "mcall":
            raise ParseError("statement " + show(e)[:60])
        recv, m, args = e[1], e[2], e[3]
        r0 = unref(recv)
        if m == "copy_from_slice" and len(args) == 1:
            src = self.val(args[0], env, out)
            if src.kind not in BYTES_KINDS:
                raise ParseError("copy_from_slice source")
            a_txt, b_txt, d = "0", None, r0
            if r0[0] == "index":
                rg = strip_paren(r0[2])
                if rg[0] != "range":
                    raise ParseError("copy_from_slice destination")
                d = unref(r0[1])
                a_txt = self.get(rg[1], env).text if rg[1] else "0"
                b_txt = self.get(rg[2], env).text if rg[2] else None
            if d[0] != "path" or d[1] not in env or isinstance(env[d[1]], (View, Chunks)) or env[d[1]].kind != "bytes":
                raise ParseError("copy_from_slice destination " + show(d)[:40])
            cur = env[d[1]].text
            g = self.fresh(d[1])
            out.append("do %s <- copy_range site_index site_len %s %s %s %s;" % (g, cur, a_txt, b_txt or "(len %s)" % cur, src.text))
            env[d[1]] = V(g, "bytes")
            return
        if m in ("encrypt", "decrypt", "into_tag") and r0[0] == "path" and r0[1] in env and not isinstance(env[r0[1]], (View, Chunks)) \
                and env[r0[1]].kind == "gcm" and r0[1] != "self":
            self.gcm_call(e, env, out)
            return
        if m == "zeroize" and not args:
            v = self.get(recv, env)
            if v.kind != "bytes":
                raise ParseError("zeroize of " + v.kind)
            return self.set_place(recv, "(zeros (len %s))" % v.text, "bytes", env, out)
        if m == "fill_bytes" and len(args) == 1:
            rng, b = self.get(recv, env), self.get(args[0], env)
            if rng.kind != "rng" or b.kind != "bytes" or r0[0] != "path":
                raise ParseError("fill_bytes operands")
            g1, g2 = self.fresh(r0[1]), self.fresh("drawn")
            self.set_pair(g1, g2, "rng_fill %s (len %s)" % (rng.text, b.text), out)
            env[r0[1]] = V(g1, "rng")
            return self.set_place(args[0], g2, "bytes", env, out)
        if m == "push" and len(args) == 1:
            l, x = self.get(recv, env), self.get(args[0], env)
            if l.kind not in ("vec", "list:kt") or x.kind != "kt":
                raise ParseError("push operands")
            return self.set_place(recv, "(%s ++ [%s])" % (l.text, x.text), "list:kt", env, out)
        rv = self.get(recv, env)
        if rv.kind == "ctr":
            if m == "seek" and len(args) == 1:
                p = self.val(args[0], env, out)
                return self.set_place(recv, "(Ctr_seek %s %s)" % (rv.text, p.text), "ctr", env, out)
            if m == "apply_keystream" and len(args) == 1:
                b = self.get(args[0], env)
                if b.kind != "bytes":
                    raise ParseError("apply_keystream buffer")
                g1, g2 = self.fresh("cs"), self.fresh("ks_out")
                self.set_pair(g1, g2, "Ctr_apply_keystream %s %s" % (rv.text, b.text), out)
                self.set_place(recv, g1, "ctr", env, out)
                return self.set_place(args[0], g2, "bytes", env, out)
        if rv.kind == "ghash":
            if m == "update" and len(args) == 1:
                blk = self.ghash_block(args[0], env, out)
                rv = self.get(recv, env)
                return self.set_place(recv, "(GHash_update1 %s %s)" % (rv.text, blk), "ghash", env, out)
            if m == "update_padded" and len(args) == 1:
                d = self.get(args[0], env)
                if d.kind != "bytes":
                    raise ParseError("update_padded data")
                return self.set_place(recv, "(GHash_update_padded %s %s)" % (rv.text, d.text), "ghash", env, out)
        if rv.kind == "aes" and m == "encrypt_block" and len(args) == 1:
            b = self.get(args[0], env)
            if b.kind != "bytes":
                raise ParseError("encrypt_block operand")
            return self.set_place(args[0], "(Aes256_encrypt_block %s %s)" % (rv.text, b.text), "bytes", env, out)
        if rv.kind == "bytes" and self.self_field(r0) is not None:
            if m == "extend_from_slice" and len(args) == 1:
                d = self.get(args[0], env)
                if d.kind != "bytes":
                    raise ParseError("extend_from_slice data")
                return self.set_place(recv, "(%s ++ %s)" % (rv.text, d.text), "bytes", env, out)
            if m == "clear" and not args:
                return self.set_place(recv, "[]", "bytes", env, out)
        if rv.kind == "prk" and m == "expand":
            raise ParseError("hkdf.expand without `?`")
        raise ParseError("call " + show(e)[:70])

    # ---------------------------------------------------------------- let
    def let(self, s, env, out):
        pat, ty, e, els = s[1], s[2], s[3], s[4]
        if els is not None or e is None:
            raise ParseError("let form")
        e0 = strip_paren(e)
        if e0[0] == "mcall" and e0[2] == "split_at_mut" and len(e0[3]) == 1:
            m = re.fullmatch(r"\((\w+),(\w+)\)", pat.replace(" ", ""))
            r0 = unref(e0[1])
            if not m or r0[0] != "path" or not isinstance(env.get(r0[1]), View) or env[r0[1]].kids is not None:
                raise ParseError("split_at_mut form")
            kv = self.val(e0[3][0], env, out)
            view = env[r0[1]]
            g1, g2 = self.fresh(m.group(1)), self.fresh(m.group(2))
            out.append("do (%s, %s) <- split_at site_index %s %s;" % (g1, g2, view.text, kv.text))
            a, b = View(g1), View(g2)
            view.split([a, b])
            env[m.group(1)], env[m.group(2)] = a, b
            return
        name = re.sub(r"^mut\s+", "", pat)
        if not re.fullmatch(r"\w+", name):
            raise ParseError("let pattern " + pat)
        if name in env and isinstance(env[name], (View, Chunks)):
            raise ParseError("shadowing of a view " + name)
        if e0[0] == "mcall" and e0[2] == "chunks_exact_mut" and len(e0[3]) == 1:
            r0 = unref(e0[1])
            if r0[0] != "path" or not isinstance(env.get(r0[1]), View) or env[r0[1]].kids is not None:
                raise ParseError("chunks_exact_mut receiver")
            env[name] = Chunks(env[r0[1]], self.get(e0[3][0], env).text)
            return
        if e0[0] == "mcall" and e0[2] == "into_remainder" and not e0[3]:
            r0 = unref(e0[1])
            if r0[0] != "path" or not isinstance(env.get(r0[1]), Chunks) or env[r0[1]].rem is None:
                raise ParseError("into_remainder before the loop")
            env[name] = env[r0[1]].rem
            del env[r0[1]]
            return
        if e0[0] == "try" and strip_paren(e0[1])[0] == "mcall" and strip_paren(e0[1])[2] == "expand":
            raise ParseError("value of hkdf.expand")
        v = self.val(e, env, out)
        if v is None:
            raise ParseError("let of a unit value")
        if ty is not None and ty.replace(" ", "") not in ("Hkdf<Sha256>",):
            raise ParseError("let type " + ty)
        if ty is not None and v.kind != "prk":
            raise ParseError("let type")
        if v.kind == "vec":
            v = V("[]", "vec")
        self.bind(name, v, env, out)

    # ---------------------------------------------------------------- results
    def fin(self, e, env):
        """`return e` / tail expression e / fall-through (e = None)"""
        outs = []
        for n in self.outs:
            if n == "self&mut":
                outs.append(env["self"].text)
            elif isinstance(env.get("$root:" + n), View):
                outs.append(env["$root:" + n].flat())
            else:
                outs.append(env[n].text)
        val = None
        if e is not None:
            e = strip_paren(e)
            lines = []
            if self.gen.result_wrapped[self.name]:
                if not is_call(e, "Ok", 1):
                    raise ParseError("result " + show(e)[:50])
                e = strip_paren(e[2][0])
            if self.ret_kind == "optbytes":
                if e == ("path", "None"):
                    val = "None"
                elif is_call(e, "Some", 1):
                    v = self.get(e[2][0], env)
                    if v.kind != "bytes":
                        raise ParseError("Some payload")
                    val = "(Some %s)" % v.text
                else:
                    raise ParseError("Option result")
            else:
                v = self.val(e, env, lines)
                if lines:
                    raise ParseError("checked operation in a result")
                if v.kind != self.ret_kind and not (self.ret_kind == "bytes" and v.kind in BYTES_KINDS):
                    raise ParseError("result kind %s for %s" % (v.kind, self.ret_kind))
                val = v.text
        elif self.ret_kind is not None:
            raise ParseError("missing result")
        parts = outs + ([val] if val is not None else [])
        if not parts:
            return "Ok tt"
        return "Ok %s" % (parts[0] if len(parts) == 1 else "(" + ", ".join(parts) + ")")

    # ---------------------------------------------------------------- statement lists
    def seq(self, stmts, tail, env, fall):
        out = []
        stmts = list(stmts)
        if tail is not None and strip_paren(tail)[0] in ("if", "for"):     # a unit-valued `if` in tail position is a statement
            stmts.append(("expr", strip_paren(tail)))
            tail = None
        i = 0
        while i < len(stmts):
            s = stmts[i]
            rest = stmts[i + 1:]
            i += 1
            if s[0] == "let":
                self.let(s, env, out)
                continue
            e = strip_paren(s[1])
            if e[0] == "return":
                out.append(self.fin(e[1], env))
                return self.join(out)
            if e[0] == "if":
                if e[1][0] == "letcond":
                    raise ParseError("if let")
                c = self.get(e[1], env)
                if c.kind != "bool":
                    raise ParseError("condition")
                blk_t = e[2]
                blk_e = e[3] if e[3] is not None else ("block", [], None)
                if blk_e[0] != "block":
                    raise ParseError("else if")
                texts = []
                for blk in (blk_t, blk_e):
                    inner = list(blk[1]) + ([("semi", blk[2])] if blk[2] is not None else [])
                    for st in inner:
                        if st[0] == "let" and re.sub(r"^mut\s+", "", st[1]) in env:
                            raise ParseError("shadowing inside a branch")
                    texts.append(self.seq(inner + rest, tail, copy.deepcopy(env), fall))
                out.append("if %s then (\n%s\n) else (\n%s\n)" % (c.text, texts[0], texts[1]))
                return self.join(out)
            if e[0] == "for":
                out.append(self.for_(e, rest, tail, env, fall))
                return self.join(out)
            self.effect(e, env, out)
        out.append(self.fin(tail, env) if tail is not None else fall(env))
        return self.join(out)

    def join(self, out):
        return "\n".join(out)

    def for_(self, e, rest, tail, env, fall):
        lab, pat, it, body = e[1], e[2], strip_paren(e[3]), e[4]
        if lab is not None or not re.fullmatch(r"\w+", pat):
            raise ParseError("for form")
        if body[2] is not None:
            body = ("block", list(body[1]) + [("expr", strip_paren(body[2]))], None)
            if body[1][-1][1][0] not in ("if",):
                raise ParseError("for body tail")
        it0 = unref(it)
        key = (self.coqname, id(e[4]))
        if key not in self.gen.loopnames:
            self.gen.loopnames[key] = "%s_for%d" % (self.coqname, 1 + sum(1 for k in self.gen.loopnames if k[0] == self.coqname))
        fname = self.gen.loopnames[key]
        if it0[0] == "path" and isinstance(env.get(it0[1]), Chunks):
            # ---- for chunk in &mut chunks: windows of a view
            ch = env[it0[1]]
            if ch.rem is not None or ch.view.kids is not None:
                raise ParseError("second loop over the chunks")
            used = idents(body[1]) & set(n for n in env if not n.startswith("$"))
            if not used <= {"self"} or "self" not in env or env["self"].kind != "gcm":
                raise ParseError("loop body uses " + ", ".join(sorted(used)))
            if "return" in idents(body[1]) or "break" in idents(body[1]) or "continue" in idents(body[1]):
                raise ParseError("jump in a chunk loop")
            if fname not in self.gen.done_aux:
                sub = Fn(self.gen, self.name, self.coqname, [], None, self.consts)
                sub.counter = {"self": 1, "rest": 1, "n": 1}
                benv = {"self": V("self", "gcm"), pat: View("(takeN %s rest)" % ch.size)}
                w = benv[pat]
                def cont(env2, w=w):
                    return ("do (self_r, out_r) <- %s n' %s (dropN %s rest);\nOk (self_r, %s ++ out_r)"
                            % (fname, env2["self"].text, ch.size, w.flat()))
                btext = sub.seq(body[1], None, benv, cont)
                self.aux.append("Fixpoint %s (n : nat) (self : AesGcm256) (rest : bytes) {struct n} : res (AesGcm256 * bytes) :=\n"
                                "match n with\n| O => Ok (self, [])\n| S n' =>\n%s\nend." % (fname, btext))
                self.gen.done_aux.add(fname)
            buf = ch.view.text
            g1, g2, g3 = self.fresh("self"), self.fresh("done"), self.fresh("rem")
            lines = ["do (%s, %s) <- %s (N.to_nat (len %s / %s)) %s %s;" % (g1, g2, fname, buf, ch.size, env["self"].text, buf),
                     "let %s := dropN (%s * (len %s / %s)) %s in" % (g3, ch.size, buf, ch.size, buf)]
            a, b = View(g2), View(g3)
            ch.view.split([a, b])
            ch.rem = b
            env["self"] = V(g1, "gcm")
            return "\n".join(lines) + "\n" + self.seq(rest, tail, env, fall)
        # ---- for x in slice: a list
        lv = self.get(it0, env)
        if not lv.kind.startswith("list:"):
            raise ParseError("iteration over " + lv.kind)
        ek = lv.kind[5:]
        names = sorted(n for n in (idents(body[1]) | idents(rest) | idents(tail) | set(self.outs)) & set(env)
                       if not isinstance(env[n], (View, Chunks)) and not n.startswith("$"))
        for n in env:
            if isinstance(env[n], (View, Chunks)):
                raise ParseError("list loop with a live view")
        for n in names:
            if env[n].kind == "vec":
                env[n] = V(env[n].text, "list:kt")
        ps = " ".join("(%s : %s)" % (n, COQ_TYPES[env[n].kind]) for n in names)
        sub = Fn(self.gen, self.name, self.coqname, self.params, self.ret_kind, self.consts)
        sub.outs = self.outs
        sub.counter = dict((n, 1) for n in names)
        sub.counter.update({"l": 1, pat: 1})
        envN = dict((n, V(n, env[n].kind)) for n in names)
        envC = dict((n, V(n, env[n].kind)) for n in names)
        envC[pat] = V(pat, ek)
        def cont(env2):
            return "%s %s l'" % (fname, " ".join(env2[n].text for n in names))
        nil_text = sub.seq(rest, tail, envN, fall)
        sub.counter = dict((n, 1) for n in names)
        sub.counter.update({"l": 1, pat: 1})
        cons_text = sub.seq(body[1], None, envC, cont)
        self.aux.extend(sub.aux)
        self.aux.append("Fixpoint %s %s (l : list %s) {struct l} : %s :=\nmatch l with\n| [] =>\n%s\n| %s :: l' =>\n%s\nend."
                        % (fname, ps, COQ_TYPES[ek], self.gen.ret_type(self), nil_text, pat, cons_text))
        return "%s %s %s" % (fname, " ".join(env[n].text for n in names), lv.text)


class Gen:
    def __init__(self):
        self.done_aux = set()
        self.loopnames = {}
        self.result_wrapped = {}
        self.items = []
        self.failed = []

    def ret_type(self, fn):
        parts = []
        for n in fn.outs:
            parts.append("AesGcm256" if n == "self&mut" else ("rng" if dict(fn.params).get(n) == "rng" else "bytes"))
        if fn.ret_kind == "optbytes":
            parts.append("(option bytes)" if not parts else "option bytes")
        elif fn.ret_kind is not None:
            parts.append(COQ_TYPES[fn.ret_kind])
        if not parts:
            return "res unit"
        return "res %s" % (parts[0] if len(parts) == 1 else "(" + " * ".join(parts) + ")")

    def fail(self, name, why):
        self.failed.append((name, why))
        self.items.append("(* %s: %s *)\nDefinition %s_untranslatable : unit := tt." % (name, str(why).replace("*)", "* )"), name))

    def const(self, src, path, name, consts):
        m = re.search(r"^\s*(?:pub(?:\([a-z]+\))?\s+)?const\s+%s\s*:\s*([^=]+?)\s*=\s*(.+?);" % name, src, re.M)
        if not m:
            raise ParseError("const " + name)
        ty, rhs = m.group(1).replace(" ", ""), m.group(2)
        line = src[:m.start()].count("\n") + 1 + (1 if src[m.start()] == "\n" else 0)
        f = Fn(self, name, name, [], None, consts)
        v = f.get(R.parse_expr(rhs), {})
        if ty == "usize" and v.kind == "N":
            consts[name] = "N"
            return "(* %s:%d const %s *)\nDefinition %s : N := %s." % (path, line, name, name, v.text)
        mm = re.fullmatch(r"&\[u8;(\d+)\]", ty)
        if mm and v.kind == "bytes":
            if v.text.count(";") + 1 != int(mm.group(1)):
                raise ParseError("length of " + name)
            consts[name] = "bytes"
            return "(* %s:%d const %s *)\nDefinition %s : bytes := %s." % (path, line, name, name, v.text)
        raise ParseError("const %s : %s" % (name, ty))

    def function(self, src, path, rust, coqname, within, consts, ret_kind, wrapped):
        r = R.fn_text(src, rust, 0, within)
        if r is None:
            raise ParseError("fn %s not found" % rust)
        body, line, header = r
        hdr = R.strip_comments(header)
        i = hdr.index("(")
        j = hdr.rindex(")")
        params, env = [], {}
        plist, depth, cur = [], 0, ""
        for ch in hdr[i + 1:j]:
            if ch in "<([":
                depth += 1
            elif ch in ">)]":
                depth -= 1
            if ch == "," and depth == 0:
                plist.append(cur)
                cur = ""
            else:
                cur += ch
        if cur.strip():
            plist.append(cur)
        coq_params = []
        for p in plist:
            p = " ".join(p.split())
            if p in ("&mut self",):
                params.append(("self&mut", "gcm"))
                env["self"] = V("self", "gcm")
                coq_params.append("(self : AesGcm256)")
                continue
            if p in ("mut self", "&self", "self"):
                kind = "mrp" if coqname == "count_keys" else "gcm"
                params.append(("self", kind))
                env["self"] = V("self", kind)
                coq_params.append("(self : %s)" % COQ_TYPES[kind])
                continue
            m = re.fullmatch(r"(?:mut )?(\w+)\s*:\s*(.+)", p)
            if not m:
                raise ParseError("parameter " + p)
            n, ty = m.group(1), m.group(2).replace(" ", "")
            ty = {"&mut[u8]": "&mut[u8]", "&mutT": "&mut T"}.get(ty, ty)
            if ty not in PARAM_TYPES:
                raise ParseError("parameter type " + ty)
            kind = PARAM_TYPES[ty]
            params.append((n, kind))
            if kind == "view":
                env[n] = View(n)
                env["$root:" + n] = env[n]
                coq_params.append("(%s : bytes)" % n)
            else:
                env[n] = V(n, kind)
                coq_params.append("(%s : %s)" % (n, COQ_TYPES[kind]))
        # the declared return type must be the expected one
        rt = hdr[j + 1:]
        rt = rt.split("where")[0].replace(" ", "").replace("\n", "")
        expect = {"new": "->Result<Self,Error>", "encrypt": "", "into_tag": "->Tag", "decrypt_unauthenticated": "", "decrypt": "->Tag",
                  "derive_key": "->Result<[u8;KEY_SIZE],Error>", "count_keys": "->usize",
                  "store_key_for_multi_recipients": "->Result<MultiRecipientPersistent,Error>",
                  "retrieve_key": "->Result<Option<[u8;KEY_SIZE]>,Error>"}[rust]
        if rt != expect:
            raise ParseError("return type of %s: %s" % (rust, rt))
        fn = Fn(self, rust, coqname, params, ret_kind, consts)
        fn.counter = dict((n if n != "self&mut" else "self", 1) for n, _ in params)
        self.result_wrapped[rust] = wrapped
        ast = R.parse_body(body)
        text = fn.seq(ast[1], ast[2], env, lambda env2: fn.fin(None, env2))
        head = "(* %s:%d fn %s *)\n" % (path, line, rust if within is None else within.split("+")[1].split("\\")[0] + "::" + rust)
        auxs = "".join(a + "\n" for a in fn.aux)
        return "%s%sDefinition %s %s : %s :=\n%s." % (head, auxs, coqname, " ".join(coq_params), self.ret_type(fn), text)

    def check_struct(self, src, name, expect):
        m = re.search(r"struct\s+%s\b[^{;]*\{" % name, src)
        if not m:
            raise ParseError("struct " + name)
        j = R.match_brace(src, m.end() - 1)
        body = R.strip_comments(src[m.end():j])
        fields = [(a, " ".join(b.split())) for a, b in re.findall(r"(?:pub\s+)?(\w+)\s*:\s*([^,]+?)\s*,", body + ",")]
        if fields != expect:
            raise ParseError("fields of struct %s: %s" % (name, fields))


PRELUDE = r"""(* GENERATED by tools/src2v3_crypto.py from /repo — do not edit. *)
From MLA Require Import Base Gcm.
From MLA.Concrete Require Import Aes Ghash.
Open Scope N_scope.

Definition zeros (n : N) : bytes := repeat 0 (N.to_nat n).                        (* [0u8; n] *)
(* d[a..b].copy_from_slice(s) *)
Definition copy_range (site_index site_len : N) (d : bytes) (a b : N) (s : bytes) : res bytes :=
  if (b <? a) || (len d <? b) then Crash site_index
  else if negb (len s =? b - a) then Crash site_len
  else Ok (takeN a d ++ s ++ dropN b d).
(* d[i] = x *)
Definition set_byte (site_index : N) (d : bytes) (i x : N) : res bytes :=
  if len d <=? i then Crash site_index else Ok (takeN i d ++ x :: dropN (i + 1) d).
(* buf.split_at_mut(k) *)
Definition split_at (site_index : N) (b : bytes) (k : N) : res (bytes * bytes) :=
  if len b <? k then Crash site_index else Ok (takeN k b, dropN k b).
(* GenericArray::<u8, U16>::from_slice(x) / x.into() *)
Definition as_block (site_len : N) (x : bytes) : res bytes := if len x =? 16 then Ok x else Crash site_len.
Definition ct_eq (a b : bytes) : bool := bytes_eqb a b.                           (* subtle: a.ct_eq(&b).unwrap_u8() == 1 *)

(* struct KeyAndTag / MultiRecipientPersistent (mla/src/crypto/ecc.rs) *)
Record KeyAndTag := mkKeyAndTag { kt_key : bytes; kt_tag : bytes }.
Record MultiRecipientPersistent := mkMRP { mrp_public : bytes; mrp_encrypted_keys : list KeyAndTag }.

Section CryptoSrc.
  Variable E : bytes -> bytes -> bytes.           (* AES-256: E key block = Aes256::new(key).encrypt_block(block) *)
  Variable gmul : N -> N -> N.                    (* the GF(2^128) product of the `ghash` crate *)
  Variable dh : bytes -> bytes -> bytes.          (* x25519: secret.diffie_hellman(public) *)
  Variable pubk : bytes -> bytes.                 (* x25519: PublicKey::from(&secret) *)
  Variable hkdf_extract : option bytes -> bytes -> bytes.   (* Hkdf::<Sha256>::new(salt, ikm): the PRK *)
  Variable hkdf_expand : bytes -> bytes -> N -> bytes.      (* prk, info, length *)
  Variable rng : Type.                            (* the CSPRNG passed in *)
  Variable rng_fill : rng -> N -> rng * bytes.    (* fill_bytes of n bytes *)
  Variables site_sub site_index site_len : N.     (* labels of the panic sites *)

  (* ---- trusted primitives (see the table in tools/src2v3_crypto.py) ---- *)
  Definition Aes256_new (site : N) (key : bytes) : res bytes := if len key =? 32 then Ok key else Crash site.
  Definition Aes256_encrypt_block (aes b : bytes) : bytes := E aes b.
  Record Ctr := mkCtr { ctr_key : bytes; ctr_iv : bytes; ctr_pos : N }.          (* ctr::Ctr128BE<Aes256> *)
  Definition Ctr_new (key iv : bytes) : Ctr := mkCtr key iv 0.
  Definition Ctr_seek (c : Ctr) (p : N) : Ctr := mkCtr (ctr_key c) (ctr_iv c) p.
  Definition Ctr_apply_keystream (c : Ctr) (buf : bytes) : Ctr * bytes :=
    (mkCtr (ctr_key c) (ctr_iv c) (ctr_pos c + len buf),
     xor_bytes buf (ks_range (E (ctr_key c)) (ctr_iv c) (ctr_pos c) (len buf))).
  Record GHash := mkGHash { gh_key : N; gh_y : N }.                               (* ghash::GHash *)
  Definition GHash_new (k : bytes) : GHash := mkGHash (block_to_N k) 0.
  Definition GHash_update1 (g : GHash) (blk : bytes) : GHash := mkGHash (gh_key g) (gh_block gmul (gh_key g) (gh_y g) blk).
  Definition GHash_update_padded (g : GHash) (data : bytes) : GHash :=
    mkGHash (gh_key g) (gh_update_padded gmul (gh_key g) (gh_y g) data).
  Definition GHash_finalize (g : GHash) : bytes := N_to_block (gh_y g).
  Definition Hkdf_expand (prk info out : bytes) : res bytes :=
    if 255 * 32 <? len out then Err EInval else Ok (hkdf_expand prk info (len out)).

  (* struct AesGcm256, fields in source order *)
  Record AesGcm256 := mkAesGcm256 { cipher : Ctr; ghash : GHash; associated_data_bits_len : N; current_block : bytes;
                                    bytes_encrypted : N }.
  Definition set_cipher s v := mkAesGcm256 v (ghash s) (associated_data_bits_len s) (current_block s) (bytes_encrypted s).
  Definition set_ghash s v := mkAesGcm256 (cipher s) v (associated_data_bits_len s) (current_block s) (bytes_encrypted s).
  Definition set_current_block s v := mkAesGcm256 (cipher s) (ghash s) (associated_data_bits_len s) v (bytes_encrypted s).
  Definition set_bytes_encrypted s v := mkAesGcm256 (cipher s) (ghash s) (associated_data_bits_len s) (current_block s) v.
"""


def indent(text, n=2):
    return "\n".join((" " * n + l) if l else l for l in text.split("\n"))


def main():
    g = Gen()
    try:
        gsrc = open(os.path.join(REPO, F_GCM)).read()
        esrc = open(os.path.join(REPO, F_ECC)).read()
    except OSError as ex:
        with open(OUT, "w") as f:
            f.write("(* GENERATED: tools/src2v3_crypto.py: %s *)\nDefinition src3g_untranslatable : unit := tt.\n" % ex)
        print("src2v3_crypto: FAILED", ex)
        return
    # the test modules are not translated
    gsrc_main = gsrc.split("#[cfg(test)]")[0]
    esrc_main = esrc.split("#[cfg(test)]")[0]
    consts = {}
    pre_items = []
    for path, src, name in [(F_GCM, gsrc_main, "BLOCK_SIZE"), (F_GCM, gsrc_main, "TAG_LENGTH"), (F_GCM, gsrc_main, "KEY_SIZE"),
                            (F_GCM, gsrc_main, "NONCE_AES_SIZE"), (F_ECC, esrc_main, "DERIVE_KEY_INFO"),
                            (F_ECC, esrc_main, "ECIES_NONCE")]:
        try:
            pre_items.append(g.const(src, path, name, consts))
        except (ParseError, KeyError, IndexError, ValueError) as ex:
            pre_items.append("(* %s: %s *)\nDefinition %s_untranslatable : unit := tt." % (name, ex, name))
            g.failed.append((name, ex))
    structs_ok = True
    try:
        g.check_struct(gsrc_main, "AesGcm256", [(f, GCM_FIELD_TYPES[f]) for f, _ in GCM_FIELDS])
        g.check_struct(esrc_main, "KeyAndTag", [("key", "[u8; KEY_SIZE]"), ("tag", "[u8; TAG_LENGTH]")])
        g.check_struct(esrc_main, "MultiRecipientPersistent", [("public", "[u8; 32]"), ("encrypted_keys", "Vec<KeyAndTag>")])
        if not re.search(r"type\s+Aes256Ctr\s*=\s*ctr::Ctr128BE<aes::Aes256>\s*;", gsrc_main):
            raise ParseError("type Aes256Ctr")
        for alias, ty in (("Nonce", r"\[u8;\s*NONCE_AES_SIZE\]"), ("Key", r"\[u8;\s*KEY_SIZE\]"), ("Tag", r"GenericArray<u8,\s*U16>")):
            if not re.search(r"pub\s+type\s+%s\s*=\s*%s\s*;" % (alias, ty), gsrc_main):
                raise ParseError("type " + alias)
    except ParseError as ex:
        structs_ok = False
        g.failed.append(("structs", ex))
        pre_items.append("(* %s *)\nDefinition structs_untranslatable : unit := tt." % str(ex).replace("*)", "* )"))
    fns = [
        (gsrc_main, F_GCM, "new", "AesGcm256_new", r"impl\s+AesGcm256\s*\{", "gcm", True),
        (gsrc_main, F_GCM, "encrypt", "AesGcm256_encrypt", r"impl\s+AesGcm256\s*\{", None, False),
        (gsrc_main, F_GCM, "into_tag", "AesGcm256_into_tag", r"impl\s+AesGcm256\s*\{", "bytes", False),
        (gsrc_main, F_GCM, "decrypt_unauthenticated", "AesGcm256_decrypt_unauthenticated", r"impl\s+AesGcm256\s*\{", None, False),
        (gsrc_main, F_GCM, "decrypt", "AesGcm256_decrypt", r"impl\s+AesGcm256\s*\{", "bytes", False),
        (esrc_main, F_ECC, "derive_key", "derive_key", None, "bytes", True),
        (esrc_main, F_ECC, "count_keys", "count_keys", r"impl\s+MultiRecipientPersistent\s*\{", "N", False),
        (esrc_main, F_ECC, "store_key_for_multi_recipients", "store_key_for_multi_recipients", None, "mrp", True),
        (esrc_main, F_ECC, "retrieve_key", "retrieve_key", None, "optbytes", True),
    ]
    for src, path, rust, coqname, within, rk, wrapped in fns:
        try:
            if not structs_ok:
                raise ParseError("struct declarations changed")
            txt = g.function(src, path, rust, coqname, within, consts, rk, wrapped)
            # hkdf.expand(..)? is a statement with `?`: handled in effect through a rewrite below
            g.items.append(txt)
        except (ParseError, KeyError, IndexError, ValueError, AttributeError, TypeError) as ex:
            g.fail(coqname, "%s: %s" % (type(ex).__name__, ex))
    text = (PRELUDE.split("Section CryptoSrc.")[0] + "\n".join(pre_items) + "\n\n"
            + "Section CryptoSrc." + PRELUDE.split("Section CryptoSrc.")[1]
            + "\n" + "\n".join(indent(x) for x in g.items) + "\nEnd CryptoSrc.\n")
    try:
        same = open(OUT).read() == text
    except OSError:
        same = False
    if not same:                      # keep the time stamp when nothing changed (make)
        with open(OUT, "w") as f:
            f.write(text)
    if g.failed:
        for n, why in g.failed:
            print("src2v3_crypto: FAILED CLOSED %s: %s" % (n, why))
    print("src2v3_crypto: %s %s (%d items, %d failed closed)" % ("unchanged" if same else "wrote", OUT, len(g.items) + len(pre_items), len(g.failed)))


if __name__ == "__main__":
    main()
