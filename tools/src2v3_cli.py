#!/usr/bin/env python3
"""Tie A, level 1 for the extraction path of `mlar` (work package linearT): regenerate coq/gen/Src3x.v.

Translated statement by statement from /repo/mlar/src/main.rs (parser: tools/rustmini.py) into Gallina over the
model file system of theories/Path.v, the pool of theories/Pool.v, the translated ArchiveReader of gen/Src3d.v and
the translated helpers::linear_extract of gen/Src3l.v:

  get_extracted_path (the whole function: to_path_buf, the loop over the components, every arm, the exits)
  create_file        (let-else / `?` / if, in source order; the D23 test before File::create)
  FileWriter::write  (contains / open / put / get_mut / write, as the code orders them)
  ExtractFileNameMatcher::match_file_name
  extract            (from `let mut iter` on: the whole-archive form = pre-pass + linear_extract, and the
                      per-name loop; the statements before — clap accessors, open_mla_file, creation and
                      canonicalisation of the output directory — are checked to be the known ones, in order,
                      and handed in as parameters: the opened reader `mla`, the CANONICAL `output_dir`, the
                      matcher, `verbose`)

theories/SrcTie3Cli.v proves them equal to / simulated by Path.get_extracted_path, Path.create_file,
Pool.pool_write, Path.create_all + Pool.append_blocks_pool (extract_linear_pool) and
CliExtract.extract_listed_loop, and carries the C16 confinement theorem over to the translated `extract`.

Trusted mapping of primitives (file system = the model FS of Path.v; `f` is the file system at that point):
  p.to_path_buf(), x.as_ref(), &x, x.clone()     -> the same value
  Path::new(name).components()                   -> Path.components name      (56 rustc-generated examples in Path.v)
  Component::Prefix(..)                          -> no such component on Unix (the alternative is dropped)
  buf.push(part)  (part: a Normal component)     -> buf ++ [part]
  p.parent()                                     -> path_parent p  (None for "/")
  p.exists()                                     -> sys_exists f p        = sys_ok p && Path.exists_ f p
  fs::create_dir_all(p)                          -> sys_create_dir_all f p = Path.create_dir_all f p when sys_ok p, else error
  fs::canonicalize(p)                            -> Path.canonicalize f p
  fs::create_dir(p)                              -> PathDir.sys_create_dir f p  (mkdir: parent resolved, last component must not exist)
  a.starts_with(b)                               -> Path.prefixb b a
  fs::symlink_metadata(p).is_ok_and(|m| m.file_type().is_symlink())  -> Path.sys_is_symlink f p
  File::create(p)                                -> Path.sys_file_create f p   (the File is the physical path it refers to)
  fs::OpenOptions::new().append(true).open(p)    -> Pool.pool_open RAppend f p  (.write(true) -> RWrite; + .truncate(true) -> RTruncate)
  self.cache.lock().unwrap(), drop(cache)        -> the pool itself (one thread)
  LruCache::{contains, put, get_mut}             -> lru_contains (no promotion), lru_put (evicts the LRU at capacity), lru_get_mut (promotes)
  file.write(buf)                                -> Pool.handle_write (the whole buffer accepted: a failing / partial write is not modelled)
  x.map_err(|err| { eprintln!(..); err })        -> x     (the error is passed on unchanged)
  eprintln!, println!                            -> nothing (the output is not part of these functions' model)
  an io / Mlar error                             -> Err EIo (the class; messages are not modelled)
  iter.sort()                                    -> section variable `sort` (Cli.sort_names in the tie)
  mla.list_files()?.cloned().collect()           -> Src3d.list_files;  mla.get_file(n) -> Src3d.get_file
  linear_extract(&mut mla, &mut export)          -> Src3l.linear_extract over the keys of `export`; what its log says each
                                                    writer received reaches FileWriter::write cut into buffers by `cut`
                                                    (io::copy + write_all), in order: run_writers
  io::copy(&mut sub_file.data, &mut file)        -> section variable io_copy_file (std's copy loop over the reads of
                                                    BlocksToFileReader::read, tied by SrcTie3Reader.bfr_read_sim), then
                                                    Path.write_at through the handle; the ArchiveFile borrows mla.src
  for x in list { .. continue .. `?` .. }        -> Fixpoint on the list
  pat.matches(name)                              -> section variable glob_matches

FAILS CLOSED per item: anything not recognised -> `Definition <name>_untranslatable : unit := tt.`
"""
import os
import re
import sys

sys.path.insert(0, os.path.dirname(os.path.abspath(__file__)))
import rustmini as R  # noqa: E402
from rustmini import ParseError, strip_paren, show  # noqa: E402
from src2v3_linear import fn_params  # noqa: E402

REPO = os.environ.get("VERIF_REPO", "/repo")
OUT = os.environ.get("VERIF_SRC3X_OUT") or os.path.join(os.path.dirname(os.path.abspath(__file__)), "..", "coq", "gen", "Src3x.v")

PRINTS = ("eprintln", "println", "eprint", "print")


def read_file(rel):
    with open(os.path.join(REPO, rel), encoding="utf-8") as f:
        return f.read()


def unref(e):
    e = strip_paren(e)
    while True:
        if e[0] == "un" and e[1] in ("&", "&mut", "*"):
            e = strip_paren(e[2])
        elif e[0] == "mcall" and e[2] in ("as_ref", "clone", "to_path_buf", "as_path") and not e[3]:
            e = strip_paren(e[1])
        else:
            return e


def is_print(st):
    if st[0] in ("semi", "expr"):
        e = strip_paren(st[1])
        return e[0] == "macro" and e[1] in PRINTS
    return False


def only_prints(block):
    return block[2] is None and all(is_print(s) for s in block[1])


def str_lit(e):
    e = strip_paren(e)
    if e[0] == "str" and e[1].startswith('"'):
        body = e[1][1:-1]
        if "\\" in body:
            raise ParseError("escape in string literal")
        return "[%s]" % "; ".join(str(b) for b in body.encode())
    return None


class V:
    def __init__(self, text, kind, extra=None):
        self.text, self.kind, self.extra = text, kind, extra


class Ctx:
    def __init__(self):
        self.locals = {}
        self.state = {}        # name of a threaded state -> current Gallina text  (f, pl, mla)
        self.exit = None       # callable(ctx, res text) -> Gallina
        self.loop = None       # callable(ctx) -> Gallina : `continue`
        self.self = None

    def copy(self):
        c = Ctx()
        c.locals, c.state = dict(self.locals), dict(self.state)
        c.exit, c.loop, c.self = self.exit, self.loop, self.self
        return c


class XTr:
    def __init__(self, consts):
        self.n = 0
        self.extra = []         # auxiliary Fixpoints emitted before the item
        self.consts = consts

    def fresh(self, base):
        self.n += 1
        return "%s%d" % (re.sub(r"\W", "", base) or "v", self.n)

    # ------------------------------------------------------------ pure expressions
    def pe(self, e, c):
        u = unref(e)
        k = u[0]
        if k == "path":
            if u[1] in c.locals:
                return c.locals[u[1]]
            if u[1] in ("true", "false"):
                return V(u[1], "bool")
            raise ParseError("unknown name " + u[1])
        if k == "field" and strip_paren(u[1]) == ("path", "self") and c.self:
            for f, acc, kind in c.self:
                if f == u[2]:
                    return V("(%s self)" % acc, kind)
        if k == "field" and u[2] == "data":
            b = self.pe(u[1], c)
            if b.kind == "archivefile":
                return V(b.extra["data"], "bfr")
        if k == "un" and u[1] == "!":
            v = self.pe(u[2], c)
            if v.kind != "bool":
                raise ParseError("! on a " + v.kind)
            return V("(negb %s)" % v.text, "bool")
        if k == "bin" and u[1] in ("&&", "||"):
            a, b = self.pe(u[2], c), self.pe(u[3], c)
            if a.kind != "bool" or b.kind != "bool":
                raise ParseError("boolean operator on " + a.kind)
            return V("(%s %s %s)" % (a.text, u[1], b.text), "bool")
        if k == "call" and u[1][0] == "path":
            fn, args = u[1][1], u[2]
            if fn == "Path::new" and len(args) == 1:
                return self.pe(args[0], c)
            if fn == "get_extracted_path" and len(args) == 2 and "get_extracted_path" in self.consts:
                a, b = self.pe(args[0], c), self.pe(args[1], c)
                if a.kind == "path" and b.kind == "bytes":
                    return V("(get_extracted_path %s %s)" % (a.text, b.text), "optpath")
        if k == "mcall":
            recv, m, args = u[1], u[2], u[3]
            if m == "components" and not args:
                r = self.pe(recv, c)
                if r.kind == "bytes":
                    return V("(components %s)" % r.text, "components")
            if m == "parent" and not args:
                r = self.pe(recv, c)
                if r.kind == "path":
                    return V("(path_parent %s)" % r.text, "optpath")
            if m == "exists" and not args:
                r = self.pe(recv, c)
                if r.kind == "path":
                    return V("(sys_exists %s %s)" % (c.state["f"], r.text), "bool")
            if m == "starts_with" and len(args) == 1:
                a, b = self.pe(recv, c), self.pe(args[0], c)
                if a.kind == "path" and b.kind == "path":
                    return V("(prefixb %s %s)" % (b.text, a.text), "bool")
            if m == "contains" and len(args) == 1:
                r = self.pe(recv, c)
                lit = str_lit(args[0])
                if r.kind == "bytes" and lit is not None:
                    return V("(bytes_contains %s %s)" % (r.text, lit), "bool")
                if r.kind == "cache":
                    a = self.pe(args[0], c)
                    if a.kind == "path":
                        return V("(lru_contains %s %s)" % (c.state["pl"], a.text), "bool")
                if r.kind == "nameset":
                    a = self.pe(args[0], c)
                    if a.kind == "bytes":
                        return V("(existsb (bytes_eqb %s) %s)" % (a.text, r.text), "bool")
            if m == "is_empty" and not args:
                r = self.pe(recv, c)
                if r.kind in ("nameset", "patterns"):
                    return V("(match %s with [] => true | _ => false end)" % r.text, "bool")
            if m == "any" and len(args) == 1:
                it = strip_paren(recv)
                cl = strip_paren(args[0])
                if it[0] == "mcall" and it[2] == "iter" and not it[3] and cl[0] == "closure":
                    r = self.pe(it[1], c)
                    b = strip_paren(cl[2])
                    if r.kind == "patterns" and re.fullmatch(r"\w+", cl[1]) and b[0] == "mcall" and b[2] == "matches" \
                            and strip_paren(b[1]) == ("path", cl[1]) and len(b[3]) == 1:
                        a = self.pe(b[3][0], c)
                        if a.kind == "bytes":
                            return V("(existsb (fun %s => glob_matches %s %s) %s)" % (cl[1], cl[1], a.text, r.text), "bool")
            if m == "match_file_name" and len(args) == 1 and "match_file_name" in self.consts:
                r, a = self.pe(recv, c), self.pe(args[0], c)
                if r.kind == "matcher" and a.kind == "bytes":
                    return V("(match_file_name %s %s)" % (r.text, a.text), "bool")
            if m == "is_ok_and" and len(args) == 1:
                r0 = strip_paren(recv)
                if r0[0] == "call" and r0[1] == ("path", "fs::symlink_metadata") and len(r0[2]) == 1:
                    cl = strip_paren(args[0])
                    if cl[0] == "closure" and re.fullmatch(r"\w+", cl[1]) and show(strip_paren(cl[2])) == "%s.file_type().is_symlink()" % cl[1]:
                        p = self.pe(r0[2][0], c)
                        if p.kind == "path":
                            return V("(sys_is_symlink %s %s)" % (c.state["f"], p.text), "bool")
        if k == "macro" and u[1] == "matches" and u[3] is not None and len(u[3]) == 2:
            v = self.pe(u[3][0], c)
            pat = strip_paren(u[3][1])
            if v.kind == "matcher" and pat[0] == "path" and pat[1].startswith("ExtractFileNameMatcher::"):
                con = pat[1].split("::")[1]
                if con in ("Files", "GlobPatterns", "Anything") and con == "Anything":
                    return V("(match %s with %s => true | _ => false end)" % (v.text, con), "bool")
        raise ParseError("expression " + show(e)[:70])

    # ------------------------------------------------------------ effectful values
    def strip_map_err(self, x):
        """x.map_err(|err| { prints; err }) -> x"""
        x = strip_paren(x)
        if x[0] == "mcall" and x[2] == "map_err" and len(x[3]) == 1:
            cl = strip_paren(x[3][0])
            if cl[0] != "closure" or not re.fullmatch(r"\w+", cl[1]):
                raise ParseError("map_err closure")
            b = strip_paren(cl[2])
            if b[0] == "block":
                if not all(is_print(s) for s in b[1]) or b[2] is None or strip_paren(b[2]) != ("path", cl[1]):
                    raise ParseError("map_err closure changes the error")
            elif b != ("path", cl[1]):
                raise ParseError("map_err closure changes the error")
            return strip_paren(x[1])
        return x

    def try_val(self, x, c, k):
        """value of `x?` -> k(V, ctx)"""
        x = self.strip_map_err(x)
        if x[0] == "call" and x[1][0] == "path":
            fn, args = x[1][1], x[2]
            f = c.state.get("f")
            if fn == "fs::create_dir_all" and len(args) == 1:
                p = self.pe(args[0], c)
                if p.kind != "path":
                    raise ParseError("create_dir_all argument")
                f1 = self.fresh("f")
                c2 = c.copy()
                c2.state["f"] = f1
                return "match sys_create_dir_all %s %s with\n    | (%s, true) =>\n    %s\n    | (%s, false) => %s\n    end" % (
                    f, p.text, f1, k(V("tt", "unit"), c2), f1, c2.exit(c2, "Err EIo"))
            if fn == "fs::create_dir" and len(args) == 1:
                p = self.pe(args[0], c)
                if p.kind != "path":
                    raise ParseError("create_dir argument")
                f1 = self.fresh("f")
                c2 = c.copy()
                c2.state["f"] = f1
                return "match sys_create_dir %s %s with\n    | Some %s =>\n    %s\n    | None => %s\n    end" % (
                    f, p.text, f1, k(V("tt", "unit"), c2), c.exit(c, "Err EIo"))
            if fn == "fs::canonicalize" and len(args) == 1:
                p = self.pe(args[0], c)
                if p.kind != "path":
                    raise ParseError("canonicalize argument")
                q = self.fresh("q")
                return "match canonicalize %s %s with\n    | Some %s =>\n    %s\n    | None => %s\n    end" % (
                    f, p.text, q, k(V(q, "path"), c), c.exit(c, "Err EIo"))
            if fn == "File::create" and len(args) == 1:
                p = self.pe(args[0], c)
                if p.kind != "path":
                    raise ParseError("File::create argument")
                f1, h = self.fresh("f"), self.fresh("file")
                c2 = c.copy()
                c2.state["f"] = f1
                return "match sys_file_create %s %s with\n    | Some (%s, %s) =>\n    %s\n    | None => %s\n    end" % (
                    f, p.text, f1, h, k(V(h, "file"), c2), c.exit(c, "Err EIo"))
            if fn == "create_file" and len(args) == 2 and "create_file" in self.consts:
                a, b = self.pe(args[0], c), self.pe(args[1], c)
                if a.kind != "path" or b.kind != "bytes":
                    raise ParseError("create_file arguments")
                f1, r = self.fresh("f"), self.fresh("r")
                c2 = c.copy()
                c2.state["f"] = f1
                return "match create_file %s %s %s with\n    | (%s, Ok %s) =>\n    %s\n    | (%s, Err e) => %s\n    | (%s, Crash x) => %s\n    end" % (
                    a.text, b.text, f, f1, r, k(V(r, "optfilepath"), c2), f1, c2.exit(c2, "Err e"), f1, c2.exit(c2, "Crash x"))
        if x[0] == "mcall":
            # fs::OpenOptions::new().<flags>.open(p)
            chain, y = [], x
            while y[0] == "mcall":
                chain.append((y[2], y[3]))
                y = strip_paren(y[1])
            chain.reverse()
            if y[0] == "call" and y[1] == ("path", "fs::OpenOptions::new") and not y[2] and chain and chain[-1][0] == "open" and len(chain[-1][1]) == 1:
                flags = []
                for nm, a in chain[:-1]:
                    if len(a) != 1 or strip_paren(a[0]) != ("path", "true"):
                        raise ParseError("open flag " + nm)
                    flags.append(nm)
                mode = {("append",): "RAppend", ("write",): "RWrite", ("truncate", "write"): "RTruncate"}.get(tuple(sorted(flags)))
                if mode is None:
                    raise ParseError("open flags %s" % flags)
                p = self.pe(chain[-1][1][0], c)
                if p.kind != "path":
                    raise ParseError("open argument")
                f1, h = self.fresh("f"), self.fresh("file")
                c2 = c.copy()
                c2.state["f"] = f1
                return "match pool_open %s %s %s with\n    | Some (%s, %s) =>\n    %s\n    | None => %s\n    end" % (
                    mode, c.state["f"], p.text, f1, h, k(V(h, "handle"), c2), c.exit(c, "Err EIo"))
            if x[2] == "list_files" and not x[3]:
                m = self.pe(x[1], c)
                if m.kind == "mla":
                    m1, r = self.fresh("mla"), self.fresh("names")
                    c2 = c.copy()
                    c2.state["mla"] = m1
                    c2.locals[unref(x[1])[1]] = V(m1, "mla")
                    return "match Src3d.list_files S %s with\n    | (%s, Ok %s) =>\n    %s\n    | (_, Err e) => %s\n    | (_, Crash x) => %s\n    end" % (
                        m.text, m1, r, k(V(r, "names"), c2), c.exit(c, "Err e"), c.exit(c, "Crash x"))
        raise ParseError("`?` on " + show(x)[:70])

    def val(self, e, c, k):
        e0 = strip_paren(e)
        if e0[0] == "try":
            return self.try_val(strip_paren(e0[1]), c, k)
        # <list_files()?>.cloned().collect()
        if e0[0] == "mcall" and e0[2] == "collect" and not e0[3]:
            r = strip_paren(e0[1])
            if r[0] == "mcall" and r[2] == "cloned" and not r[3]:
                return self.val(r[1], c, k)
        return k(self.pe(e, c), c)

    # ------------------------------------------------------------ statements
    def stmts(self, items, tail, c, k):
        items = [s for s in items if not is_print(s)]
        if not items:
            if tail is None:
                if k is None:
                    raise ParseError("block without value at an exit")
                return k(c)
            return self.tail(strip_paren(tail), c, k)
        st, rest = items[0], items[1:]
        cont = lambda c2: self.stmts(rest, tail, c2, k)
        if st[0] == "let":
            return self.let(st, c, cont)
        return self.effect(strip_paren(st[1]), c, cont)

    def tail(self, t, c, k):
        if t[0] in ("if", "match", "for", "return", "continue", "block"):
            return self.effect(t, c, k)
        if t[0] == "macro" and t[1] in PRINTS and k is not None:
            return k(c)
        return self.ret(t, c)

    def ret(self, t, c):
        """the function's result expression"""
        t = strip_paren(t)
        if t[0] == "call" and t[1] == ("path", "Ok") and len(t[2]) == 1:
            a = strip_paren(t[2][0])
            if a == ("unit",):
                return c.exit(c, "Ok tt")
            if a == ("path", "None"):
                return c.exit(c, "Ok None")
            if a[0] == "call" and a[1] == ("path", "Some") and len(a[2]) == 1:
                inner = strip_paren(a[2][0])
                if inner[0] == "tuple" and len(inner[1]) == 2:
                    return self.val(inner[1][0], c, lambda v1, c1: self.val(inner[1][1], c1, lambda v2, c2: c2.exit(
                        c2, "Ok (Some (%s, %s))" % (v1.text, v2.text))))
            if a[0] == "try":
                x = strip_paren(a[1])
                if x[0] == "call" and x[1] == ("path", "linear_extract") and len(x[2]) == 2:
                    return self.linear_call(x, c)
        if t[0] == "path" and t[1] in c.locals and c.locals[t[1]].kind == "result":
            return c.exit(c, c.locals[t[1]].text)
        if t[0] == "path" and t[1] == "None" and c.locals.get("__ret") == "option":
            return "None"
        if t[0] == "call" and t[1] == ("path", "Some") and len(t[2]) == 1 and c.locals.get("__ret") == "option":
            return "Some %s" % self.pe(t[2][0], c).text
        v = None
        try:
            v = self.pe(t, c)
        except ParseError:
            pass
        if v is not None and v.kind == "bool" and c.locals.get("__ret") == "bool":
            return v.text
        raise ParseError("result expression " + show(t)[:60])

    def linear_call(self, x, c):
        if "linear_extract" not in self.consts:
            raise ParseError("linear_extract is not translated")
        m, ex = self.pe(x[2][0], c), self.pe(x[2][1], c)
        if m.kind != "mla" or ex.kind != "fwmap" or "cache" not in c.locals or c.locals["cache"].kind != "cachecell":
            raise ParseError("arguments of linear_extract")
        return ("let '(e1, r) := Src3l.linear_extract S FNMAX T_START T_CONTENT T_EOA T_EOF lfuel %s (Src3l.mkExport (fw_keys %s) []) in\n"
                "    match run_writers %s %s (Src3l.ex_log e1) %s %s with\n"
                "    | ((f9, _), Ok _) => (f9, r)\n    | ((f9, _), Err e) => (f9, Err e)\n    | ((f9, _), Crash x) => (f9, Crash x)\n    end"
                % (m.text, ex.text, c.locals["cache"].extra, ex.text, c.state["f"], c.locals["cache"].text))

    def let(self, st, c, cont):
        _, pat, ty, e, els = st
        if e is None:
            raise ParseError("let without value")
        pat = re.sub(r"\bmut ", "", pat)
        if els is not None:
            if els[2] is not None and strip_paren(els[2])[0] not in ("return", "continue"):
                raise ParseError("let-else block does not diverge")
            def k(v, c2):
                other = self.stmts(list(els[1]), els[2], c2.copy(), None)
                return self.opt_match(pat, v, c2, cont, lambda c3: other)
            return self.val(e, c, k)
        e0 = strip_paren(e)
        # let mut cache = self.cache.lock().unwrap();
        if show(e0) == "self.cache.lock().unwrap()" and c.self:
            c.locals[pat] = V("", "cache")
            return cont(c)
        # let file = cache.get_mut(&self.path).unwrap();
        if e0[0] == "mcall" and e0[2] == "unwrap" and not e0[3]:
            g = strip_paren(e0[1])
            if g[0] == "mcall" and g[2] == "get_mut" and len(g[3]) == 1 and self.pe(g[1], c).kind == "cache":
                p = self.pe(g[3][0], c)
                if p.kind != "path":
                    raise ParseError("get_mut key")
                h, pl1 = self.fresh("file"), self.fresh("pl")
                c2 = c.copy()
                c2.state["pl"] = pl1
                c2.locals[pat] = V(h, "handle_in_cache")
                return "match lru_get_mut %s %s with\n    | None => %s\n    | Some (%s, %s) =>\n    %s\n    end" % (
                    c.state["pl"], p.text, c.exit(c, "Crash site_unwrap"), h, pl1, cont(c2))
        # let result = file.write(buf);
        if e0[0] == "mcall" and e0[2] == "write" and len(e0[3]) == 1:
            h = self.pe(e0[1], c)
            b = self.pe(e0[3][0], c)
            if h.kind == "handle_in_cache" and b.kind == "bytes":
                f1, h1, pl1 = self.fresh("f"), self.fresh("file"), self.fresh("pl")
                c.locals[pat] = V("Ok (len %s)" % b.text, "result")
                txt = "let '(%s, %s) := handle_write %s %s %s in\n    let %s := lru_set_mru %s %s in\n    " % (
                    f1, h1, c.state["f"], h.text, b.text, pl1, c.state["pl"], h1)
                c.state["f"], c.state["pl"] = f1, pl1
                return txt + cont(c)
        # let cache = Mutex::new(LruCache::new(NonZeroUsize::new(FILE_WRITER_POOL_SIZE).unwrap()));
        if re.sub(r"\s", "", show(e0)) == "Mutex::new(LruCache::new(NonZeroUsize::new(FILE_WRITER_POOL_SIZE).unwrap()))":
            c.locals[pat] = V("[]", "cachecell", "(N.to_nat FILE_WRITER_POOL_SIZE) cut")
            return cont(c)
        if e0[0] == "call" and e0[1] == ("path", "HashMap::new") and not e0[2]:
            if ty is None or re.sub(r"\s", "", ty) != "HashMap<&String,FileWriter>":
                raise ParseError("type of the export map")
            c.locals[pat] = V("[]", "fwmap")
            return cont(c)
        # let mut sub_file = match mla.get_file(fname.clone()) { Err(err) => {..; continue;} Ok(None) => {..; continue;} Ok(Some(subfile)) => subfile, };
        if e0[0] == "match":
            return self.get_file_match(pat, e0, c, cont)
        if not re.fullmatch(r"\w+", pat):
            raise ParseError("let pattern " + pat)
        def k(v, c2):
            if re.fullmatch(r"\w+", v.text) or v.kind in ("unit",):
                c2.locals[pat] = v
                return cont(c2)
            g = self.fresh(pat)
            c2.locals[pat] = V(g, v.kind)
            return "let %s := %s in\n    %s" % (g, v.text, cont(c2))
        return self.val(e, c, k)

    def opt_match(self, pat, v, c, some_k, none_k):
        """match an option-valued V against `Some(x)` / `Some((a, b))`"""
        c1, c2 = c.copy(), c.copy()
        m1 = re.fullmatch(r"Some\((\w+)\)", pat)
        m2 = re.fullmatch(r"Some\(\((\w+),(\w+)\)\)", pat)
        if v.kind == "optpath" and m1:
            g = self.fresh(m1.group(1))
            c1.locals[m1.group(1)] = V(g, "path")
            return "match %s with\n    | Some %s =>\n    %s\n    | None =>\n    %s\n    end" % (v.text, g, some_k(c1), none_k(c2))
        if v.kind == "optfilepath" and m2:
            a, b = self.fresh(m2.group(1)), self.fresh(m2.group(2))
            c1.locals[m2.group(1)] = V(a, "file")
            c1.locals[m2.group(2)] = V(b, "path")
            return "match %s with\n    | Some (%s, %s) =>\n    %s\n    | None =>\n    %s\n    end" % (v.text, a, b, some_k(c1), none_k(c2))
        raise ParseError("option pattern %s on a %s" % (pat, v.kind))

    def get_file_match(self, pat, e0, c, cont):
        scrut = strip_paren(e0[1])
        if not (scrut[0] == "mcall" and scrut[2] == "get_file" and len(scrut[3]) == 1 and self.pe(scrut[1], c).kind == "mla"):
            raise ParseError("match on " + show(scrut)[:50])
        nm = self.pe(scrut[3][0], c)
        if nm.kind != "bytes":
            raise ParseError("get_file argument")
        m1, sub = self.fresh("mla"), self.fresh("subfile")
        c0 = c.copy()
        c0.state["mla"] = m1
        c0.locals[unref(scrut[1])[1]] = V(m1, "mla")
        arms = {}
        for p, g, body in e0[2]:
            if g is not None:
                raise ParseError("guard")
            p = re.sub(r"\bmut ", "", p)
            key = "Err" if re.fullmatch(r"Err\(\w+\)", p) else "None" if p == "Ok(None)" else "Some" if re.fullmatch(r"Ok\(Some\((\w+)\)\)", p) else None
            if key is None or key in arms:
                raise ParseError("get_file arm " + p)
            arms[key] = (p, strip_paren(body))
        if sorted(arms) != ["Err", "None", "Some"]:
            raise ParseError("get_file arms")
        sp, sb = arms["Some"]
        var = re.fullmatch(r"Ok\(Some\((\w+)\)\)", sp).group(1)
        if sb != ("path", var):
            raise ParseError("get_file Some arm")
        c1 = c0.copy()
        d = self.fresh("data")
        c1.locals[pat] = V(sub, "archivefile", {"data": d})
        def other(key):
            b = arms[key][1]
            if b[0] != "block":
                raise ParseError("get_file arm body")
            return self.stmts(list(b[1]), b[2], c0.copy(), None)
        return ("match Src3d.get_file S FNMAX T_START T_CONTENT T_EOA T_EOF site_index %s %s with\n    | (%s, Ok (Some (_, %s, _))) =>\n    %s\n"
                "    | (%s, Ok None) =>\n    %s\n    | (%s, Err _) =>\n    %s\n    | (%s, Crash x) => %s\n    end"
                % (c.state["mla"], nm.text, m1, d, cont(c1), m1, other("None"), m1, other("Err"), m1, c0.exit(c0, "Crash x")))

    def effect(self, e, c, cont):
        k = e[0]
        if k == "macro" and e[1] in PRINTS:
            return cont(c)
        if k == "block":
            return self.stmts(list(e[1]), e[2], c, cont)
        if k == "try":
            x = strip_paren(e[1])
            y = self.strip_map_err(x)
            if y[0] == "call" and y[1][0] == "path" and y[1][1] in ("io::copy", "std::io::copy") and len(y[2]) == 2:
                return self.copy_file(y, c, cont)
            return self.try_val(x, c, lambda v, c2: cont(c2))
        if k == "return":
            if e[1] is None:
                raise ParseError("bare return")
            if c.loop is not None and c.locals.get("__ret") != "option":
                raise ParseError("return inside a loop")
            return self.ret(e[1], c)
        if k == "continue":
            if c.loop is None or e[1] is not None:
                raise ParseError("continue")
            return c.loop(c)
        if k == "if":
            return self.if_(e, c, cont)
        if k == "for":
            return self.for_(e, c, cont)
        if k == "match":
            return self.match(e, c, cont)
        if k == "call" and e[1] == ("path", "drop") and len(e[2]) == 1 and self.pe(e[2][0], c).kind == "cache":
            return cont(c)
        if k == "mcall":
            recv, m, args = e[1], e[2], e[3]
            r = self.pe(recv, c)
            if r.kind == "pathbuf" and m == "push" and len(args) == 1:
                a = self.pe(args[0], c)
                if a.kind != "normalpart":
                    raise ParseError("push of a " + a.kind)
                g = self.fresh(unref(recv)[1])
                c.locals[unref(recv)[1]] = V(g, "pathbuf")
                return "let %s := pathbuf_push %s %s in\n    %s" % (g, r.text, a.text, cont(c))
            if r.kind == "cache" and m == "put" and len(args) == 2:
                a, b = self.pe(args[0], c), self.pe(args[1], c)
                if a.kind != "path" or b.kind != "handle":
                    raise ParseError("put arguments")
                g = self.fresh("pl")
                txt = "let %s := lru_put cap %s %s %s in\n    " % (g, c.state["pl"], a.text, b.text)
                c.state["pl"] = g
                return txt + cont(c)
            if r.kind == "names" and m == "sort" and not args:
                g = self.fresh(unref(recv)[1])
                c.locals[unref(recv)[1]] = V(g, "names")
                return "let %s := sort %s in\n    %s" % (g, r.text, cont(c))
            if r.kind == "fwmap" and m == "insert" and len(args) == 2:
                a = self.pe(args[0], c)
                lit = strip_paren(args[1])
                if a.kind != "bytes" or lit[0] != "struct" or lit[1] != "FileWriter" or [f for f, _ in lit[2]] != ["path", "cache", "verbose", "fname"]:
                    raise ParseError("export.insert arguments")
                fl = dict(lit[2])
                cv = unref(fl["cache"])
                if not (cv[0] == "path" and cv[1] in c.locals and c.locals[cv[1]].kind == "cachecell"):
                    raise ParseError("cache of the FileWriter")
                p, vb, fn = self.pe(fl["path"], c), self.pe(fl["verbose"], c), self.pe(fl["fname"], c)
                if (p.kind, vb.kind, fn.kind) != ("path", "bool", "bytes"):
                    raise ParseError("fields of the FileWriter")
                g = self.fresh(unref(recv)[1])
                c.locals[unref(recv)[1]] = V(g, "fwmap")
                return "let %s := fw_insert %s %s (mkFW %s %s %s) in\n    %s" % (g, r.text, a.text, p.text, vb.text, fn.text, cont(c))
        raise ParseError("statement " + show(e)[:70])

    def copy_file(self, y, c, cont):
        """io::copy(&mut sub_file.data, &mut extracted_file)?"""
        a, b = self.pe(y[2][0], c), self.pe(y[2][1], c)
        if a.kind != "bfr" or b.kind != "file":
            raise ParseError("io::copy arguments")
        d1, d, r, f1, m1 = self.fresh("data"), self.fresh("d"), self.fresh("r"), self.fresh("f"), self.fresh("mla")
        c2 = c.copy()
        c2.state["f"], c2.state["mla"] = f1, m1
        for n, v in c.locals.items():
            if v.kind == "mla":
                c2.locals[n] = V(m1, "mla")
        return ("match io_copy_file %s with\n    | (%s, %s, %s) =>\n    let %s := write_at %s %s %s in\n    let %s := Src3d.set_ar_src S %s (Src3d.bfr_src S %s) in\n"
                "    match %s with\n    | Ok _ =>\n    %s\n    | Err e => %s\n    | Crash x => %s\n    end\n    end"
                % (a.text, d1, d, r, f1, c.state["f"], b.text, d, m1, c.state["mla"], d1, r, cont(c2), c2.exit(c2, "Err e"), c2.exit(c2, "Crash x")))

    def if_(self, e, c, cont):
        _, cond, th, el = e
        if cond[0] == "letcond":
            if el is not None:
                raise ParseError("if let with else")
            pat = re.sub(r"\bmut ", "", cond[1])
            return self.val(cond[2], c, lambda v, c2: self.opt_match(
                pat, v, c2, lambda c3: self.stmts(list(th[1]), th[2], c3, cont), cont))
        if el is None and only_prints(th):
            self.pe(cond, c)     # must still be a known pure condition
            return cont(c)
        cv = self.pe(cond, c)
        if cv.kind != "bool":
            raise ParseError("condition " + show(cond)[:60])
        c1, c2 = c.copy(), c.copy()
        a = self.stmts(list(th[1]), th[2], c1, cont)
        if el is None:
            if cont is None:
                raise ParseError("if without else at an exit")
            b = cont(c2)
        elif el[0] == "if":
            b = self.if_(el, c2, cont)
        else:
            b = self.stmts(list(el[1]), el[2], c2, cont)
        return "if %s then\n    %s\n    else\n    %s" % (cv.text, a, b)

    def match(self, e, c, cont):
        v = self.pe(e[1], c)
        if v.kind == "component":
            want = {"RootDir": "RootDir", "CurDir": "CurDir", "ParentDir": "ParentDir", "Normal": "Normal"}
            out, seen = [], []
            for pat, guard, body in e[2]:
                if guard is not None:
                    raise ParseError("guard")
                heads = []
                c2 = c.copy()
                for alt in pat.split("|"):
                    m = re.fullmatch(r"Component::(\w+)(?:\((\.\.|\w+)\))?", alt)
                    if not m:
                        raise ParseError("component pattern " + alt)
                    if m.group(1) == "Prefix":
                        continue       # no Prefix component on Unix
                    if m.group(1) not in want or m.group(1) in seen:
                        raise ParseError("component pattern " + alt)
                    seen.append(m.group(1))
                    if m.group(1) == "Normal":
                        if not m.group(2) or m.group(2) == "..":
                            raise ParseError("Normal pattern")
                        g = self.fresh(m.group(2))
                        c2.locals[m.group(2)] = V(g, "normalpart")
                        heads.append("Normal %s" % g)
                    else:
                        if m.group(2):
                            raise ParseError("component pattern " + alt)
                        heads.append(m.group(1))
                if not heads:
                    continue
                b = strip_paren(body)
                t = self.stmts(list(b[1]), b[2], c2, cont) if b[0] == "block" else self.effect(b, c2, cont)
                out.append("| %s =>\n    %s" % (" | ".join(heads), t))
            if sorted(seen) != sorted(want):
                raise ParseError("match on the component not exhaustive")
            return "match %s with\n    %s\n    end" % (v.text, "\n    ".join(out))
        raise ParseError("match on a " + v.kind)

    def for_(self, e, c, cont):
        _, lab, pat, it, body = e
        if lab is not None or not re.fullmatch(r"\w+", pat) or c.loop is not None:
            raise ParseError("for loop head")
        lst = self.pe(it, c)
        elem = {"components": ("component", "component"), "names": ("bytes", "bytes")}.get(lst.kind)
        if elem is None:
            raise ParseError("for over a " + lst.kind)
        text = show(body)
        def used(n):
            return re.search(r"\b%s\b" % re.escape(n), text) is not None
        carried_kinds = {"pathbuf": "path", "fwmap": "FwMap", "mla": "ArchiveReader"}
        const_kinds = {"path": "path", "bool": "bool", "matcher": "Matcher", "bytes": "bytes"}
        carried = [(n, v) for n, v in c.locals.items() if not n.startswith("__") and v.kind in carried_kinds and used(n)]
        consts = [(n, v) for n, v in c.locals.items() if not n.startswith("__") and v.kind in const_kinds and used(n)]
        states = [s for s in ("f",) if s in c.state]
        self.nloops = getattr(self, "nloops", 0) + 1
        name = "%s_for%d" % (self.consts["__item"], self.nloops)
        is_opt = c.locals.get("__ret") == "option"
        ci = Ctx()
        ci.self = c.self
        ci.locals = {n: V(n, v.kind, v.extra) for n, v in carried + consts}
        for n, v in c.locals.items():
            if n.startswith("__") or v.kind == "cachecell":
                ci.locals[n] = v
        ci.locals[pat] = V(pat, elem[0])
        ci.state = {s: s for s in states}
        for n, v in carried:
            if v.kind == "mla":
                ci.state["mla"] = n
        tup = lambda cc: "(%s)" % ", ".join([cc.locals[n].text for n, _ in carried] + [cc.state[s] for s in states])
        args = lambda cc: " ".join([cc.locals[n].text for n, _ in consts] + [cc.locals[n].text for n, _ in carried] + [cc.state[s] for s in states])
        if is_opt:
            # the only state is the carried value; the function's result is decided after the loop or by `return`
            after = self.fresh("k")
            ci.exit = None
            ci.loop = lambda cc: "%s %s rest" % (name, args(cc))
            inner = self.stmts(list(body[1]), body[2], ci, ci.loop)
            c_after = c.copy()
            for n, v in carried:
                c_after.locals[n] = V(n, v.kind)
            done = cont(c_after)
            binders = " ".join("(%s : %s)" % (n, const_kinds[v.kind]) for n, v in consts) + " " + " ".join("(%s : %s)" % (n, carried_kinds[v.kind]) for n, v in carried)
            self.extra.append("Fixpoint %s %s (l : list %s) {struct l} : option path :=\n    match l with\n    | [] =>\n    %s\n    | %s :: rest =>\n    %s\n    end."
                              % (name, binders, elem[1], done, pat, inner))
            return "%s %s %s" % (name, args(c), lst.text)
        ci.exit = lambda cc, r: "(%s, %s)" % (tup(cc), r)
        ci.loop = lambda cc: "%s %s rest" % (name, args(cc))
        inner = self.stmts(list(body[1]), body[2], ci, ci.loop)
        ty = " * ".join([carried_kinds[v.kind] for _, v in carried] + ["fs" for _ in states])
        binders = " ".join(["(%s : %s)" % (n, const_kinds[v.kind]) for n, v in consts] + ["(%s : %s)" % (n, carried_kinds[v.kind]) for n, v in carried]
                           + ["(%s : fs)" % s for s in states])
        self.extra.append("Fixpoint %s %s (l : list %s) {struct l} : (%s) * res unit :=\n    match l with\n    | [] => (%s, Ok tt)\n    | %s :: rest =>\n    %s\n    end."
                          % (name, binders, elem[1], ty, tup(ci), pat, inner))
        c2 = c.copy()
        names2 = []
        for n, v in carried:
            g = self.fresh(n)
            c2.locals[n] = V(g, v.kind, v.extra)
            names2.append(g)
        for s in states:
            g = self.fresh(s)
            c2.state[s] = g
            names2.append(g)
        if "mla" in c.state:
            for n, v in c2.locals.items():
                if v.kind == "mla":
                    c2.state["mla"] = v.text
        t2 = "(%s)" % ", ".join(names2)
        return "match %s %s %s with\n    | (%s, Ok _) =>\n    %s\n    | (%s, Err e) => %s\n    | (%s, Crash x) => %s\n    end" % (
            name, args(c), lst.text, t2, cont(c2), t2, c2.exit(c2, "Err e"), t2, c2.exit(c2, "Crash x"))


# ------------------------------------------------------------------ items

PREAMBLE = r"""
(* ---- trusted primitives over the model file system (Path.v) and pool (Pool.v) ---- *)
Definition pathbuf_push (p : path) (part : bytes) : path := p ++ [part].       (* PathBuf::push of a Normal component *)
Definition path_parent (p : path) : option path := option_map fst (split_last p).   (* Path::parent *)
Definition sys_exists (f : fs) (p : path) : bool := sys_ok p && exists_ f p.     (* Path::exists: false for a path the OS refuses *)
Definition sys_create_dir_all (f : fs) (p : path) : fs * bool := if sys_ok p then create_dir_all f p else (f, false).
(* str::contains(needle) *)
Fixpoint bytes_prefix (n s : bytes) : bool :=
  match n, s with [], _ => true | x :: n', y :: s' => (x =? y) && bytes_prefix n' s' | _ :: _, [] => false end.
Fixpoint bytes_contains (s n : bytes) : bool :=
  bytes_prefix n s || match s with [] => false | _ :: s' => bytes_contains s' n end.
(* LruCache<PathBuf, File>, most recently used first *)
Definition lru_contains (pl : pool) (k : path) : bool := match pool_find pl k with Some _ => true | None => false end.
Definition lru_put (cap : nat) (pl : pool) (k : path) (v : handle) : pool :=
  if lru_contains pl k then (k, v) :: pool_remove pl k else (k, v) :: pool_evict cap pl.
Definition lru_get_mut (pl : pool) (k : path) : option (handle * pool) :=
  match pool_find pl k with Some h => Some (h, (k, h) :: pool_remove pl k) | None => None end.
(* the &mut File handed out by get_mut is the most recently used entry: what `write` does to it stays in the cache *)
Definition lru_set_mru (pl : pool) (h : handle) : pool := match pl with (k, _) :: r => (k, h) :: r | [] => [] end.
(* struct FileWriter (the `cache` field is the one pool of the run) *)
Record FileWriter := mkFW { fw_path : path; fw_verbose : bool; fw_fname : bytes }.
(* export: HashMap<&String, FileWriter>; `insert` replaces *)
Definition FwMap := list (bytes * FileWriter).
Definition fw_insert (m : FwMap) (k : bytes) (v : FileWriter) : FwMap :=
  filter (fun e => negb (bytes_eqb (fst e) k)) m ++ [(k, v)].
Fixpoint fw_get (m : FwMap) (k : bytes) : option FileWriter :=
  match m with [] => None | (k', v) :: r => if bytes_eqb k' k then Some v else fw_get r k end.
Definition fw_keys (m : FwMap) : list bytes := map fst m.
"""


def item_get_extracted_path(src, consts):
    r = R.fn_text(src, "get_extracted_path")
    if r is None:
        raise ParseError("fn get_extracted_path not found")
    if fn_params(r[2]) != [("output_dir", "&Path"), ("file_name", "&str")] or not re.search(r"->\s*Option<PathBuf>", r[2]):
        raise ParseError("signature of get_extracted_path changed")
    body = R.parse_body(r[0])
    tr = XTr(dict(consts, __item="get_extracted_path"))
    c = Ctx()
    c.locals = {"output_dir": V("output_dir", "path"), "file_name": V("file_name", "bytes"), "__ret": "option"}
    # `let mut file_dst = output_dir.to_path_buf();` makes the PathBuf
    items = list(body[1])
    def let_pathbuf(st, cc):
        return st[0] == "let" and re.sub(r"^mut ", "", st[1]) == "file_dst" and show(strip_paren(st[3])) == "output_dir.to_path_buf()"
    out_items = []
    for st in items:
        if let_pathbuf(st, c):
            out_items.append(("__bind",))
        else:
            out_items.append(st)
    # translate: statements before the bind, the bind, then the rest
    def go(its, cc):
        if its and its[0] == ("__bind",):
            cc.locals["file_dst"] = V("output_dir", "pathbuf")
            return go(its[1:], cc)
        if not its:
            return tr.tail(strip_paren(body[2]), cc, None)
        st = its[0]
        k = lambda c2: go(its[1:], c2)
        if st[0] == "let":
            return tr.let(st, cc, k)
        return tr.effect(strip_paren(st[1]), cc, k)
    c.exit = None
    g = go([s for s in out_items if s == ("__bind",) or not is_print(s)], c)
    return "\n  ".join(tr.extra + ["(* mlar/src/main.rs:%d fn get_extracted_path *)\n  Definition get_extracted_path (output_dir : path) (file_name : bytes) : option path :=\n    %s." % (r[1], g)])


def fn_text_generic(src, name):
    """like rustmini.fn_text, for a fn whose generic parameters nest (`fn f<P: AsRef<Path>>(`)"""
    m = re.search(r"\bfn\s+%s\s*<" % re.escape(name), src)
    if not m:
        return R.fn_text(src, name)
    depth, k = 0, m.end() - 1
    while True:
        if src[k] == "<":
            depth += 1
        elif src[k] == ">":
            depth -= 1
            if depth == 0:
                break
        k += 1
    k = src.index("(", k)
    depth, j = 0, k
    while True:
        if src[j] == "(":
            depth += 1
        elif src[j] == ")":
            depth -= 1
            if depth == 0:
                break
        j += 1
    i = src.index("{", j)
    e = R.match_brace(src, i)
    return src[i + 1:e], src[:m.start()].count("\n") + 1, src[k:i]


def item_create_file(src, consts):
    r = fn_text_generic(src, "create_file")
    if r is None:
        raise ParseError("fn create_file not found")
    if fn_params(r[2]) != [("output_dir", "P1"), ("fname", "&str")] or not re.search(r"->\s*Result<Option<\(File,\s*PathBuf\)>,\s*MlarError>", r[2]):
        raise ParseError("signature of create_file changed")
    body = R.parse_body(r[0])
    tr = XTr(dict(consts, __item="create_file"))
    c = Ctx()
    c.locals = {"output_dir": V("output_dir", "path"), "fname": V("fname", "bytes")}
    c.state = {"f": "f"}
    c.exit = lambda cc, res: "(%s, %s)" % (cc.state["f"], res)
    g = tr.stmts(list(body[1]), body[2], c, None)
    if tr.extra:
        raise ParseError("loop in create_file")
    return ("(* mlar/src/main.rs:%d fn create_file: Ok(Some((file, extracted_path))) / Ok(None) / Err; the File is the physical path it refers to *)\n"
            "  Definition create_file (output_dir : path) (fname : bytes) (f : fs) : fs * res (option (path * path)) :=\n    %s." % (r[1], g))


FW_FIELDS = [("path", "fw_path", "path"), ("cache", None, "cache"), ("verbose", "fw_verbose", "bool"), ("fname", "fw_fname", "bytes")]


def item_file_writer(src, consts):
    m = re.search(r"struct FileWriter<'a> \{", src)
    if not m:
        raise ParseError("struct FileWriter")
    j = R.match_brace(src, m.end() - 1)
    fields = re.sub(r"\s+", "", R.strip_comments(src[m.end():j]))
    if fields != "path:PathBuf,cache:&'aMutex<LruCache<PathBuf,File>>,verbose:bool,fname:&'astr,":
        raise ParseError("fields of FileWriter changed: " + fields)
    mc = re.search(r"\bconst\s+FILE_WRITER_POOL_SIZE\s*:\s*usize\s*=\s*([0-9_]+)\s*;", src)
    if not mc:
        raise ParseError("FILE_WRITER_POOL_SIZE")
    r = R.fn_text(src, "write", 0, r"impl Write for FileWriter<'_> \{")
    if r is None or fn_params(r[2]) != [("self", "&mut self"), ("buf", "&[u8]")]:
        raise ParseError("FileWriter::write not found / signature")
    body = R.parse_body(r[0])
    tr = XTr(dict(consts, __item="FileWriter_write"))
    c = Ctx()
    c.self = [(f, a, k) for f, a, k in FW_FIELDS if a is not None]
    c.locals = {"buf": V("buf", "bytes")}
    c.state = {"f": "f", "pl": "pl"}
    c.exit = lambda cc, res: "((%s, %s), %s)" % (cc.state["f"], cc.state["pl"], res)
    g = tr.stmts(list(body[1]), body[2], c, None)
    return ("Definition FILE_WRITER_POOL_SIZE : N := %d.\n"
            "  (* mlar/src/main.rs:%d FileWriter::write; cap = the capacity the cache was made with *)\n"
            "  Definition FileWriter_write (cap : nat) (self : FileWriter) (buf : bytes) (f : fs) (pl : pool) : (fs * pool) * res N :=\n    %s."
            % (int(mc.group(1).replace("_", "")), r[1], g))


def item_matcher(src, consts):
    m = re.search(r"enum ExtractFileNameMatcher \{", src)
    if not m:
        raise ParseError("enum ExtractFileNameMatcher")
    j = R.match_brace(src, m.end() - 1)
    if re.sub(r"\s+", "", R.strip_comments(src[m.end():j])) != "Files(HashSet<String>),GlobPatterns(Vec<Pattern>),Anything,":
        raise ParseError("variants of ExtractFileNameMatcher changed")
    r = R.fn_text(src, "match_file_name", 0, r"impl ExtractFileNameMatcher \{")
    if r is None or fn_params(r[2]) != [("self", "&self"), ("file_name", "&str")]:
        raise ParseError("match_file_name not found / signature")
    body = R.parse_body(r[0])
    t = strip_paren(body[2]) if body[2] is not None else None
    if body[1] or t is None or t[0] != "match" or strip_paren(t[1]) != ("path", "self"):
        raise ParseError("match_file_name body")
    tr = XTr(dict(consts, __item="match_file_name"))
    out, seen = [], []
    for pat, g, b in t[2]:
        if g is not None:
            raise ParseError("guard")
        c = Ctx()
        c.locals = {"file_name": V("file_name", "bytes"), "__ret": "bool"}
        mm = re.fullmatch(r"Self::(\w+)(?:\((\w+)\))?", pat)
        if not mm or mm.group(1) in seen:
            raise ParseError("matcher pattern " + pat)
        seen.append(mm.group(1))
        head = mm.group(1)
        if mm.group(1) in ("Files", "GlobPatterns"):
            if not mm.group(2):
                raise ParseError("matcher pattern " + pat)
            c.locals[mm.group(2)] = V(mm.group(2), "nameset" if mm.group(1) == "Files" else "patterns")
            head += " " + mm.group(2)
        elif mm.group(1) != "Anything" or mm.group(2):
            raise ParseError("matcher pattern " + pat)
        bb = strip_paren(b)
        if bb[0] == "block":
            if bb[1] or bb[2] is None:
                raise ParseError("matcher arm")
            bb = strip_paren(bb[2])
        v = tr.pe(bb, c)
        if v.kind != "bool":
            raise ParseError("matcher arm value")
        out.append("| %s => %s" % (head, v.text))
    if sorted(seen) != ["Anything", "Files", "GlobPatterns"]:
        raise ParseError("match_file_name not exhaustive")
    return ("(* mlar/src/main.rs:%d ExtractFileNameMatcher::match_file_name *)\n"
            "  Definition match_file_name (self : Matcher) (file_name : bytes) : bool :=\n    match self with\n    %s\n    end." % (r[1], "\n    ".join(out)))


EXTRACT_PROLOGUE = [
    "let file_name_matcher = ExtractFileNameMatcher::from_matches(matches);",
    "let output_dir = Path::new(matches.get_one::<PathBuf>(\"outputdir\").unwrap());",
    "let verbose = matches.get_flag(\"verbose\");",
    "let mut mla = open_mla_file(matches)?;",
    None,     # if !output_dir.exists() { fs::create_dir(output_dir).map_err(..)?; }
    None,     # let output_dir = fs::canonicalize(output_dir).map_err(..)?;
]

RUN_WRITERS = r"""(* what `io::copy(take, writer)` does with a FileWriter: the piece reaches FileWriter::write cut into buffers
     (`cut`: any cutting, an empty piece makes no call), each accepted whole (write_all); the first error ends it *)
  Fixpoint fw_write_all (cap : nat) (w : FileWriter) (bufs : list bytes) (f : fs) (pl : pool) {struct bufs} : (fs * pool) * res unit :=
    match bufs with
    | [] => ((f, pl), Ok tt)
    | b :: r =>
      match FileWriter_write cap w b f pl with
      | ((f1, pl1), Ok _) => fw_write_all cap w r f1 pl1
      | (st, Err e) => (st, Err e)
      | (st, Crash x) => (st, Crash x)
      end
    end.
  (* the pieces linear_extract handed to the writers of `export`, in order *)
  Fixpoint run_writers (cap : nat) (cut : bytes -> list bytes) (export : FwMap) (log : list (bytes * bytes)) (f : fs) (pl : pool)
      {struct log} : (fs * pool) * res unit :=
    match log with
    | [] => ((f, pl), Ok tt)
    | (n, d) :: r =>
      match fw_get export n with
      | None => run_writers cap cut export r f pl
      | Some w =>
        match fw_write_all cap w (cut d) f pl with
        | ((f1, pl1), Ok _) => run_writers cap cut export r f1 pl1
        | (st, Err e) => (st, Err e)
        | (st, Crash x) => (st, Crash x)
        end
      end
    end."""


def item_extract(src, consts):
    for need in ("create_file", "FileWriter_write", "match_file_name", "linear_extract"):
        if need not in consts:
            raise ParseError("extract depends on %s, which is not translated" % need)
    r = R.fn_text(src, "extract")
    if r is None or fn_params(r[2]) != [("matches", "&ArgMatches")]:
        raise ParseError("fn extract not found / signature")
    body = R.parse_body(r[0])
    items = list(body[1])
    if len(items) < len(EXTRACT_PROLOGUE):
        raise ParseError("extract: prologue")
    for want, st in zip(EXTRACT_PROLOGUE, items):
        if want is not None and re.sub(r"\s", "", want) != re.sub(r"\s", "", R.show_stmt(st)):
            raise ParseError("extract prologue changed: " + R.show_stmt(st)[:70])
    tr0 = XTr(consts)
    st4 = strip_paren(items[4][1])
    if not (st4[0] == "if" and st4[3] is None and show(st4[1]) == "!output_dir.exists()" and len(st4[2][1]) == 1 and st4[2][2] is None
            and show(tr0.strip_map_err(strip_paren(strip_paren(st4[2][1][0][1])[1]))) == "fs::create_dir(output_dir)"):
        raise ParseError("extract prologue: creation of the output directory")
    st5 = items[5]
    if not (st5[0] == "let" and st5[1] == "output_dir" and strip_paren(st5[3])[0] == "try"
            and show(tr0.strip_map_err(strip_paren(strip_paren(st5[3])[1]))) == "fs::canonicalize(output_dir)"):
        raise ParseError("extract prologue: canonicalisation of the output directory")
    rest = items[len(EXTRACT_PROLOGUE):]
    tr = XTr(dict(consts, __item="extract"))
    c = Ctx()
    c.locals = {"mla": V("mla", "mla"), "output_dir": V("output_dir", "path"), "file_name_matcher": V("file_name_matcher", "matcher"),
                "verbose": V("verbose", "bool")}
    c.state = {"f": "f", "mla": "mla"}
    c.exit = lambda cc, res: "(%s, %s)" % (cc.state["f"], res)
    # the per-name loop threads the reader too
    g = tr.stmts(rest, body[2], c, None)
    # work package fixcli: the prologue statements 5-6 TRANSLATED (not only checked for shape), with the call of
    # extract_body as their continuation: `output_dir` is the -o argument, shadowed by its canonical form
    tr2 = XTr(dict(consts, __item="extract"))
    c2 = Ctx()
    c2.locals = dict(c.locals)
    c2.state = {"f": "f", "mla": "mla"}
    c2.exit = lambda cc, res: "(%s, %s)" % (cc.state["f"], res)
    def after_prologue(cc):
        od = cc.locals["output_dir"]
        if od.kind != "path":
            raise ParseError("extract prologue: output_dir is not a path")
        return "extract_body mla %s file_name_matcher verbose %s" % (od.text, cc.state["f"])
    try:
        g2 = tr2.stmts(items[4:6], None, c2, after_prologue)
        if tr2.extra:
            raise ParseError("extract prologue: unexpected auxiliary definitions")
        prologue = ("(* mlar/src/main.rs:%d fn extract, from `if !output_dir.exists()` on: create_dir of a missing output directory,\n"
                    "     canonicalize, then the rest (extract_body).  open_mla_file (before it) is Cli.cli_open. *)\n"
                    "  Definition extract_from_open (mla : ArchiveReader) (output_dir : path) (file_name_matcher : Matcher) (verbose : bool) (f : fs) : fs * res unit :=\n    %s."
                    % (r[1], g2))
    except ParseError as e:
        prologue = "(* extract prologue: %s *)\n  Definition extract_from_open_untranslatable : unit := tt." % str(e).replace("*)", "* )")
    return "\n  ".join([RUN_WRITERS] + tr.extra + [
        "(* mlar/src/main.rs:%d fn extract, from `let mut iter` on (prologue checked: matcher, output_dir, verbose, open_mla_file,\n"
        "     create_dir if missing, canonicalize) *)\n"
        "  Definition extract_body (mla : ArchiveReader) (output_dir : path) (file_name_matcher : Matcher) (verbose : bool) (f : fs) : fs * res unit :=\n    %s."
        % (r[1], g), prologue])


SECTION_HEAD = r"""
Section CliSrc.
  Variable S : Stream.
  Variables FNMAX T_START T_CONTENT T_EOA T_EOF : N.
  Variables site_index site_unwrap : N.                 (* labels of panic sites *)
  Notation ArchiveReader := (Src3d.ArchiveReader S).
  Notation BlocksToFileReader := (Src3d.BlocksToFileReader S).
  Variable Pat : Type.                                   (* glob::Pattern *)
  Variable glob_matches : Pat -> bytes -> bool.
  Inductive Matcher := Files (files : list bytes) | GlobPatterns (patterns : list Pat) | Anything.
  Variable sort : list bytes -> list bytes.              (* Vec<String>::sort *)
  Variable cut : bytes -> list bytes.                    (* how io::copy cuts a piece into write buffers *)
  Variable lfuel : nat.                                  (* fuel of the translated linear_extract *)
  (* io::copy(&mut sub_file.data, &mut file): reader afterwards, bytes that reached the file, how it ended *)
  Variable io_copy_file : BlocksToFileReader -> BlocksToFileReader * bytes * res unit.
"""


def generate():
    out = ["(* GENERATED by tools/src2v3_cli.py from %s — do not edit. *)" % REPO,
           "From MLA Require Import Base Stream Blocks Path PathDir Pool.", "From MLAGen Require Src3d Src3l.", "Open Scope N_scope.", PREAMBLE]
    src = read_file("mlar/src/main.rs")
    consts = {}
    def emit(name, fn):
        try:
            out.append("  " + fn(src, consts))
            consts[name] = True
        except Exception as e:   # fail closed, per item
            out.append("  (* %s: %s *)" % (name, str(e).replace("*)", "* )")))
            out.append("  Definition %s_untranslatable : unit := tt." % name)
    out.append(SECTION_HEAD)
    emit("get_extracted_path", item_get_extracted_path)
    emit("create_file", item_create_file)
    emit("FileWriter_write", item_file_writer)
    # linear_extract is usable when tools/src2v3_linear.py translated it
    try:
        import src2v3_linear
        if "linear_extract_untranslatable" not in src2v3_linear.generate():
            consts["linear_extract"] = True
    except Exception:
        pass
    emit("match_file_name", item_matcher)
    emit("extract", item_extract)
    out.append("End CliSrc.")
    return "\n".join(out) + "\n"


def main():
    try:
        text = generate()
    except Exception as e:  # fail closed as a whole
        text = "(* GENERATED: tools/src2v3_cli.py failed: %s *)\nDefinition src3x_untranslatable : unit := tt.\n" % str(e).replace("*)", "* )")
    outp = os.path.normpath(OUT)
    old = None
    if os.path.exists(outp):
        with open(outp) as f:
            old = f.read()
    if old != text:
        with open(outp, "w") as f:
            f.write(text)
        print("src2v3_cli: wrote", outp)
    else:
        print("src2v3_cli: unchanged", outp)


if __name__ == "__main__":
    main()
