#!/usr/bin/env python3
"""C04 at the command line: `mlar repair` (default = authenticated mode) of an encrypted archive CORRUPTED in the middle
(one byte flipped, first / last chunk and footer intact) writes only data located before the failing chunk: every
recovered file is a prefix of the original, nothing stored wholly after the failing chunk is recovered, and the result
of `--allow-unauthenticated-data` contains it as a prefix.
usage: c04_cli_job.py <harness-binary> <workdir> <tier> <seed> <out.jsonl>      (VERIF_BINDIR = dir of mlar)
Oracle only (no model)."""
import json
import os
import random
import shutil
import subprocess
import sys

REPO = os.environ.get("VERIF_REPO", "/repo")
S = os.path.join(REPO, "samples")


def run(mlar, args, cwd):
    p = subprocess.run([mlar] + args, cwd=cwd, stdout=subprocess.PIPE, stderr=subprocess.PIPE, timeout=300)
    return p.returncode, p.stdout, p.stderr


def members(mlar, arch, cwd):
    rc, out, _ = run(mlar, ["list", "-i", arch], cwd)
    res = {}
    if rc != 0:
        return None
    for n in out.decode("utf8", "replace").split("\n"):
        if n:
            rc2, data, _ = run(mlar, ["cat", "-i", arch, n], cwd)
            res[n] = data if rc2 == 0 else None
    return res


def main():
    _, _harness, work, tier, seed, outp = sys.argv
    mlar = os.path.join(os.environ["VERIF_BINDIR"], "mlar")
    rng = random.Random(int(seed) * 31 + 4)
    shutil.rmtree(work, ignore_errors=True)
    os.makedirs(work)
    key, pub = os.path.join(S, "test_x25519.pem"), os.path.join(S, "test_x25519_pub.pem")
    cases = []
    for k in range(6 if tier == "thorough" else 2):
        layers = ["-l", "encrypt"] if k % 2 == 0 else ["-l", "compress", "-l", "encrypt"]
        files = {}
        for n in ("a.bin", "b.bin", "c.bin"):
            files[n] = rng.randbytes(rng.choice([150000, 307200, 200001]))
            with open(os.path.join(work, n), "wb") as f:
                f.write(files[n])
        rc, _, err = run(mlar, ["create"] + layers + ["-p", pub, "-o", "e.mla", "--"] + list(files), work)
        msgs = []
        if rc != 0:
            msgs.append("create failed")
        else:
            e = bytearray(open(os.path.join(work, "e.mla"), "rb").read())
            # a byte in the middle: not in the first chunk, not in the last two
            at = rng.randrange(len(e) // 3, 2 * len(e) // 3)
            e[at] ^= 0x40
            open(os.path.join(work, "x.mla"), "wb").write(e)
            for fn in ("ra.mla", "ru.mla"):
                try:
                    os.remove(os.path.join(work, fn))
                except OSError:
                    pass
            rca, _, _ = run(mlar, ["repair", "-i", "x.mla", "-k", key, "-o", "ra.mla", "-l"], work)
            rcu, _, _ = run(mlar, ["repair", "-i", "x.mla", "-k", key, "-o", "ru.mla", "-l", "--allow-unauthenticated-data"], work)
            ma = members(mlar, "ra.mla", work) if rca == 0 else None
            mu = members(mlar, "ru.mla", work) if rcu == 0 else None
            if ma is None or mu is None:
                msgs.append("repair of a corrupted archive fails or its output does not open (rc %d / %d)" % (rca, rcu))
            else:
                hdr = 3 + 4 + 1 + 1 + 32 + 8 + 48 + 8
                chunk = (at - hdr) // (131072 + 16)
                usable = chunk * 131072  # plaintext bytes of the layer lying in chunks before the failing one
                total_auth = sum(len(v or b"") for v in ma.values())
                for n, d in ma.items():
                    if n not in files or d is None or not files[n].startswith(d):
                        msgs.append("default repair: member %s is not a prefix of the original file" % n)
                    elif mu.get(n) is None or not mu[n].startswith(d):
                        msgs.append("default repair: member %s is not a prefix of what --allow-unauthenticated-data recovers" % n)
                if "encrypt" in layers and "compress" not in layers and total_auth > usable:
                    msgs.append("default repair recovered %d bytes, only %d lie in the chunks before the failing chunk %d" % (total_auth, usable, chunk))
        cases.append({"id": "c04-cli-%d" % k, "fn": "", "args": [], "impl": [], "oracle_ok": not msgs, "oracle_msg": "; ".join(msgs[:2]),
                      "class": "mlar repair of a corrupted archive " + "+".join(x for x in layers if x != "-l"), "nontrivial": True, "meta": {}})
    with open(outp, "w") as f:
        for c in cases:
            f.write(json.dumps(c) + "\n")
    shutil.rmtree(work, ignore_errors=True)


if __name__ == "__main__":
    main()
