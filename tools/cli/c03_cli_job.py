#!/usr/bin/env python3
"""C03 at the command line: an encrypted archive whose HEADER is altered so that it claims "no encryption" (the
ENCRYPT bit of the layers byte cleared, everything else kept) and whose body is replaced by the body of an
unencrypted archive written by the attacker must not be listed / read by `mlar ... -k KEY` (the key says the
user expects an encrypted archive); other header alterations of the layers byte likewise.
usage: c03_cli_job.py <harness-binary> <workdir> <tier> <seed> <out.jsonl>      (VERIF_BINDIR = dir of mlar)
Oracle only (no model)."""
import json
import os
import shutil
import subprocess
import sys

REPO = os.environ.get("VERIF_REPO", "/repo")
S = os.path.join(REPO, "samples")


def run(mlar, args, cwd):
    p = subprocess.run([mlar] + args, cwd=cwd, stdout=subprocess.PIPE, stderr=subprocess.PIPE, timeout=120)
    return p.returncode, p.stdout, p.stderr


def main():
    _, _harness, work, _tier, _seed, outp = sys.argv
    mlar = os.path.join(os.environ["VERIF_BINDIR"], "mlar")
    shutil.rmtree(work, ignore_errors=True)
    os.makedirs(work)
    with open(os.path.join(work, "genuine.txt"), "wb") as f:
        f.write(b"genuine content " * 40)
    with open(os.path.join(work, "forged.txt"), "wb") as f:
        f.write(b"FORGED " * 60)
    key, pub = os.path.join(S, "test_x25519.pem"), os.path.join(S, "test_x25519_pub.pem")
    cases = []
    for layers in (["-l", "encrypt"], ["-l", "compress", "-l", "encrypt"]):
        tag = "+".join(x for x in layers if x != "-l")
        rc, _, err = run(mlar, ["create"] + layers + ["-p", pub, "-o", "e.mla", "--", "genuine.txt"], work)
        rc2, _, _ = run(mlar, ["create", "-l", "-o", "p.mla", "--", "forged.txt"], work)
        rc3, _, _ = run(mlar, ["create", "-l", "compress", "-o", "pc.mla", "--", "forged.txt"], work)
        rc2 = rc2 or rc3
        msgs = []
        if rc or rc2:
            msgs.append("create failed: " + err[-100:].decode("utf8", "replace"))
        else:
            e = open(os.path.join(work, "e.mla"), "rb").read()
            p = open(os.path.join(work, "p.mla"), "rb").read()
            pc = open(os.path.join(work, "pc.mla"), "rb").read()
            n = int.from_bytes(e[41:49], "little")
            hl = 3 + 4 + 1 + 1 + 32 + 8 + 48 * n + 8
            rc0, out0, _ = run(mlar, ["list", "-i", "e.mla", "-k", key], work)
            if rc0 != 0 or b"genuine.txt" not in out0:
                msgs.append("the unaltered archive is not listed with its recipient's key")
            for newlayers in sorted({e[7] & ~1 & 0xFF, 0}):
                # the attacker's body matches the layers the altered header still announces
                forged = bytearray(e[:hl]) + (pc[9:] if newlayers & 2 else p[9:])
                forged[7] = newlayers
                with open(os.path.join(work, "x.mla"), "wb") as f:
                    f.write(forged)
                for cmd in (["list", "-i", "x.mla", "-k", key], ["cat", "-i", "x.mla", "-k", key, "forged.txt"]):
                    rcx, outx, _ = run(mlar, cmd, work)
                    if rcx == 0 or b"forged" in outx.lower():
                        msgs.append("header altered to layers=%d over an attacker-written unencrypted body: `mlar %s -k KEY` exits %d and shows forged data" % (newlayers, cmd[0], rcx))
        cases.append({"id": "c03-cli-" + tag, "fn": "", "args": [], "impl": [], "oracle_ok": not msgs, "oracle_msg": "; ".join(msgs[:2]),
                      "class": "encryption bit cleared in the header, layers " + tag, "nontrivial": True, "meta": {}})
    with open(outp, "w") as f:
        for c in cases:
            f.write(json.dumps(c) + "\n")
    shutil.rmtree(work, ignore_errors=True)


if __name__ == "__main__":
    main()
