#!/usr/bin/env python3
"""C15 at the command line, reading side: `mlar extract` (linear form: no file argument) and `mlar repair` stream.
Archives holding one member of N small content blocks under a long name are written by the harness (`c15-mk`, the
real mla writer); peak resident memory of the mlar process (wait4's rusage) for N = 6 000 and N = 60 000 blocks
must not differ by more than 8 MiB
  (a) extract, no fault;
  (b) extract whose OUTPUT starts failing early: RLIMIT_FSIZE of 32 KiB with SIGXFSZ ignored, so that every write
      beyond 32 KiB fails with EFBIG while most of the member is still to come (whatever the exit status);
  (c) repair, no fault;
  (d) repair of the archive cut in the middle.
usage: c15_extract_job.py <harness-binary> <workdir> <tier> <seed> <out.jsonl>      (VERIF_BINDIR = dir of mlar)
Oracle only (no model)."""
import json
import os
import shutil
import subprocess
import sys

BLOCK = 512
NAME_LEN = 2800
LIMIT_KIB = 8 * 1024


TIME = "/usr/bin/time"


def run(mlar, args, cwd, fsize=None):
    """(exit status, peak resident set in KiB) of one mlar run. Measured by GNU time (a tiny parent): the ru_maxrss that
    wait4 gives a python parent also counts the image the child had BEFORE exec, i.e. python's own resident set."""
    argv = [mlar] + args
    if fsize is not None:
        # sh's ulimit -f counts 512-byte blocks
        argv = ["sh", "-c", "trap '' XFSZ; ulimit -f %d; exec \"$0\" \"$@\"" % (fsize // 512)] + argv
    if os.path.exists(TIME):
        mf = os.path.join(cwd, "maxrss.txt")
        p = subprocess.run([TIME, "-f", "%M", "-o", mf] + argv, cwd=cwd, stdout=subprocess.DEVNULL, stderr=subprocess.DEVNULL)
        try:
            rss = int(open(mf).read().split()[-1])
        except (OSError, ValueError, IndexError):
            rss = 0
        return p.returncode, rss
    p = subprocess.Popen(argv, cwd=cwd, stdout=subprocess.DEVNULL, stderr=subprocess.DEVNULL)
    _, status, ru = os.wait4(p.pid, 0)
    return os.waitstatus_to_exitcode(status), ru.ru_maxrss


def main():
    _, harness, work, tier, _seed, outp = sys.argv
    mlar = os.path.join(os.environ["VERIF_BINDIR"], "mlar")
    shutil.rmtree(work, ignore_errors=True)
    os.makedirs(work)
    small, big = (6000, 240000) if tier == "thorough" else (6000, 60000)
    arch = {}
    for n in (small, big):
        p = os.path.join(work, "a%d.mla" % n)
        r = subprocess.run([harness, "c15-mk", p, str(n), str(BLOCK), str(NAME_LEN)], capture_output=True, text=True)
        if r.returncode != 0 or not os.path.exists(p):
            raise SystemExit("c15-mk failed: %s" % (r.stderr[-300:],))
        arch[n] = p
        # the same archive cut in the middle, for repair
        with open(p, "rb") as f:
            data = f.read()
        with open(p + ".cut", "wb") as f:
            f.write(data[: len(data) // 2])
    scenarios = [
        ("extract", lambda n, d: ["extract", "-i", arch[n], "-o", d], None, True),
        ("extract-output-fault", lambda n, d: ["extract", "-i", arch[n], "-o", d], 32 * 1024, False),
        ("repair", lambda n, d: ["repair", "-i", arch[n], "-o", os.path.join(d, "r.mla"), "-l"], None, True),
        ("repair-cut", lambda n, d: ["repair", "-i", arch[n] + ".cut", "-o", os.path.join(d, "r.mla"), "-l"], None, True),
    ]
    cases = []
    for name, mk, fsize, want_ok in scenarios:
        peaks, rcs, err = {}, {}, None
        for n in (small, big):
            d = os.path.join(work, "%s_%d" % (name, n))
            if name.startswith("repair"):
                os.makedirs(d)
            rc, rss = run(mlar, mk(n, d), work, fsize)
            peaks[n], rcs[n] = rss, rc
            if want_ok and rc != 0:
                err = "mlar %s of a member of %d blocks exits %d" % (name, n, rc)
            shutil.rmtree(d, ignore_errors=True)
        grows = peaks[big] > peaks[small] + LIMIT_KIB
        msg = err or ("" if not grows else
                      "mlar %s: peak resident memory %d KiB for a member of %d blocks of %d bytes, %d KiB for %d blocks (exit %d / %d): memory grows with the data streamed"
                      % (name, peaks[small], small, BLOCK, peaks[big], big, rcs[small], rcs[big]))
        cases.append({"id": "c15-xcli-%s" % name, "fn": "", "args": [], "impl": [], "oracle_ok": not msg, "oracle_msg": msg,
                      "class": "mlar %s" % name, "nontrivial": True, "meta": {"peak_kib": peaks, "exit": rcs, "blocks": [small, big]}})
    with open(outp, "w") as f:
        for c in cases:
            f.write(json.dumps(c) + "\n")
    shutil.rmtree(work, ignore_errors=True)


if __name__ == "__main__":
    main()
