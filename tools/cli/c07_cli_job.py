#!/usr/bin/env python3
"""C07 at the command line: an archive created by `mlar create -p A -p B` opens with the private key of ANY of its
recipients, whatever the encoding (PEM / DER) of the public key files and their order; with no other key.
usage: c07_cli_job.py <harness-binary> <workdir> <tier> <seed> <out.jsonl>      (VERIF_BINDIR = dir of mlar)
Oracle only (no model)."""
import itertools
import json
import os
import shutil
import subprocess
import sys

REPO = os.environ.get("VERIF_REPO", "/repo")
S = os.path.join(REPO, "samples")
# (private key, public PEM, public DER or None)
KEYS = [("test_x25519.pem", "test_x25519_pub.pem", "test_x25519_pub.der"), ("test_ed25519.pem", "test_ed25519_pub.pem", "test_ed25519_pub.der"),
        ("test_x25519_2.pem", "test_x25519_2_pub.pem", None), ("test_x25519_3.pem", "test_x25519_3_pub.pem", None)]


def run(mlar, args, cwd):
    p = subprocess.run([mlar] + args, cwd=cwd, stdout=subprocess.PIPE, stderr=subprocess.PIPE, timeout=120)
    return p.returncode, p.stdout, p.stderr


def main():
    _, _harness, work, tier, _seed, outp = sys.argv
    mlar = os.path.join(os.environ["VERIF_BINDIR"], "mlar")
    shutil.rmtree(work, ignore_errors=True)
    os.makedirs(work)
    with open(os.path.join(work, "f.txt"), "wb") as f:
        f.write(b"confidential " * 50)
    cases = []
    sets = [(0, 1), (1, 0), (0, 2), (2, 1), (0, 1, 3)] if tier != "thorough" else [c for n in (1, 2, 3) for c in itertools.permutations(range(4), n)]
    for ci, idx in enumerate(sets):
        encodings = list(itertools.product(*[(1, 2) if KEYS[i][2] else (1,) for i in idx]))
        for enc in encodings:
            a = os.path.join(work, "a%d.mla" % ci)
            args = ["create", "-l", "encrypt", "-o", a]
            for i, e in zip(idx, enc):
                args += ["-p", os.path.join(S, KEYS[i][e])]
            rc, _, err = run(mlar, args + ["--", "f.txt"], work)
            msgs = []
            if rc != 0:
                msgs.append("create fails: " + err[-150:].decode("utf8", "replace"))
            else:
                for i in idx:
                    rc2, out, err2 = run(mlar, ["cat", "-i", a, "-k", os.path.join(S, KEYS[i][0]), "f.txt"], work)
                    if rc2 != 0 or out != b"confidential " * 50:
                        msgs.append("the recipient whose public key was given as %s cannot read the archive (rc %d): %s"
                                    % (KEYS[i][enc[idx.index(i)]], rc2, err2[-120:].decode("utf8", "replace")))
                for j in range(4):
                    if j not in idx:
                        rc3, out3, _ = run(mlar, ["cat", "-i", a, "-k", os.path.join(S, KEYS[j][0]), "f.txt"], work)
                        if rc3 == 0 or b"confidential" in out3:
                            msgs.append("a key that belongs to no recipient (%s) opens the archive" % KEYS[j][0])
            cases.append({"id": "c07-cli-%d-%s" % (ci, "".join("pd"[e - 1] for e in enc)), "fn": "", "args": [], "impl": [], "oracle_ok": not msgs, "oracle_msg": "; ".join(msgs[:2]),
                          "class": "mlar create -p x%d encodings=%s" % (len(idx), "".join("pd"[e - 1] for e in enc)), "nontrivial": True,
                          "meta": {"recipients": [KEYS[i][e] for i, e in zip(idx, enc)]}})
    with open(outp, "w") as f:
        for c in cases:
            f.write(json.dumps(c) + "\n")
    shutil.rmtree(work, ignore_errors=True)


if __name__ == "__main__":
    main()
