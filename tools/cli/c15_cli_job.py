#!/usr/bin/env python3
"""C15 at the command line: `mlar create` streams its inputs. Peak resident memory of the mlar process while it
archives a named pipe (a producer feeds N MiB into it) must not grow with N; the same for a regular file.
usage: c15_cli_job.py <harness-binary> <workdir> <tier> <seed> <out.jsonl>      (VERIF_BINDIR = dir of mlar)
Oracle only (no model): peak(big) <= peak(small) + 8 MiB."""
import json
import os
import resource
import shutil
import subprocess
import sys
import threading


TIME = "/usr/bin/time"


def peak_rss_kib(mlar, args, cwd, feed=None):
    """run mlar; returns (exit status, peak RSS of the child in KiB). Measured by GNU time (a tiny parent) when it is
    installed: the ru_maxrss wait4 gives a python parent also counts the image the child had before exec."""
    mf = os.path.join(cwd, "maxrss.txt")
    use_time = os.path.exists(TIME)
    argv = ([TIME, "-f", "%M", "-o", mf] if use_time else []) + [mlar] + args
    p = subprocess.Popen(argv, cwd=cwd, stdout=subprocess.DEVNULL, stderr=subprocess.DEVNULL)
    t = None
    if feed:
        t = threading.Thread(target=feed)
        t.start()
    _, status, ru = os.wait4(p.pid, 0)
    p.returncode = os.waitstatus_to_exitcode(status)
    if t:
        t.join()
    rss = ru.ru_maxrss
    if use_time:
        try:
            rss = int(open(mf).read().split()[-1])
        except (OSError, ValueError, IndexError):
            pass
    return p.returncode, rss


def main():
    _, _harness, work, tier, _seed, outp = sys.argv
    mlar = os.path.join(os.environ["VERIF_BINDIR"], "mlar")
    shutil.rmtree(work, ignore_errors=True)
    os.makedirs(work)
    small, big = (8, 160) if tier == "thorough" else (8, 72)
    chunk = (b"streaming keeps memory bounded \n" * 2048)[: 1 << 16]
    cases = []
    for kind in ("fifo", "file"):
        for layers in ([], ["-l", "compress"]) if tier == "thorough" else ([],):
            peaks = {}
            err = None
            for mib in (small, big):
                src = os.path.join(work, "in_%s_%d" % (kind, mib))
                if kind == "fifo":
                    os.mkfifo(src)

                    def feed(path=src, n=mib):
                        try:
                            with open(path, "wb") as f:
                                for _ in range(n * 16):
                                    f.write(chunk)
                        except BrokenPipeError:
                            pass
                else:
                    with open(src, "wb") as f:
                        for _ in range(mib * 16):
                            f.write(chunk)
                    feed = None
                out = os.path.join(work, "a_%s_%d.mla" % (kind, mib))
                rc, rss = peak_rss_kib(mlar, ["create"] + (layers if layers else ["-l"]) + ["-o", out, os.path.basename(src)], work, feed)
                peaks[mib] = rss
                if rc != 0:
                    err = "mlar create of a %s exits %d" % (kind, rc)
                for pth in (src, out):
                    try:
                        os.remove(pth)
                    except OSError:
                        pass
            grows = peaks[big] > peaks[small] + 8 * 1024
            msg = err or ("" if not grows else "mlar create of a %s: peak resident memory %d KiB for %d MiB of input, %d KiB for %d MiB: memory grows with the data"
                          % ("named pipe" if kind == "fifo" else "regular file", peaks[big], big, peaks[small], small))
            cases.append({"id": "c15-cli-%s-%s" % (kind, "compress" if layers else "none"), "fn": "", "args": [], "impl": [], "oracle_ok": not msg, "oracle_msg": msg,
                          "class": "mlar create from a %s" % kind, "nontrivial": True, "meta": {"peak_kib": peaks, "layers": layers}})
    with open(outp, "w") as f:
        for c in cases:
            f.write(json.dumps(c) + "\n")
    shutil.rmtree(work, ignore_errors=True)


if __name__ == "__main__":
    main()
