#!/usr/bin/env python3
"""C17 job: the mlar sub-commands agree with each other and with the input files.
usage: c17_job.py <harness binary (unused)> <workdir> <tier> <seed> <out.jsonl>
Needs VERIF_BINDIR (directory holding the mlar binary built from /repo's working tree).
Oracle-only cases: one JSON line per pipeline."""
import hashlib, io, json, os, random, re, shutil, subprocess, sys, tarfile

REPO = os.environ.get("VERIF_REPO", "/repo")
SAMPLES = os.path.join(REPO, "samples")
KEYS = [("test_x25519.pem", "test_x25519_pub.pem"), ("test_x25519_2.pem", "test_x25519_2_pub.pem"), ("test_x25519_3.pem", "test_x25519_3_pub.pem"),
        ("test_ed25519.pem", "test_ed25519_pub.pem")]


def run(mlar, args, cwd, stdin=None, timeout=120):
    p = subprocess.run([mlar] + args, cwd=cwd, input=stdin, stdout=subprocess.PIPE, stderr=subprocess.PIPE, timeout=timeout)
    return p.returncode, p.stdout, p.stderr


def gen_tree(rng, root, tier):
    """random input files; returns {relative path: bytes}"""
    sizes = [0, 1, 2, 100, 999, 1000, 1001, 4095, 4096, 4097, 65536, 131071, 131072, 131073, 262144 + 17]
    if tier == "thorough":
        sizes += [4 * 1024 * 1024 - 1, 4 * 1024 * 1024, 4 * 1024 * 1024 + 1]
    comps = ["a", "b.txt", "dir", "sub dir", "hé世", "x" * 40, "data.bin", "UPPER", "dot.d", "-dash", "tab\tname" if False else "t_name"]
    files = {}
    n = rng.randint(1, 6)
    while len(files) < n:
        depth = rng.randint(1, 3)
        parts = [rng.choice(comps) for _ in range(depth)]
        if parts[0].startswith("-"):
            parts[0] = "d" + parts[0]
        rel = "/".join(parts)
        # no file may be a directory prefix of another
        if any(rel == f or rel.startswith(f + "/") or f.startswith(rel + "/") for f in files):
            continue
        size = rng.choice(sizes) if rng.random() < 0.8 else rng.randint(0, 300000)
        kind = rng.randint(0, 2)
        if kind == 0:
            data = bytes(size)
        elif kind == 1:
            data = (b"the quick brown fox jumps over the lazy dog\n" * (size // 44 + 1))[:size]
        else:
            data = rng.randbytes(size)
        files[rel] = data
    for rel, data in files.items():
        p = os.path.join(root, rel)
        os.makedirs(os.path.dirname(p), exist_ok=True)
        with open(p, "wb") as f:
            f.write(data)
    return files


def layer_args(enc, comp):
    a = []
    if enc or comp:
        for l in (["compress"] if comp else []) + (["encrypt"] if enc else []):
            a += ["-l", l]
    else:
        a += ["-l"]  # explicitly no layer
    return a


def size_consistent(shown, true_size):
    m = re.fullmatch(r"([0-9.]+) ([kMGT]?B)", shown)
    if not m:
        return False
    unit = {"B": 1, "kB": 1000, "MB": 1000 ** 2, "GB": 1000 ** 3, "TB": 1000 ** 4}[m.group(2)]
    v = float(m.group(1)) * unit
    return abs(v - true_size) <= 0.0051 * unit + 0.5 and (unit == 1 or true_size >= unit * 0.99)


def pipeline(mlar, rng, work, k, tier):
    d = os.path.join(work, "p%d" % k)
    shutil.rmtree(d, ignore_errors=True)
    src = os.path.join(d, "in")
    os.makedirs(src)
    files = gen_tree(rng, src, tier)
    names = sorted(files)
    enc = rng.random() < 0.6
    comp = rng.random() < 0.6
    level = rng.choice([0, 1, 5, 9, 11])
    nkeys = rng.randint(1, 3) if enc else 0
    keyset = rng.sample(KEYS, nkeys)
    reader = rng.choice(keyset) if enc else None
    meta = {"files": {n: len(files[n]) for n in names}, "encrypt": enc, "compress": comp, "level": level, "recipients": [x[1] for x in keyset]}
    errs = []
    arch = os.path.join(d, "a.mla")
    args = ["create", "-o", arch] + layer_args(enc, comp)
    if comp:
        args += ["-q", str(level)]
    for _, pub in keyset:
        args += ["-p", os.path.join(SAMPLES, pub)]
    # `-l` without value must not swallow a file name: put files after `--`
    rc, out, err = run(mlar, args + ["--"] + names, src)
    if rc != 0:
        return meta, ["create failed (rc %d): %s" % (rc, err[-200:].decode("utf8", "replace"))], "create-failed"
    kargs = ["-k", os.path.join(SAMPLES, reader[0])] if enc else []
    # several candidate keys, the matching one not first (every key option must be honoured)
    decoys = [x for x in KEYS if x not in keyset]
    kargs_multi = []
    if enc and decoys:
        for dk in decoys[:rng.randint(1, 2)]:
            kargs_multi += ["-k", os.path.join(SAMPLES, dk[0])]
        kargs_multi += ["-k", os.path.join(SAMPLES, reader[0])]

    def check_archive(a, kargs, label):
        rc, out, err = run(mlar, ["list", "-i", a] + kargs, d)
        if rc != 0 or out.decode("utf8", "replace").splitlines() != names:
            errs.append("%s: list gives %r (rc %d), expected %r" % (label, out.decode("utf8", "replace").splitlines()[:6], rc, names[:6]))
            return
        rc, out, err = run(mlar, ["list", "-vv", "-i", a] + kargs, d)
        lines = out.decode("utf8", "replace").splitlines()
        if rc != 0 or len(lines) != len(names):
            errs.append("%s: list -vv failed (rc %d)" % (label, rc))
        else:
            for n, line in zip(names, lines):
                m = re.fullmatch(re.escape(n) + r" - (.+) \(([0-9a-f]{64})\)", line)
                if not m:
                    errs.append("%s: list -vv line %r does not match name %r" % (label, line[:80], n))
                elif m.group(2) != hashlib.sha256(files[n]).hexdigest():
                    errs.append("%s: list -vv shows a hash that is not the SHA-256 of %r" % (label, n))
                elif not size_consistent(m.group(1), len(files[n])):
                    errs.append("%s: list -vv shows size %r for %r of %d bytes" % (label, m.group(1), n, len(files[n])))
        for n in names:
            rc, out, err = run(mlar, ["cat", "-i", a] + kargs + [n], d)
            if rc != 0 or out != files[n]:
                errs.append("%s: cat %r returns %d bytes (rc %d), file has %d" % (label, n, len(out), rc, len(files[n])))
        for form in ("linear", "listed"):
            od = os.path.join(d, "out_%s_%s" % (label, form))
            shutil.rmtree(od, ignore_errors=True)
            # the selected-files form takes ONE name per invocation (clap: single value)
            failed = False
            for sel in ([[n] for n in names] if form == "listed" else [[]]):
                rc, out, err = run(mlar, ["extract", "-i", a] + kargs + ["-o", od] + sel, d)
                if rc != 0:
                    errs.append("%s: extract (%s %r) failed rc %d: %s" % (label, form, sel, rc, err[-150:].decode("utf8", "replace")))
                    failed = True
                    break
            if failed:
                continue
            got = {}
            for root, _, fs in os.walk(od):
                for f in fs:
                    p = os.path.join(root, f)
                    got[os.path.relpath(p, od)] = open(p, "rb").read()
            if got != files:
                bad = [n for n in names if got.get(n) != files[n]] + [n for n in got if n not in files]
                errs.append("%s: extract (%s): %d files differ / are missing / are extra, e.g. %r" % (label, form, len(bad), bad[:2]))
        tarp = os.path.join(d, "t_%s.tar" % label)
        rc, out, err = run(mlar, ["to-tar", "-i", a] + kargs + ["-o", tarp], d)
        if rc != 0:
            errs.append("%s: to-tar failed rc %d" % (label, rc))
        else:
            try:
                with tarfile.open(tarp) as tf:
                    tgot = {m.name: tf.extractfile(m).read() for m in tf.getmembers() if m.isfile()}
                if tgot != files:
                    errs.append("%s: to-tar: entries differ from the input files (%d vs %d entries)" % (label, len(tgot), len(files)))
            except Exception as e:
                errs.append("%s: to-tar produced an unreadable tar: %s" % (label, e))

    check_archive(arch, kargs, "created")
    if kargs_multi:
        n0 = names[0]
        rc, out, err = run(mlar, ["cat", "-i", arch] + kargs_multi + [n0], d)
        if rc != 0 or out != files[n0]:
            errs.append("cat with %d candidate keys (the matching one last) returns %d bytes (rc %d), file has %d" % (len(kargs_multi) // 2, len(out), rc, len(files[n0])))
        rc, out, err = run(mlar, ["list", "-i", arch] + kargs_multi, d)
        if rc != 0 or out.decode("utf8", "replace").splitlines() != names:
            errs.append("list with %d candidate keys (the matching one last) fails (rc %d)" % (len(kargs_multi) // 2, rc))
    # convert to another layer / key choice
    enc2 = rng.random() < 0.5
    comp2 = rng.random() < 0.5
    key2 = rng.choice(KEYS)
    arch2 = os.path.join(d, "b.mla")
    args = ["convert", "-i", arch] + kargs + ["-o", arch2] + layer_args(enc2, comp2)
    if enc2:
        args += ["-p", os.path.join(SAMPLES, key2[1])]
    rc, out, err = run(mlar, args, d)
    meta["convert"] = {"encrypt": enc2, "compress": comp2}
    if rc != 0:
        errs.append("convert failed rc %d: %s" % (rc, err[-150:].decode("utf8", "replace")))
    else:
        check_archive(arch2, ["-k", os.path.join(SAMPLES, key2[0])] if enc2 else [], "converted")
    # repair of the intact archive
    arch3 = os.path.join(d, "c.mla")
    rc, out, err = run(mlar, ["repair", "-i", arch] + kargs + ["-o", arch3, "-l"], d)
    if rc != 0:
        errs.append("repair of the intact archive failed rc %d: %s" % (rc, err[-150:].decode("utf8", "replace")))
    else:
        for n in names:
            rc, out, err = run(mlar, ["cat", "-i", arch3, n], d)
            if rc != 0 or out != files[n]:
                errs.append("repair of the intact archive: %r has %d bytes after repair, %d before" % (n, len(out), len(files[n])))
    # keys: wrong, missing, given for an unencrypted archive
    others = [x for x in KEYS if x not in keyset]
    if enc:
        wrong = ["-k", os.path.join(SAMPLES, others[0][0])] if others else None
        for label, ka in (("wrong key", wrong), ("no key", [])):
            if ka is None:
                continue
            o = os.path.join(d, "cat_out.bin")
            if os.path.exists(o):
                os.remove(o)
            rc, out, err = run(mlar, ["cat", "-i", arch] + ka + ["-o", o, names[-1]], d)
            content = open(o, "rb").read() if os.path.exists(o) else b""
            if rc == 0:
                errs.append("%s: cat exits with status 0" % label)
            if content or out:
                errs.append("%s: cat produced %d bytes of output" % (label, len(content) + len(out)))
            rc, out, err = run(mlar, ["list", "-i", arch] + ka, d)
            if rc == 0 or out:
                errs.append("%s: list exits with %d and prints %d bytes" % (label, rc, len(out)))
            od = os.path.join(d, "out_bad")
            shutil.rmtree(od, ignore_errors=True)
            rc, out, err = run(mlar, ["extract", "-i", arch] + ka + ["-o", od], d)
            n_out = sum(len(fs) for _, _, fs in os.walk(od)) if os.path.isdir(od) else 0
            if rc == 0 or n_out:
                errs.append("%s: extract exits with %d and writes %d files" % (label, rc, n_out))
            for sub, extra in (("to-tar", []), ("convert", ["-l"]), ("repair", ["-l"])):
                o2 = os.path.join(d, "bad_out.bin")
                if os.path.exists(o2):
                    os.remove(o2)
                rc, out, err = run(mlar, [sub, "-i", arch] + ka + ["-o", o2] + extra, d)
                sz = os.path.getsize(o2) if os.path.exists(o2) else 0
                # convert / repair write the new archive's header before they can know: only file CONTENT counts;
                # a tar or archive holding no member data is compared by listing what it holds
                if rc == 0:
                    errs.append("%s: %s exits with status 0" % (label, sub))
                if sub == "to-tar" and sz:
                    errs.append("%s: to-tar leaves %d bytes in its output file" % (label, sz))
    else:
        ka = ["-k", os.path.join(SAMPLES, KEYS[0][0])]
        rc, out, err = run(mlar, ["cat", "-i", arch] + ka + [names[-1]], d)
        if rc == 0 or out:
            errs.append("key given for an unencrypted archive: cat exits with %d and prints %d bytes" % (rc, len(out)))
        rc, out, err = run(mlar, ["list", "-i", arch] + ka, d)
        if rc == 0 or out:
            errs.append("key given for an unencrypted archive: list exits with %d and prints %d bytes" % (rc, len(out)))
        o2 = os.path.join(d, "bad_out.tar")
        rc, out, err = run(mlar, ["to-tar", "-i", arch] + ka + ["-o", o2], d)
        sz = os.path.getsize(o2) if os.path.exists(o2) else 0
        if rc == 0 or sz:
            errs.append("key given for an unencrypted archive: to-tar exits with %d and leaves %d bytes in its output file" % (rc, sz))
    cls = "enc=%d comp=%d files=%d maxsize=%s convert=%d%d" % (enc, comp, len(files), "big" if max(map(len, files.values())) >= 131072 else "small", enc2, comp2)
    shutil.rmtree(d, ignore_errors=True)
    return meta, errs, cls


def main():
    _, _harness, work, tier, seed, outp = sys.argv
    mlar = os.path.join(os.environ["VERIF_BINDIR"], "mlar")
    os.makedirs(work, exist_ok=True)
    rng = random.Random(int(seed) * 7919 + 17)
    n = 160 if tier == "thorough" else 14
    with open(outp, "w") as f:
        for k in range(n):
            try:
                meta, errs, cls = pipeline(mlar, rng, work, k, tier)
            except subprocess.TimeoutExpired as e:
                meta, errs, cls = {"pipeline": k}, ["a command did not finish within its time limit: %s" % e.cmd[:3]], "timeout"
            f.write(json.dumps({"id": "c17-%d" % k, "fn": "", "args": [], "impl": [], "oracle_ok": not errs, "oracle_msg": "; ".join(errs[:3]),
                                "class": cls, "nontrivial": True, "meta": meta}) + "\n")


if __name__ == "__main__":
    main()
