#!/usr/bin/env python3
"""C17 job: the mlar sub-commands agree with each other and with the input files.
usage: c17_job.py <harness binary (its `info-aux` helper: brotli, float formatting)> <workdir> <tier> <seed> <out.jsonl>
Needs VERIF_BINDIR (directory holding the mlar binary built from /repo's working tree).
Oracle-only cases: one JSON line per pipeline."""
import hashlib, io, json, os, random, re, shutil, subprocess, sys, tarfile

REPO = os.environ.get("VERIF_REPO", "/repo")
SAMPLES = os.path.join(REPO, "samples")
KEYS = [("test_x25519.pem", "test_x25519_pub.pem"), ("test_x25519_2.pem", "test_x25519_2_pub.pem"), ("test_x25519_3.pem", "test_x25519_3_pub.pem"),
        ("test_ed25519.pem", "test_ed25519_pub.pem")]


def run(mlar, args, cwd, stdin=None, timeout=120):
    p = subprocess.run([mlar] + args, cwd=cwd, input=stdin, stdout=subprocess.PIPE, stderr=subprocess.PIPE, timeout=timeout)
    return p.returncode, p.stdout, p.stderr


def gen_tree(rng, root, tier):
    """random input files; returns {relative path: bytes}"""
    sizes = [0, 1, 2, 100, 999, 1000, 1001, 4095, 4096, 4097, 65536, 131071, 131072, 131073, 262144 + 17]
    if tier == "thorough":
        sizes += [4 * 1024 * 1024 - 1, 4 * 1024 * 1024, 4 * 1024 * 1024 + 1]
    comps = ["a", "b.txt", "dir", "sub dir", "hé世", "x" * 40, "data.bin", "UPPER", "dot.d", "-dash", "tab\tname" if False else "t_name",
             # two dots that are NOT a parent-directory component
             "notes..txt", "v1..2", "...hidden", "trailing..",
             # a backslash is an ordinary character of a Unix file name
             "re\\2024.txt", "back\\dir"]
    files = {}
    n = rng.randint(1, 6)
    while len(files) < n:
        depth = rng.randint(1, 3)
        parts = [rng.choice(comps) for _ in range(depth)]
        if parts[0].startswith("-"):
            parts[0] = "d" + parts[0]
        rel = "/".join(parts)
        # no file may be a directory prefix of another
        if any(rel == f or rel.startswith(f + "/") or f.startswith(rel + "/") for f in files):
            continue
        size = rng.choice(sizes) if rng.random() < 0.8 else rng.randint(0, 300000)
        kind = rng.randint(0, 2)
        if kind == 0:
            data = bytes(size)
        elif kind == 1:
            data = (b"the quick brown fox jumps over the lazy dog\n" * (size // 44 + 1))[:size]
        else:
            data = rng.randbytes(size)
        files[rel] = data
    for rel, data in files.items():
        p = os.path.join(root, rel)
        os.makedirs(os.path.dirname(p), exist_ok=True)
        with open(p, "wb") as f:
            f.write(data)
    return files


def layer_args(enc, comp):
    a = []
    if enc or comp:
        for l in (["compress"] if comp else []) + (["encrypt"] if enc else []):
            a += ["-l", l]
    else:
        a += ["-l"]  # explicitly no layer
    return a


def size_consistent(shown, true_size):
    m = re.fullmatch(r"([0-9.]+) ([kMGT]?B)", shown)
    if not m:
        return False
    unit = {"B": 1, "kB": 1000, "MB": 1000 ** 2, "GB": 1000 ** 3, "TB": 1000 ** 4}[m.group(2)]
    v = float(m.group(1)) * unit
    return abs(v - true_size) <= 0.0051 * unit + 0.5 and (unit == 1 or true_size >= unit * 0.99)


def pipeline(mlar, rng, work, k, tier):
    d = os.path.join(work, "p%d" % k)
    shutil.rmtree(d, ignore_errors=True)
    src = os.path.join(d, "in")
    os.makedirs(src)
    files = gen_tree(rng, src, tier)
    names = sorted(files)
    enc = rng.random() < 0.6
    comp = rng.random() < 0.6
    level = rng.choice([0, 1, 5, 9, 11])
    nkeys = rng.randint(1, 3) if enc else 0
    keyset = rng.sample(KEYS, nkeys)
    reader = rng.choice(keyset) if enc else None
    meta = {"files": {n: len(files[n]) for n in names}, "encrypt": enc, "compress": comp, "level": level, "recipients": [x[1] for x in keyset]}
    errs = []
    arch = os.path.join(d, "a.mla")
    args = ["create", "-o", arch] + layer_args(enc, comp)
    if comp:
        args += ["-q", str(level)]
    for _, pub in keyset:
        # recipient keys are documented as accepted in PEM and in DER: use the DER file where the samples have one
        der = pub.replace(".pem", ".der")
        if os.path.exists(os.path.join(SAMPLES, der)) and (k + len(pub)) % 2 == 0:
            pub = der
        args += ["-p", os.path.join(SAMPLES, pub)]
    # `-l` without value must not swallow a file name: put files after `--`
    # every third archive gets its paths through the file list on standard input (`create ... -`), newline-separated,
    # with and without a newline after the last path
    how = ["args", "stdin-final-newline", "stdin-no-final-newline"][k % 3] if k % 6 < 3 else "args"
    meta["paths_given_by"] = how
    if how == "args":
        rc, out, err = run(mlar, args + ["--"] + names, src)
    else:
        rc, out, err = run(mlar, args + ["--", "-"], src, stdin=("\n".join(names) + ("\n" if how == "stdin-final-newline" else "")).encode("utf8"))
    if rc != 0:
        return meta, ["create (paths given by %s) failed (rc %d): %s" % (how, rc, err[-200:].decode("utf8", "replace"))], "create-failed"
    kargs = ["-k", os.path.join(SAMPLES, reader[0])] if enc else []
    # several candidate keys, the matching one not first (every key option must be honoured)
    decoys = [x for x in KEYS if x not in keyset]
    kargs_multi = []
    if enc and decoys:
        for dk in decoys[:rng.randint(1, 2)]:
            kargs_multi += ["-k", os.path.join(SAMPLES, dk[0])]
        kargs_multi += ["-k", os.path.join(SAMPLES, reader[0])]

    def check_archive(a, kargs, label):
        rc, out, err = run(mlar, ["list", "-i", a] + kargs, d)
        if rc != 0 or out.decode("utf8", "replace").splitlines() != names:
            errs.append("%s: list gives %r (rc %d), expected %r" % (label, out.decode("utf8", "replace").splitlines()[:6], rc, names[:6]))
            return
        rc, out, err = run(mlar, ["list", "-vv", "-i", a] + kargs, d)
        lines = out.decode("utf8", "replace").splitlines()
        if rc != 0 or len(lines) != len(names):
            errs.append("%s: list -vv failed (rc %d)" % (label, rc))
        else:
            for n, line in zip(names, lines):
                m = re.fullmatch(re.escape(n) + r" - (.+) \(([0-9a-f]{64})\)", line)
                if not m:
                    errs.append("%s: list -vv line %r does not match name %r" % (label, line[:80], n))
                elif m.group(2) != hashlib.sha256(files[n]).hexdigest():
                    errs.append("%s: list -vv shows a hash that is not the SHA-256 of %r" % (label, n))
                elif not size_consistent(m.group(1), len(files[n])):
                    errs.append("%s: list -vv shows size %r for %r of %d bytes" % (label, m.group(1), n, len(files[n])))
        for n in names:
            rc, out, err = run(mlar, ["cat", "-i", a] + kargs + [n], d)
            if rc != 0 or out != files[n]:
                errs.append("%s: cat %r returns %d bytes (rc %d), file has %d" % (label, n, len(out), rc, len(files[n])))
        for form in ("linear", "listed"):
            od = os.path.join(d, "out_%s_%s" % (label, form))
            shutil.rmtree(od, ignore_errors=True)
            # the selected-files form takes ONE name per invocation (clap: single value)
            failed = False
            for sel in ([[n] for n in names] if form == "listed" else [[]]):
                rc, out, err = run(mlar, ["extract", "-i", a] + kargs + ["-o", od] + sel, d)
                if rc != 0:
                    errs.append("%s: extract (%s %r) failed rc %d: %s" % (label, form, sel, rc, err[-150:].decode("utf8", "replace")))
                    failed = True
                    break
            if failed:
                continue
            got = {}
            for root, _, fs in os.walk(od):
                for f in fs:
                    p = os.path.join(root, f)
                    got[os.path.relpath(p, od)] = open(p, "rb").read()
            if got != files:
                bad = [n for n in names if got.get(n) != files[n]] + [n for n in got if n not in files]
                errs.append("%s: extract (%s): %d files differ / are missing / are extra, e.g. %r" % (label, form, len(bad), bad[:2]))
        tarp = os.path.join(d, "t_%s.tar" % label)
        rc, out, err = run(mlar, ["to-tar", "-i", a] + kargs + ["-o", tarp], d)
        if rc != 0:
            errs.append("%s: to-tar failed rc %d" % (label, rc))
        else:
            try:
                with tarfile.open(tarp) as tf:
                    tgot = {m.name: tf.extractfile(m).read() for m in tf.getmembers() if m.isfile()}
                if tgot != files:
                    errs.append("%s: to-tar: entries differ from the input files (%d vs %d entries)" % (label, len(tgot), len(files)))
            except Exception as e:
                errs.append("%s: to-tar produced an unreadable tar: %s" % (label, e))

    check_archive(arch, kargs, "created")
    if kargs_multi:
        n0 = names[0]
        rc, out, err = run(mlar, ["cat", "-i", arch] + kargs_multi + [n0], d)
        if rc != 0 or out != files[n0]:
            errs.append("cat with %d candidate keys (the matching one last) returns %d bytes (rc %d), file has %d" % (len(kargs_multi) // 2, len(out), rc, len(files[n0])))
        rc, out, err = run(mlar, ["list", "-i", arch] + kargs_multi, d)
        if rc != 0 or out.decode("utf8", "replace").splitlines() != names:
            errs.append("list with %d candidate keys (the matching one last) fails (rc %d)" % (len(kargs_multi) // 2, rc))
    # convert to another layer / key choice
    enc2 = rng.random() < 0.5
    comp2 = rng.random() < 0.5
    key2 = rng.choice(KEYS)
    arch2 = os.path.join(d, "b.mla")
    args = ["convert", "-i", arch] + kargs + ["-o", arch2] + layer_args(enc2, comp2)
    if enc2:
        args += ["-p", os.path.join(SAMPLES, key2[1])]
    rc, out, err = run(mlar, args, d)
    meta["convert"] = {"encrypt": enc2, "compress": comp2}
    if rc != 0:
        errs.append("convert failed rc %d: %s" % (rc, err[-150:].decode("utf8", "replace")))
    else:
        check_archive(arch2, ["-k", os.path.join(SAMPLES, key2[0])] if enc2 else [], "converted")
    # repair of the intact archive
    arch3 = os.path.join(d, "c.mla")
    rc, out, err = run(mlar, ["repair", "-i", arch] + kargs + ["-o", arch3, "-l"], d)
    if rc != 0:
        errs.append("repair of the intact archive failed rc %d: %s" % (rc, err[-150:].decode("utf8", "replace")))
    else:
        for n in names:
            rc, out, err = run(mlar, ["cat", "-i", arch3, n], d)
            if rc != 0 or out != files[n]:
                errs.append("repair of the intact archive: %r has %d bytes after repair, %d before" % (n, len(out), len(files[n])))
    # keys: wrong, missing, given for an unencrypted archive
    others = [x for x in KEYS if x not in keyset]
    if enc:
        wrong = ["-k", os.path.join(SAMPLES, others[0][0])] if others else None
        for label, ka in (("wrong key", wrong), ("no key", [])):
            if ka is None:
                continue
            o = os.path.join(d, "cat_out.bin")
            if os.path.exists(o):
                os.remove(o)
            rc, out, err = run(mlar, ["cat", "-i", arch] + ka + ["-o", o, names[-1]], d)
            content = open(o, "rb").read() if os.path.exists(o) else b""
            if rc == 0:
                errs.append("%s: cat exits with status 0" % label)
            if content or out:
                errs.append("%s: cat produced %d bytes of output" % (label, len(content) + len(out)))
            rc, out, err = run(mlar, ["list", "-i", arch] + ka, d)
            if rc == 0 or out:
                errs.append("%s: list exits with %d and prints %d bytes" % (label, rc, len(out)))
            od = os.path.join(d, "out_bad")
            shutil.rmtree(od, ignore_errors=True)
            rc, out, err = run(mlar, ["extract", "-i", arch] + ka + ["-o", od], d)
            n_out = sum(len(fs) for _, _, fs in os.walk(od)) if os.path.isdir(od) else 0
            if rc == 0 or n_out:
                errs.append("%s: extract exits with %d and writes %d files" % (label, rc, n_out))
            for sub, extra in (("to-tar", []), ("convert", ["-l"]), ("repair", ["-l"])):
                o2 = os.path.join(d, "bad_out.bin")
                if os.path.exists(o2):
                    os.remove(o2)
                rc, out, err = run(mlar, [sub, "-i", arch] + ka + ["-o", o2] + extra, d)
                sz = os.path.getsize(o2) if os.path.exists(o2) else 0
                # convert / repair write the new archive's header before they can know: only file CONTENT counts;
                # a tar or archive holding no member data is compared by listing what it holds
                if rc == 0:
                    errs.append("%s: %s exits with status 0" % (label, sub))
                if sub == "to-tar" and sz:
                    errs.append("%s: to-tar leaves %d bytes in its output file" % (label, sz))
    else:
        ka = ["-k", os.path.join(SAMPLES, KEYS[0][0])]
        rc, out, err = run(mlar, ["cat", "-i", arch] + ka + [names[-1]], d)
        if rc == 0 or out:
            errs.append("key given for an unencrypted archive: cat exits with %d and prints %d bytes" % (rc, len(out)))
        rc, out, err = run(mlar, ["list", "-i", arch] + ka, d)
        if rc == 0 or out:
            errs.append("key given for an unencrypted archive: list exits with %d and prints %d bytes" % (rc, len(out)))
        o2 = os.path.join(d, "bad_out.tar")
        rc, out, err = run(mlar, ["to-tar", "-i", arch] + ka + ["-o", o2], d)
        sz = os.path.getsize(o2) if os.path.exists(o2) else 0
        if rc == 0 or sz:
            errs.append("key given for an unencrypted archive: to-tar exits with %d and leaves %d bytes in its output file" % (rc, sz))
        for sub in ("convert", "repair"):
            o3 = os.path.join(d, "bad_out_%s.mla" % sub)
            rc, out, err = run(mlar, [sub, "-i", arch] + ka + ["-o", o3, "-l"], d)
            sz = os.path.getsize(o3) if os.path.exists(o3) else 0
            if rc == 0 or sz:
                errs.append("key given for an unencrypted archive: %s exits with %d and leaves %d bytes in its output file" % (sub, rc, sz))
    cls = "enc=%d comp=%d files=%d maxsize=%s convert=%d%d" % (enc, comp, len(files), "big" if max(map(len, files.values())) >= 131072 else "small", enc2, comp2)
    shutil.rmtree(d, ignore_errors=True)
    return meta, errs, cls


# ---------------------------------------------------------------------------------------------
# work package cli17: MODEL-COMPARED cases (fn != ""): the outputs of the real binary in the row
# encoding of coq/theories/RunC17.v; tools/checklib.py evaluates the Coq command model
# (Cli.v / Tar.v / CliRepair.v) on the same inputs and diffs.

def B(b):
    return list(b)


SPECIAL_NAMES = [
    "plain.txt", "dir/inner.bin", "hé世界/ü.txt", "sp ace/na me", "a/b/c/d/e/f",
    "L" * 101, "d/" + "m" * 100, "n" * 99, "n" * 100, "q/" + "é" * 49 + "x",        # > 100, = 100, cut inside a UTF-8 character
    "./dot/lead", "dbl//slash", "trail/./mid", "x" * 60 + "/" + "y" * 60,
    "../in/up.txt", "../in/" + "u" * 100,                                        # `..`: short (dropped by to-tar), long (dangling long-name member)
]


def gen_small(rng, root, n, allow_special):
    """small input files, names drawn from SPECIAL_NAMES and random ones; returns ordered [(arg path, bytes)]"""
    files = []
    pool = list(SPECIAL_NAMES) if allow_special else [x for x in SPECIAL_NAMES if ".." not in x and "//" not in x and "./" not in x]
    rng.shuffle(pool)
    for name in pool:
        if len(files) >= n:
            break
        norm = os.path.normpath(os.path.join(root, name))
        if any(norm == os.path.normpath(os.path.join(root, f)) or norm.startswith(os.path.normpath(os.path.join(root, f)) + "/")
               or os.path.normpath(os.path.join(root, f)).startswith(norm + "/") for f, _ in files):
            continue
        size = rng.choice([0, 1, 5, 63, 64, 65, 511, 512, 513, 700, 999, 1000, 1500])
        data = rng.randbytes(size) if rng.random() < 0.5 else (b"mla " * (size // 4 + 1))[:size]
        try:
            os.makedirs(os.path.dirname(norm), exist_ok=True)
            with open(norm, "wb") as f:
                f.write(data)
        except OSError:
            continue
        files.append((name, data))
    return files


def shown_size(text):
    m = re.fullmatch(r"(\d+) B", text)
    return int(m.group(1)) if m else 1000


def read_listing(mlar, a, kargs, cwd):
    rc, out, err = run(mlar, ["list", "-i", a] + kargs, cwd)
    return rc, out.decode("utf8", "surrogateescape").splitlines()


def arch_rows(mlar, a, kargs, cwd, cat_names, d):
    """rows of RunC17.c17_arch / c17_spec from the real binary (archive `a` opens)"""
    rows = []
    rc, names = read_listing(mlar, a, kargs, cwd)
    if rc != 0:
        return [[0, 1]], ["list failed rc %d" % rc]
    rows += [[1] + B(n.encode("utf8", "surrogateescape")) for n in names]
    rc, out, err = run(mlar, ["list", "-vv", "-i", a] + kargs, cwd)
    vok = 1 if rc == 0 else 0
    vv = []
    for line in out.decode("utf8", "surrogateescape").splitlines():
        m = re.fullmatch(r"(.*) - (.+) \(([0-9a-f]{64})\)", line, re.S)
        if not m:
            return rows, ["list -vv line not understood: %r" % line[:80]]
        vv.append((shown_size(m.group(2)), bytes.fromhex(m.group(3))))
    cats = []
    for n in cat_names:
        rc, out, err = run(mlar, ["cat", "-i", a] + kargs + ["--", n], cwd)
        cats.append((1 if rc == 0 else 0, out))
    tarp = os.path.join(d, "mc.tar")
    if os.path.exists(tarp):
        os.remove(tarp)
    rc, out, err = run(mlar, ["to-tar", "-i", a] + kargs + ["-o", tarp], cwd)
    tarb = open(tarp, "rb").read() if os.path.exists(tarp) else b""
    return rows, vv, vok, cats, tarb, rc


def members_rows(mlar, a, cwd):
    rc, names = read_listing(mlar, a, [], cwd)
    if rc != 0:
        return [[0, 1]]
    rows = [[0, 0]]
    for n in names:
        rc, out, err = run(mlar, ["cat", "-i", a, "--", n], cwd)
        rows += [[8] + B(n.encode("utf8", "surrogateescape")), [9] + B(out)]
    return rows


def effect(path):
    if not os.path.exists(path):
        return 0
    c = open(path, "rb").read()
    return 0 if c == b"OLD" else (1 if c == b"" else 2)


def fail_rows(mlar, a, kargs, cwd, d, open_status):
    """[0; open status] and per command [7; exit ok; output effect] with a pre-existing output file holding OLD"""
    rows = [[0, open_status]]
    o = os.path.join(d, "fx.out")

    def pre():
        with open(o, "wb") as f:
            f.write(b"OLD")
    rc, out, err = run(mlar, ["list", "-i", a] + kargs, cwd)
    rows.append([7, 1 if rc == 0 else 0, 0 if not out else 2])
    pre()
    rc, out, err = run(mlar, ["cat", "-i", a] + kargs + ["-o", o, "--", "x"], cwd)
    rows.append([7, 1 if rc == 0 else 0, effect(o)])
    rc, out, err = run(mlar, ["cat", "-i", a] + kargs + ["--", "x"], cwd)
    rows.append([7, 1 if rc == 0 else 0, 0 if not out else 2])
    for sub, extra in (("to-tar", []), ("convert", ["-l"]), ("repair", ["-l"])):
        pre()
        rc, out, err = run(mlar, [sub, "-i", a] + kargs + ["-o", o] + extra, cwd)
        rows.append([7, 1 if rc == 0 else 0, effect(o)])
    return rows


def model_cases(mlar, rng, work, tier, f):
    n_arch = 40 if tier == "thorough" else 9
    n_spec = 40 if tier == "thorough" else 6
    key0 = os.path.join(SAMPLES, KEYS[0][0])
    k = 0
    # ---- (a) layer-less archives: the model reads the real archive bytes
    for i in range(n_arch):
        d = os.path.join(work, "m%d" % i)
        shutil.rmtree(d, ignore_errors=True)
        src = os.path.join(d, "in")
        os.makedirs(src)
        files = gen_small(rng, src, rng.randint(1, 4), allow_special=True)
        args = [n for n, _ in files]
        if i % 3 == 0:   # an absolute name: "./" is put in front by to-tar
            ap = os.path.join(src, "abs_%d.txt" % i)
            data = b"absolute %d" % i
            open(ap, "wb").write(data)
            files.append((ap, data))
            args.append(ap)
        arch = os.path.join(d, "p.mla")
        rc, out, err = run(mlar, ["create", "-l", "-o", arch, "--"] + args, src)
        cls = "model plain files=%d long=%d dotdot=%d abs=%d" % (len(files), any(len(n.encode()) > 100 for n in args), any(".." in n for n in args), i % 3 == 0)
        if rc != 0:
            f.write(json.dumps({"id": "c17-m-%d" % i, "fn": "", "args": [], "impl": [], "oracle_ok": False, "oracle_msg": "create -l failed rc %d: %s" % (rc, err[-200:].decode("utf8", "replace")),
                                "class": cls, "nontrivial": True, "meta": {"names": args}}) + "\n")
            continue
        ab = open(arch, "rb").read()
        cat_names = args[:3] + ["no-such-name"]
        r = arch_rows(mlar, arch, [], src, cat_names, d)
        if len(r) == 2:
            impl, msgs = r
            ok = False
        else:
            rows, vv, vok, cats, tarb, rct = r
            impl = [[0, 0]] + rows
            for sz, h in vv:
                impl += [[2, sz], [3] + B(h)]
            impl += [[2, vok]]
            for okc, outc in cats:
                impl += [[4, okc], [5] + B(outc)]
            impl += [[6] + B(tarb)]
            # the property's oracle on this pipeline: names listed == names given; cat gives the bytes
            msgs = []
            want = {n.encode("utf8", "surrogateescape"): dta for n, dta in files}
            if sorted(bytes(x[1:]) for x in rows) != sorted(want):
                msgs.append("list does not give exactly the paths given")
            for (okc, outc), n in zip(cats, cat_names):
                if n in dict(files) and (okc != 1 or outc != dict(files)[n]):
                    msgs.append("cat %r does not return the file's bytes" % n[:40])
            ok = not msgs
        # model row for sizes: shown exactly only below 1000 bytes
        f.write(json.dumps({"id": "c17-m-%d" % i, "fn": "c17_arch", "args": [B(ab), 0, [B(n.encode("utf8", "surrogateescape")) for n in cat_names]],
                            "impl": impl, "oracle_ok": ok, "oracle_msg": "; ".join(msgs[:3]), "class": cls, "nontrivial": True,
                            "meta": {"names": args, "archive_bytes": len(ab)}}) + "\n")
        # convert / repair into a layer-less archive: members of the new archive
        for sub in ("convert", "repair"):
            o = os.path.join(d, sub + ".mla")
            rc, out, err = run(mlar, [sub, "-i", arch, "-o", o, "-l"], src)
            impl2 = ([[7, 1, 2]] + members_rows(mlar, o, src)) if rc == 0 else [[7, 0, effect(o)]]
            want_rows = [[7, 1, 2], [0, 0]]
            for n in sorted(set(nn.encode("utf8", "surrogateescape") for nn, _ in files)):
                want_rows += [[8] + B(n), [9] + B(dict((a_.encode("utf8", "surrogateescape"), b_) for a_, b_ in files)[n])]
            okm = impl2 == want_rows
            f.write(json.dumps({"id": "c17-m-%d-%s" % (i, sub), "fn": "c17_" + sub, "args": [B(ab), 0], "impl": impl2, "oracle_ok": okm,
                                "oracle_msg": "" if okm else "%s of the intact archive does not give back each file's bytes" % sub,
                                "class": "model %s plain" % sub, "nontrivial": True, "meta": {"names": args}}) + "\n")
        # (a) `cat -o FILE` / `to-tar -o FILE` where FILE exists and is LONGER than the new output: exactly the new output
        if len(r) != 2:
            msgs_t = []
            big = os.path.join(d, "longer.out")
            n0, d0 = files[0]
            with open(big, "wb") as fh:
                fh.write(b"Z" * (len(d0) + 70000))
            rc, out, err = run(mlar, ["cat", "-i", arch, "-o", big, "--", n0], src)
            got = open(big, "rb").read()
            if rc != 0 or got != d0:
                msgs_t.append("cat -o onto a longer existing file leaves %d bytes (rc %d), the member has %d" % (len(got), rc, len(d0)))
            with open(big, "wb") as fh:
                fh.write(b"Z" * (len(tarb) + 70000))
            rc, out, err = run(mlar, ["to-tar", "-i", arch, "-o", big], src)
            got = open(big, "rb").read()
            if rc != 0 or got != tarb:
                msgs_t.append("to-tar -o onto a longer existing file leaves %d bytes (rc %d), a fresh run writes %d" % (len(got), rc, len(tarb)))
            f.write(json.dumps({"id": "c17-m-%d-trunc" % i, "fn": "", "args": [], "impl": [], "oracle_ok": not msgs_t, "oracle_msg": "; ".join(msgs_t),
                                "class": "output onto a longer existing file", "nontrivial": True, "meta": {"name": n0, "tar_bytes": len(tarb)}}) + "\n")
        # a key given for this archive (not encrypted): open_mla_file refuses; what exists afterwards
        if i % 2 == 0:
            impl3 = fail_rows(mlar, arch, ["-k", key0], src, d, 1)
            # oracle (property text): non-zero status and no output content for the commands that go through open_mla_file
            # all six commands, `repair` included (open_failsafe_mla_file has the same key policy since 9ea79db)
            bad = [j for j, rw in enumerate(impl3[1:]) if rw[1] != 0 or rw[2] == 2]
            f.write(json.dumps({"id": "c17-m-%d-keyplain" % i, "fn": "c17_fail", "args": [B(ab), 1], "impl": impl3, "oracle_ok": not bad,
                                "oracle_msg": "" if not bad else "key given for an unencrypted archive: command #%d exits 0 or leaves output content" % bad[0],
                                "class": "model key-on-unencrypted", "nontrivial": True,
                                "meta": {"note": "rows: list, cat -o, cat, to-tar, convert, repair"}}) + "\n")
        shutil.rmtree(d, ignore_errors=True)
    # ---- `create <dir>` where the directory holds a symbolic link to a regular file whose content is longer than the
    # link's target path: the member stored for the link has the file's full bytes (as when the link is given explicitly)
    for i in range(3 if tier == "thorough" else 1):
        d = os.path.join(work, "ln%d" % i)
        shutil.rmtree(d, ignore_errors=True)
        src = os.path.join(d, "in")
        os.makedirs(os.path.join(src, "ld"))
        data = rng.randbytes(rng.choice([300, 777, 2500]))
        open(os.path.join(src, "ld", "real.bin"), "wb").write(data)
        os.symlink("real.bin", os.path.join(src, "ld", "lnk"))          # target path: 8 bytes
        other = b"explicit " * 40
        open(os.path.join(src, "t.dat"), "wb").write(other)
        os.symlink("t.dat", os.path.join(src, "l2"))                    # a link given explicitly
        files = [("ld/real.bin", data), ("ld/lnk", data), ("l2", other)]
        arch = os.path.join(d, "p.mla")
        rc, out, err = run(mlar, ["create", "-l", "-o", arch, "--", "ld", "l2"], src)
        cls = "model plain dir-with-symlink"
        if rc != 0:
            f.write(json.dumps({"id": "c17-ln-%d" % i, "fn": "", "args": [], "impl": [], "oracle_ok": False, "oracle_msg": "create of a directory with a symbolic link failed rc %d" % rc,
                                "class": cls, "nontrivial": True, "meta": {}}) + "\n")
            continue
        ab = open(arch, "rb").read()
        cat_names = ["ld/lnk", "ld/real.bin", "l2"]
        r = arch_rows(mlar, arch, [], src, cat_names, d)
        msgs = []
        if len(r) == 2:
            impl, msgs = r
        else:
            rows, vv, vok, cats, tarb, rct = r
            impl = [[0, 0]] + rows
            for sz, h in vv:
                impl += [[2, sz], [3] + B(h)]
            impl += [[2, vok]]
            for okc, outc in cats:
                impl += [[4, okc], [5] + B(outc)]
            impl += [[6] + B(tarb)]
            if sorted(bytes(x[1:]) for x in rows) != sorted(n.encode() for n, _ in files):
                msgs.append("list does not give exactly the paths of the directory walk")
            for (okc, outc), n in zip(cats, cat_names):
                if okc != 1 or outc != dict(files)[n]:
                    msgs.append("member %r stored for a symbolic link has %d bytes, the file it points to has %d" % (n, len(outc), len(dict(files)[n])))
        f.write(json.dumps({"id": "c17-ln-%d" % i, "fn": "c17_arch", "args": [B(ab), 0, [B(n.encode()) for n in cat_names]], "impl": impl,
                            "oracle_ok": not msgs, "oracle_msg": "; ".join(msgs[:3]), "class": cls, "nontrivial": True,
                            "meta": {"names": [n for n, _ in files], "archive_bytes": len(ab)}}) + "\n")
        shutil.rmtree(d, ignore_errors=True)
    # ---- (b) any layers: what the theorems say for an archive made by create from these files
    for i in range(n_spec):
        d = os.path.join(work, "s%d" % i)
        shutil.rmtree(d, ignore_errors=True)
        src = os.path.join(d, "in")
        os.makedirs(src)
        files = gen_small(rng, src, rng.randint(1, 4), allow_special=True)
        args = [n for n, _ in files]
        enc = i % 2 == 0
        comp = i % 3 != 0
        keyset = rng.sample(KEYS, rng.randint(1, 2)) if enc else []
        arch = os.path.join(d, "l.mla")
        cargs = ["create", "-o", arch] + layer_args(enc, comp)
        for _, pub in keyset:
            cargs += ["-p", os.path.join(SAMPLES, pub)]
        rc, out, err = run(mlar, cargs + ["--"] + args, src)
        cls = "model spec enc=%d comp=%d files=%d" % (enc, comp, len(files))
        if rc != 0:
            f.write(json.dumps({"id": "c17-s-%d" % i, "fn": "", "args": [], "impl": [], "oracle_ok": False, "oracle_msg": "create failed rc %d" % rc,
                                "class": cls, "nontrivial": True, "meta": {"names": args}}) + "\n")
            continue
        kargs = ["-k", os.path.join(SAMPLES, keyset[-1][0])] if enc else []
        cat_names = args[:2] + ["no-such-name"]
        r = arch_rows(mlar, arch, kargs, src, cat_names, d)
        if len(r) == 2:
            impl, msgs = r
        else:
            rows, vv, vok, cats, tarb, rct = r
            impl = list(rows)
            for sz, h in vv:
                impl += [[2, sz], [3] + B(h)]
            for okc, outc in cats:
                impl += [[4, okc], [5] + B(outc)]
            impl += [[6] + B(tarb)]
            msgs = []
        f.write(json.dumps({"id": "c17-s-%d" % i, "fn": "c17_spec",
                            "args": [[[B(n.encode("utf8", "surrogateescape")), B(dta)] for n, dta in files], [[B(n.encode("utf8", "surrogateescape"))] for n in cat_names], 1],
                            "impl": impl, "oracle_ok": not msgs, "oracle_msg": "; ".join(msgs[:3]), "class": cls, "nontrivial": True,
                            "meta": {"names": args, "recipients": [x[1] for x in keyset]}}) + "\n")
        if enc:
            ab = open(arch, "rb").read()
            impl3 = fail_rows(mlar, arch, [], src, d, 1)
            bad = [j for j, rw in enumerate(impl3[1:]) if rw[1] != 0 or rw[2] == 2]
            f.write(json.dumps({"id": "c17-s-%d-nokey" % i, "fn": "c17_fail", "args": [B(ab), 0], "impl": impl3, "oracle_ok": not bad,
                                "oracle_msg": "" if not bad else "no key for an encrypted archive: command #%d exits 0 or leaves output content" % bad[0],
                                "class": "model missing-key", "nontrivial": True, "meta": {"note": "rows: list, cat -o, cat, to-tar, convert, repair"}}) + "\n")
        shutil.rmtree(d, ignore_errors=True)


# ---------------------------------------------------------------------------------------------
# work package info: `mlar info` / `mlar info -v`, with and without -k, on created archives of the
# four layer combinations; model-compared through coq/theories/RunC17Info.v (lines as rows).
# The oracle does not use the model: flags = the create arguments, recipients = number of -p keys,
# rate = sum of the input sizes / compressed size, the latter from THIS script's own parser of the
# archive (header length, 16-byte tag per 128 KiB chunk, SizesInfo footer).

CHUNK_PROD = 128 * 1024


def aux(harness, mode, lines):
    p = subprocess.run([harness, "info-aux", mode], input=("\n".join(lines) + "\n").encode(), stdout=subprocess.PIPE, stderr=subprocess.PIPE, timeout=120)
    if p.returncode != 0:
        raise RuntimeError("info-aux %s failed: %s" % (mode, p.stderr[-200:]))
    return p.stdout.decode().splitlines()


def parse_header(ab):
    """-> (layers byte, number of recipients or None, header length); raises on anything unexpected"""
    if ab[:3] != b"MLA" or int.from_bytes(ab[3:7], "little") != 1:
        raise ValueError("magic / version")
    layers, opt = ab[7], ab[8]
    if opt == 0:
        return layers, None, 9
    n = int.from_bytes(ab[9 + 32:9 + 40], "little")
    return layers, n, 9 + 32 + 8 + 48 * n + 8


def mid_length(body_len):
    """length of the stream under the encryption layer: chunks of CHUNK bytes, each followed by a 16-byte tag"""
    nch = (body_len + CHUNK_PROD + 15) // (CHUNK_PROD + 16)
    return body_len - 16 * nch


def comp_blocks(mid):
    """compressed blocks of an unencrypted compressed stream, from its SizesInfo footer"""
    l = int.from_bytes(mid[-4:], "little")
    si = mid[-4 - l:-4]
    n = int.from_bytes(si[:8], "little")
    sizes = [int.from_bytes(si[8 + 4 * i:12 + 4 * i], "little") for i in range(n)]
    if 8 + 4 * n + 4 != l or sum(sizes) + l + 4 != len(mid):
        raise ValueError("SizesInfo does not add up")
    blocks, o = [], 0
    for c in sizes:
        blocks.append(mid[o:o + c])
        o += c
    return blocks


def info_rows(rc, out):
    return [[0, rc]] + [[1] + B(l) for l in out.split(b"\n")[:-1]] + ([[1] + B(out.split(b"\n")[-1])] if out and not out.endswith(b"\n") else [])


def ser_footer(entries):
    """bincode (fixint) of HashMap<String, FileInfo{offsets: Vec<u64>, size: u64, eof_offset: u64}>"""
    b = len(entries).to_bytes(8, "little")
    for name, offsets, size, eof in entries:
        b += len(name).to_bytes(8, "little") + name
        b += len(offsets).to_bytes(8, "little") + b"".join(o.to_bytes(8, "little") for o in offsets)
        b += size.to_bytes(8, "little") + eof.to_bytes(8, "little")
    return b


def info_cases(mlar, harness, rng, work, tier, f):
    shutil.rmtree(work, ignore_errors=True)
    os.makedirs(work)
    ovf = 1      # cargo_repo builds the dev profile: overflow checks are on
    combos = [(e, c) for e in (False, True) for c in (False, True)]
    reps = 3 if tier == "thorough" else 1
    k = 0
    for rep in range(reps):
        for enc, comp in combos:
            d = os.path.join(work, "i%d" % k)
            src = os.path.join(d, "in")
            os.makedirs(src)
            files = gen_small(rng, src, rng.randint(1, 4), allow_special=False)
            if rep == 0 and comp and not enc:
                big = (b"compressible " * 400)[:5000]
                open(os.path.join(src, "big.txt"), "wb").write(big)
                files.append(("big.txt", big))
            nrec = (k % 3) + 1 if enc else 0
            keyset = KEYS[:3][:nrec] if rep == 0 else rng.sample(KEYS, nrec)
            arch = os.path.join(d, "a.mla")
            cargs = ["create", "-o", arch] + layer_args(enc, comp)
            for _, pub in keyset:
                cargs += ["-p", os.path.join(SAMPLES, pub)]
            rc, out, err = run(mlar, cargs + ["--"] + [n for n, _ in files], src)
            cls0 = "info enc=%d comp=%d recipients=%d" % (enc, comp, nrec)
            if rc != 0:
                f.write(json.dumps({"id": "c17-info-%d" % k, "fn": "", "args": [], "impl": [], "oracle_ok": False, "oracle_msg": "create failed rc %d" % rc,
                                    "class": cls0, "nontrivial": True, "meta": {}}) + "\n")
                k += 1
                continue
            ab = open(arch, "rb").read()
            total = sum(len(dta) for _, dta in files)
            msgs0, table, csize = [], [], None
            try:
                layers, nrec_hdr, hlen = parse_header(ab)
                body = ab[hlen:]
                if comp:
                    if enc:
                        csize = mid_length(len(body)) - 20          # one compression block (inputs far below 4 MiB): SizesInfo 16 + 4
                    else:
                        blocks = comp_blocks(body)
                        csize = sum(len(b_) for b_ in blocks)
                        plains = aux(harness, "brotli-dec", [b_.hex() for b_ in blocks])
                        table = [[B(b_), B(bytes.fromhex(p_))] for b_, p_ in zip(blocks, plains)]
            except Exception as e:  # noqa: BLE001
                msgs0.append("the job's parser does not understand the archive: %s" % e)
            kfile = os.path.join(SAMPLES, keyset[-1][0]) if enc else os.path.join(SAMPLES, KEYS[3][0])
            for verbose in (0, 1):
                for withkey in (0, 1):
                    args = ["info"] + (["-v"] if verbose else []) + ["-i", arch] + (["-k", kfile] if withkey else [])
                    rc, out, err = run(mlar, args, d)
                    impl = info_rows(rc, out)
                    # ---- the oracle
                    msgs = list(msgs0)
                    if enc and comp and not withkey:
                        want = (1, b"")
                    else:
                        t = "Format version: 1\nEncryption: %s\n" % ("true" if enc else "false")
                        if enc and verbose:
                            t += "  Recipients: %d\n" % nrec
                        t += "Compression: %s\n" % ("true" if comp else "false")
                        if comp and verbose and csize:
                            t += "  Compression rate: %.2f\n" % (total / csize)
                        want = (0, t.encode())
                    if (rc, out) != want:
                        msgs.append("info%s%s: status %d, output %r; the create arguments and the input sizes give status %d, %r" % (
                            " -v" if verbose else "", " -k" if withkey else "", rc, out[:120], want[0], want[1][:120]))
                    # ---- the model
                    if comp and enc and withkey:
                        fn, margs = "c17i_spec", [verbose, 1, nrec, 1, total, csize or 0]
                    else:
                        fn, margs = "c17i_arch", [B(ab), withkey, verbose, ovf, table]
                    f.write(json.dumps({"id": "c17-info-%d-v%d-k%d" % (k, verbose, withkey), "fn": fn, "args": margs, "impl": impl,
                                        "oracle_ok": not msgs, "oracle_msg": "; ".join(msgs[:2]),
                                        "class": cls0 + " verbose=%d key=%d" % (verbose, withkey), "nontrivial": True,
                                        "meta": {"files": len(files), "total": total, "compressed": csize, "archive_bytes": len(ab)}}) + "\n")
                    # compressed, not encrypted: also the file-level prediction
                    if comp and not enc and not msgs0:
                        f.write(json.dumps({"id": "c17-info-%d-v%d-k%d-spec" % (k, verbose, withkey), "fn": "c17i_spec",
                                            "args": [verbose, 0, 0, 1, total, csize], "impl": impl, "oracle_ok": True, "oracle_msg": "",
                                            "class": cls0 + " spec", "nontrivial": True, "meta": {}}) + "\n")
            shutil.rmtree(d, ignore_errors=True)
            k += 1
    # ---- crafted archives reaching the panic sites of `info` (NOTES: info is outside the operations of C08; the rows tie
    # the model's crash claims to the real binary, the oracle has nothing to say)
    d = os.path.join(work, "w")
    os.makedirs(d)
    w1 = b"MLA\x01\x00\x00\x00\x01\x00"
    foot = ser_footer([(b"a", [0], 2 ** 63, 0), (b"b", [0], 2 ** 63, 0)])
    plain = foot + len(foot).to_bytes(4, "little")
    cb = bytes.fromhex(aux(harness, "brotli-enc", [plain.hex()])[0])
    si = (1).to_bytes(8, "little") + len(cb).to_bytes(4, "little") + len(plain).to_bytes(4, "little")
    w2 = b"MLA\x01\x00\x00\x00\x02\x00" + cb + si + len(si).to_bytes(4, "little")
    for name, ab, table in (("enc-without-config", w1, []), ("files-sum-overflow", w2, [[B(cb), B(plain)]])):
        pth = os.path.join(d, name + ".mla")
        open(pth, "wb").write(ab)
        for verbose in (0, 1):
            rc, out, err = run(mlar, ["info"] + (["-v"] if verbose else []) + ["-i", pth], d)
            f.write(json.dumps({"id": "c17-info-crafted-%s-v%d" % (name, verbose), "fn": "c17i_arch", "args": [B(ab), 0, verbose, ovf, table],
                                "impl": info_rows(rc, out), "oracle_ok": True, "oracle_msg": "",
                                "class": "info crafted %s" % name, "nontrivial": True,
                                "meta": {"status": rc, "stderr": err[:160].decode("utf8", "replace"), "hex": ab.hex() if len(ab) < 200 else ab[:64].hex() + ".."}}) + "\n")
    # ---- the two-decimal rendering of the quotient: core::fmt on generated pairs vs CliInfo.rate_text
    pairs = [(0, 3), (5, 0), (0, 0), (1, 8), (3, 8), (5, 8), (7, 8), (1, 16), (3, 16), (1, 32), (1, 3), (2, 3), (1, 200), (1, 201), (199, 200),
             (2 ** 64 - 1, 1), (2 ** 64 - 1, 2 ** 64 - 1), (1, 2 ** 64 - 1), (2 ** 53 + 1, 1), (2 ** 53 + 1, 3), (2 ** 63 + 1025, 7), (9, 2 ** 63 + 1),
             (995, 1000), (1005, 1000), (2675, 1000), (1, 1000), (4, 1000), (5, 1000), (6, 1000), (15, 1000), (25, 1000), (35, 1000)]
    n_rand = 400 if tier == "thorough" else 60
    for i in range(n_rand):
        m = i % 4
        if m == 0:
            pairs.append((rng.randint(0, 10 ** 7), rng.randint(1, 10 ** 6)))
        elif m == 1:
            pairs.append((rng.randint(0, 2 ** 64 - 1), rng.randint(1, 2 ** 64 - 1)))
        elif m == 2:
            q = 2 ** rng.randint(1, 20)
            pairs.append((rng.randrange(1, 64 * q, 2), 8 * q))      # many exact ties at the third decimal
        else:
            pairs.append((rng.randint(2 ** 52, 2 ** 56), rng.randint(1, 50)))
    texts = aux(harness, "fmt-rate", ["%d %d" % p_ for p_ in pairs])
    for j in range(0, len(pairs), 16):
        chunk = pairs[j:j + 16]
        got = texts[j:j + 16]
        bad = [p_ for p_, t_ in zip(chunk, got) if p_[1] and p_[0] < 2 ** 53 and p_[1] < 2 ** 53 and t_ != "%.2f" % (p_[0] / p_[1])]
        f.write(json.dumps({"id": "c17-info-rate-%d" % (j // 16), "fn": "c17i_rate", "args": [[list(p_) for p_ in chunk]], "impl": [B(t_.encode()) for t_ in got],
                            "oracle_ok": not bad, "oracle_msg": "" if not bad else "format!(\"{:.2}\") of %d / %d differs from the correctly rounded quotient" % bad[0],
                            "class": "info rate rendering", "nontrivial": True, "meta": {"pairs": len(chunk)}}) + "\n")
    shutil.rmtree(work, ignore_errors=True)


def main():
    _, harness, work, tier, seed, outp = sys.argv
    mlar = os.path.join(os.environ["VERIF_BINDIR"], "mlar")
    os.makedirs(work, exist_ok=True)
    rng = random.Random(int(seed) * 7919 + 17)
    n = 160 if tier == "thorough" else 14
    with open(outp, "w") as f:
        for k in range(n):
            try:
                meta, errs, cls = pipeline(mlar, rng, work, k, tier)
            except subprocess.TimeoutExpired as e:
                meta, errs, cls = {"pipeline": k}, ["a command did not finish within its time limit: %s" % e.cmd[:3]], "timeout"
            f.write(json.dumps({"id": "c17-%d" % k, "fn": "", "args": [], "impl": [], "oracle_ok": not errs, "oracle_msg": "; ".join(errs[:3]),
                                "class": cls, "nontrivial": True, "meta": meta}) + "\n")
        model_cases(mlar, random.Random(int(seed) * 104729 + 5), os.path.join(work, "model"), tier, f)
        dotdot_cases(mlar, os.path.join(work, "dotdot"), f)
        info_cases(mlar, harness, random.Random(int(seed) * 15485863 + 11), os.path.join(work, "info"), tier, f)


def dotdot_cases(mlar, work, f):
    """Input files named with a parent-directory component (`mlar create ../d/x`): the regression witness of the repaired
    to-tar defect (a member of >= 100 bytes with `..` left an orphaned GNU long-name entry that renamed the NEXT member),
    and the open finding K17-totar-dotdot-omitted (such members are left out of the tar with exit status 0)."""
    import io
    import tarfile
    shutil.rmtree(work, ignore_errors=True)
    os.makedirs(os.path.join(work, "w", "sub"))
    os.makedirs(os.path.join(work, "d"))
    cwd = os.path.join(work, "w", "sub")
    longn = "x" * 100
    files = {"../../d/" + longn: b"EVIL", "zz": b"good", "../../d/s": b"short"}
    for n, c in files.items():
        with open(os.path.join(cwd, n), "wb") as g:
            g.write(c)
    rc, _, _ = run(mlar, ["create", "-l", "-o", "../a.mla", "--"] + list(files), cwd)
    rc2, out, _ = run(mlar, ["to-tar", "-i", "../a.mla", "-o", "-"], cwd)
    members = {}
    try:
        with tarfile.open(fileobj=io.BytesIO(out)) as t:
            for m in t:
                members[m.name] = t.extractfile(m).read()
    except Exception as e:  # noqa: BLE001
        members = {"<unreadable tar>": str(e).encode()}
    # (1) fixed: no member may carry the bytes of another file
    wrong = [n for n, c in members.items() if files.get(n, files.get("./" + n)) != c]
    f.write(json.dumps({"id": "c17-dotdot-misattributed", "fn": "", "args": [], "impl": [], "class": "dotdot to-tar members keep their own bytes",
                        "oracle_ok": rc == 0 and not wrong, "nontrivial": True,
                        "oracle_msg": "" if rc == 0 and not wrong else "to-tar: member(s) %s do not carry the bytes of the input file of that name" % wrong[:2],
                        "meta": {"members": sorted(members), "status": rc2}}) + "\n")
    # (2) open finding: the members named with `..` are omitted although the command exits 0
    missing = [n for n in files if n not in members and n.lstrip("./") not in members]
    ok = not (rc2 == 0 and missing)
    c = {"id": "c17-dotdot-omitted", "fn": "", "args": [], "impl": [], "class": "dotdot to-tar gives every file back", "oracle_ok": ok, "nontrivial": True,
         "oracle_msg": "" if ok else "to-tar exits 0 but leaves out %d input file(s) whose path holds a `..` component" % len(missing),
         "meta": {"missing": [m[-20:] for m in missing], "status": rc2}}
    if not ok and all(".." in m.split("/") for m in missing):
        c["known"] = "K17-totar-dotdot-omitted"
    f.write(json.dumps(c) + "\n")
    shutil.rmtree(work, ignore_errors=True)


if __name__ == "__main__":
    main()
