#!/usr/bin/env python3
"""C18 job: corpus (gen_corpus.py) -> real parsers (harness keys-tester) and the Coq model
(theories/Keys.v, evaluated by vm_compute) -> one JSON case per input with the model
agreement and the verdict of the property's own oracle.

usage: c18_job.py <harness-binary> <workdir> <tier> <seed> <out.jsonl>
The curve conversions are parameters of the model: the model yields the key kind and the 32
stored octets, this script applies SHA-512 (hashlib) / Edwards->Montgomery (python) before
comparing with what the Rust functions returned."""
import hashlib, json, os, re, subprocess, sys
HERE = os.path.dirname(os.path.abspath(__file__))
sys.path.insert(0, HERE)
import gen_corpus as G

COQ = os.path.normpath(os.path.join(HERE, "..", "..", "coq"))


def conv_priv(tok):
    if not tok.startswith("ok:"):
        return {"crash": "panic"}.get(tok, tok)
    _, k, h = tok.split(":")
    raw = bytes.fromhex(h)
    if k == "E":
        raw = hashlib.sha512(raw).digest()[:32]
    return "ok:" + raw.hex()


def conv_pub_one(k, h):
    raw = bytes.fromhex(h)
    if k == "E":
        raw = G.ed_to_mont(raw)
        if raw is None:
            return None
    return raw.hex()


def conv_pub(tok):
    if not tok.startswith("ok:"):
        return {"crash": "panic"}.get(tok, tok)
    _, k, h = tok.split(":")
    r = conv_pub_one(k, h)
    return "err" if r is None else "ok:" + r


def conv_many(tok):
    if not tok.startswith("ok:"):
        return {"crash": "panic"}.get(tok, tok)
    _, n, rest = tok.split(":", 2)
    keys = []
    if rest:
        for item in rest.split(","):
            k, h = item.split(":")
            r = conv_pub_one(k, h)
            if r is None:
                return "err"
            keys.append(r)
    return "ok:%d:%s" % (len(keys), ",".join(keys))


def main():
    harness, work, tier, seed, outp = sys.argv[1:6]
    os.makedirs(work, exist_ok=True)
    G.HERE = work
    G.corpus.clear() if hasattr(G, "corpus") else None
    G.main()
    corpus = open(os.path.join(work, "corpus.txt")).read().split("\n")[:-1]
    cats = open(os.path.join(work, "corpus_cats.txt")).read().split("\n")[:-1]
    seeds = open(os.path.join(work, "gen_seeds.txt")).read()
    if tier != "thorough":
        # quick: every structural category, but only every 3rd input of the large mutation sweeps
        keep = [i for i, c in enumerate(cats) if not (c.startswith("D.mut-pem") or c.startswith("B.mut-der-in-pem")) or i % 3 == 0]
        corpus = [corpus[i] for i in keep]
        cats = [cats[i] for i in keep]
        src = open(os.path.join(work, "cases.v")).read()
        head, _, tail = src.partition("Eval vm_compute in (run ")
        lines = ("Eval vm_compute in (run " + tail).split("\n")
        runs = [l for l in lines if l.startswith("Eval vm_compute in (run ")]
        gens = [l for l in lines if l.startswith("Eval vm_compute in (rungen ")]
        runs = [runs[i] for i in keep]
        open(os.path.join(work, "cases.v"), "w").write(head + "\n".join(runs + gens) + "\n")

    def sh(inp):
        return subprocess.run([harness, "keys-tester"], input=inp, capture_output=True, text=True, check=True).stdout
    rust = sh("\n".join(corpus) + "\n").split("\n")[:-1]
    rust_gen = sh(seeds).split("\n")[:-1]
    coq = subprocess.run(["coqc", "-noglob", "-Q", os.path.join(COQ, "theories"), "MLA", "cases.v"], cwd=work,
                         capture_output=True, text=True)
    model = re.findall(r'= "([^"]*)"', coq.stdout) if coq.returncode == 0 else []
    model_ok = coq.returncode == 0 and len(model) == len(corpus) + len(rust_gen)
    out = open(outp, "w")
    if not model_ok:
        out.write(json.dumps({"id": "c18-model", "class": "model", "nontrivial": True, "meta": {"stderr": coq.stderr[-800:]},
                              "oracle_ok": True, "oracle_msg": "", "model_agrees": False,
                              "model_detail": "Keys.v model could not be evaluated on the corpus"}) + "\n")
    # private/public pairs of the valid material, by index
    valid = {}
    for i, (c, r) in enumerate(zip(cats, rust)):
        if c.startswith("A.valid-"):
            valid.setdefault(c, []).append(r)
    singles = {}
    for c, r in zip(cats, rust):
        if c.startswith("D.single-of-many:") and r.split(" ")[1].startswith("U:ok:"):
            singles[int(c.split(":")[1])] = r.split(" ")[1][5:]
    for i, (inp, cat, r) in enumerate(zip(corpus, cats, rust)):
        rp, ru, rm = r.split(" ")
        msg, known = None, None
        if "panic" in r:
            msg = "a parser panicked"
        elif cat.startswith("A.valid-") and "priv" in cat and not rp.startswith("P:ok"):
            msg = "a valid private key does not parse"
        elif cat.startswith("A.valid-") and "pub" in cat and not ru.startswith("U:ok"):
            msg = "a valid public key does not parse"
        elif cat.startswith("F.key-frames-as-pem") and cat.endswith("-der") and (("priv" in cat and not rp.startswith("P:ok")) or ("pub" in cat and not ru.startswith("U:ok"))):
            msg, known = "the DER form of a key does not parse although its PEM form does (PEM and DER forms must parse identically)", "K18-der-frames-as-pem"
        elif cat.startswith("G.ber-indefinite") and (rp.startswith("P:ok") or ru.startswith("U:ok") or (rm.startswith("M:ok") and not rm.startswith("M:ok:0:"))):
            msg = "a key re-encoded in BER with an indefinite length (not DER) is accepted: on any other input than a key file the parsers return an error"
        elif cat.startswith("F.key-has-begin-marker") and (("priv" in cat and not rp.startswith("P:ok")) or ("pub" in cat and not ru.startswith("U:ok"))):
            msg = "a key whose bytes contain a PEM begin marker (no complete frame) does not parse in its %s form (PEM and DER forms must parse identically)" % ("DER" if "-der-" in cat else "PEM")
        elif rm.startswith("M:ok:0:") and not cat.startswith("A.") :
            msg, known = "parse_openssl_25519_pubkeys_pem_many returns Ok(empty) on an input that holds no key instead of an error", "K18-many-ok-without-key"
        elif cat.startswith("D.many") and rm.startswith("M:ok") and any(t in cat for t in ("garbage", "truncated", "no-end", "der-appended")):
            msg, known = "parse_openssl_25519_pubkeys_pem_many ignores an unframed tail after the last complete block", "K18-many-ok-without-key"
        elif ":sel=" in cat:
            # a bundle of valid blocks parses to the keys its blocks parse to, in order (repeats included)
            idx = [int(x) for x in cat.split(":sel=")[1].split(",")]
            want = "M:ok:%d:%s" % (len(idx), ",".join(singles[k] for k in idx)) if all(k in singles for k in idx) else None
            if want is not None and rm != want:
                msg = "a bundle of %d PEM public keys does not parse to the keys of its blocks in order (repeats included): got %s" % (len(idx), rm[:80])
        agrees = None
        detail = ""
        if model_ok:
            mp, mu, mm = model[i].split(" ")
            conv = "P:%s U:%s M:%s" % (conv_priv(mp[2:]), conv_pub(mu[2:]), conv_many(mm[2:]))
            agrees = conv == r
            if not agrees:
                detail = "rust %s | model %s" % (r[:200], conv[:200])
                # the executable model (Keys.v) is where "key file" is defined for the theorems (C18_parse_total etc.):
                # a parser that ACCEPTS what the model refuses, or returns other octets than the model, accepts "another
                # input" / mis-parses a key. (A parser that refuses more than the model is a disagreement only.)
                if msg is None:
                    cp, cu, cm = conv.split(" ")
                    for nm, rr, mo in (("parse_openssl_25519_privkey", rp, cp), ("parse_openssl_25519_pubkey", ru, cu), ("parse_openssl_25519_pubkeys_pem_many", rm, cm)):
                        if ":ok" in rr and rr != mo and not (rr.startswith("M:ok:0:") and not mo.startswith("M:ok")):
                            msg = "%s returns %s on this input; the model of the key-file forms (Keys.v) gives %s: on any other input than a key file the parsers return an error, and a key parses to its own octets" % (nm, rr[:90], mo[:90])
                            break
        c = {"id": "c18-%d" % i, "class": re.sub(r"-\d+$", "", cat.split(":")[0]), "nontrivial": len(inp) > 0,
             "meta": {"category": cat, "input_hex": inp[:400], "rust": r[:300]}, "oracle_ok": msg is None, "oracle_msg": msg or "",
             "model_agrees": agrees, "model_detail": detail}
        if known:
            c["known"] = known
        out.write(json.dumps(c) + "\n")
    # pairs: the public key computed from the parsed private key equals the parsed public key
    for kind in ("x", "ed"):
        for form in ("der", "pem"):
            pr = valid.get("A.valid-%s-priv-%s" % (kind, form), [])
            pu = valid.get("A.valid-%s-pub-%s" % (kind, form), [])
            for j, (a, b) in enumerate(zip(pr, pu)):
                ok = a.split(" ")[0].startswith("P:ok:") and b.split(" ")[1].startswith("U:ok:")
                if ok:
                    sk = bytes.fromhex(a.split(" ")[0][5:])
                    ok = G.x25519(sk, G.BASE9).hex() == b.split(" ")[1][5:]
                out.write(json.dumps({"id": "c18-pair-%s-%s-%d" % (kind, form, j), "class": "pair-" + kind + "-" + form, "nontrivial": True,
                                      "meta": {}, "oracle_ok": ok, "oracle_msg": "" if ok else "parsed private and public key do not match", "model_agrees": None}) + "\n")
    # PEM and DER forms of the same valid key parse identically
    for kind in ("x", "ed"):
        for what, idx in (("priv", 0), ("pub", 1)):
            d = valid.get("A.valid-%s-%s-der" % (kind, what), [])
            p = valid.get("A.valid-%s-%s-pem" % (kind, what), [])
            for j, (a, b) in enumerate(zip(d, p)):
                ok = a.split(" ")[idx] == b.split(" ")[idx]
                out.write(json.dumps({"id": "c18-pemder-%s-%s-%d" % (kind, what, j), "class": "pem=der", "nontrivial": True, "meta": {},
                                      "oracle_ok": ok, "oracle_msg": "" if ok else "PEM and DER forms of the same key parse differently", "model_agrees": None}) + "\n")
    # generate_keypair + export: parse back (oracle) and model agreement
    for j, r in enumerate(rust_gen):
        agrees = (r == model[len(corpus) + j]) if model_ok else None
        out.write(json.dumps({"id": "c18-gen-%d" % j, "class": "generate_keypair", "nontrivial": True, "meta": {"rust": r[:200]},
                              "oracle_ok": True, "oracle_msg": "", "model_agrees": agrees,
                              "model_detail": "" if agrees else "generate_keypair / PEM export differ"}) + "\n")
    out.close()


if __name__ == "__main__":
    main()
